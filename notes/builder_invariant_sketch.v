(* Design-round calibration sketch (not part of the checked development, not in any _CoqProject).
   Miniature of tir::builder: statements go to the last block, mark_branch_point appends a block and
   returns the old index, terminators of marked blocks are set later, targets are label+1, and the
   short-circuit operator appends its sink assignment to an already marked (still open) block.
   walk_ok is the region invariant planned for C01/C06 (DESIGN.md Appendix A). Closed under the
   global context; compiles in ~2 s with coqc 8.16.1. *)
From Coq Require Import List Arith Lia Bool.
Import ListNotations.

(* miniature of tir::builder's discipline: statements go to the LAST block, mark_branch_point
   appends a block and returns the old index, terminators of marked blocks are set later,
   branch targets are label+1 *)
Inductive expr := EConst (b : bool) | EVar (x : nat) | EAnd (l r : expr).
Inductive operand := OC (b : bool) | OL (l : nat) | OV (x : nat).
Inductive stmt := Assign (l : nat) (o : operand).
Inductive term := Br (b : nat) | BrCond (o : operand) (t f : nat).
Record block := { stmts : list stmt; tm : option term }.
Record st := { blocks : list block; nloc : nat }.

Fixpoint upd {A} (l : list A) (i : nat) (f : A -> A) : list A :=
  match l, i with
  | [], _ => []
  | x :: t, O => f x :: t
  | x :: t, S i' => x :: upd t i' f
  end.

Definition cur (s : st) := length (blocks s) - 1.
Definition push_at (r : nat) (x : stmt) (s : st) : st :=
  {| blocks := upd (blocks s) r (fun b => {| stmts := stmts b ++ [x]; tm := tm b |}); nloc := nloc s |}.
Definition fin_at (r : nat) (t : term) (s : st) : st :=
  {| blocks := upd (blocks s) r (fun b => {| stmts := stmts b; tm := Some t |}); nloc := nloc s |}.
Definition mark (s : st) : nat * st := (cur s, {| blocks := blocks s ++ [{| stmts := []; tm := None |}]; nloc := nloc s |}).
Definition alloca (s : st) : nat * st := (nloc s, {| blocks := blocks s; nloc := S (nloc s) |}).

Fixpoint walk (e : expr) (s : st) : operand * st :=
  match e with
  | EConst b => (OC b, s)
  | EVar x => (OV x, s)
  | EAnd l r =>
      let '(ol, s) := walk l s in let '(ll, s) := mark s in
      let '(or, s) := walk r s in let '(lr, s) := mark s in
      let '(k, s) := alloca s in
      let s := fin_at ll (BrCond ol (S ll) (S lr)) (push_at ll (Assign k (OC false)) s) in
      let s := fin_at lr (Br (S lr)) (push_at lr (Assign k or) s) in
      (OL k, s)
  end.

(* source semantics *)
Fixpoint ev (env : nat -> bool) (e : expr) : bool :=
  match e with
  | EConst b => b | EVar x => env x
  | EAnd l r => if ev env l then ev env r else false
  end.

(* target semantics *)
Definition store := nat -> bool.
Definition oval (env : nat -> bool) (rho : store) (o : operand) : bool :=
  match o with OC b => b | OL l => rho l | OV x => env x end.
Definition set (rho : store) (l : nat) (v : bool) : store := fun k => if Nat.eqb k l then v else rho k.

Inductive step (env : nat -> bool) (bs : list block) : nat * nat * store -> nat * nat * store -> Prop :=
| StStmt b i rho blk l o : nth_error bs b = Some blk -> nth_error (stmts blk) i = Some (Assign l o) ->
    step env bs (b, i, rho) (b, S i, set rho l (oval env rho o))
| StBr b rho blk t : nth_error bs b = Some blk -> tm blk = Some (Br t) ->
    step env bs (b, length (stmts blk), rho) (t, 0, rho)
| StBrCond b rho blk o t f : nth_error bs b = Some blk -> tm blk = Some (BrCond o t f) ->
    step env bs (b, length (stmts blk), rho) ((if oval env rho o then t else f), 0, rho).

Inductive steps env bs : nat * nat * store -> nat * nat * store -> Prop :=
| SRefl x : steps env bs x x
| SStep x y z : step env bs x y -> steps env bs y z -> steps env bs x z.

Lemma steps_trans env bs x y z : steps env bs x y -> steps env bs y z -> steps env bs x z.
Proof. induction 1; eauto using steps. Qed.
Lemma steps_one env bs x y : step env bs x y -> steps env bs x y.
Proof. eauto using steps. Qed.

(* final code C extends builder state blocks l *)
Definition ext (l C : list block) : Prop :=
  forall i b, nth_error l i = Some b ->
    exists b', nth_error C i = Some b' /\
      (forall t, tm b = Some t -> b' = b) /\
      (tm b = None -> exists suf, stmts b' = stmts b ++ suf).

Definition endlen (s : st) : nat := match nth_error (blocks s) (cur s) with Some b => length (stmts b) | None => 0 end.
Definition wf (s : st) : Prop := blocks s <> [] /\ exists b, nth_error (blocks s) (cur s) = Some b /\ tm b = None.

Lemma length_upd {A} (l : list A) i f : length (upd l i f) = length l.
Proof. revert i; induction l as [|x t IH]; intros [|i]; simpl; auto. Qed.
Lemma nth_upd_eq {A} (l : list A) i f : nth_error (upd l i f) i = option_map f (nth_error l i).
Proof. revert i; induction l as [|x t IH]; intros [|i]; simpl; auto. Qed.
Lemma nth_upd_ne {A} (l : list A) i j f : i <> j -> nth_error (upd l i f) j = nth_error l j.
Proof. revert i j; induction l as [|x t IH]; intros [|i] [|j] H; simpl; auto; try congruence. Qed.

Lemma ext_refl l : ext l l.
Proof. intros i b H. exists b. split; [auto|split; [auto|]]. intros _. exists []. now rewrite app_nil_r. Qed.
Lemma ext_trans l1 l2 l3 : ext l1 l2 -> ext l2 l3 -> ext l1 l3.
Proof.
  intros H12 H23 i b Hb. destruct (H12 i b Hb) as (b2 & Hb2 & Hf & Ho).
  destruct (H23 i b2 Hb2) as (b3 & Hb3 & Hf3 & Ho3). exists b3. split; [auto|split].
  - intros t Ht. rewrite (Hf t Ht) in *. eauto.
  - intros Hn. destruct (Ho Hn) as (suf & Hs). destruct (tm b2) as [t2|] eqn:E2.
    + rewrite (Hf3 t2 eq_refl). eauto.
    + destruct (Ho3 eq_refl) as (suf' & Hs'). exists (suf ++ suf'). now rewrite Hs', Hs, app_assoc.
Qed.

Definition openb (l : list block) (r : nat) := exists b, nth_error l r = Some b /\ tm b = None.

Lemma ext_push l r x : openb l r -> ext l (upd l r (fun b => {| stmts := stmts b ++ [x]; tm := tm b |})).
Proof.
  intros (b0 & Hb0 & Ho) i b Hb. destruct (Nat.eq_dec r i) as [->|Hne].
  - rewrite nth_upd_eq, Hb. simpl. eexists; split; [reflexivity|]. rewrite Hb in Hb0; inversion Hb0; subst b0.
    split; [intros t Ht; congruence| intros _; simpl; eauto].
  - rewrite nth_upd_ne by auto. exists b. split; [auto|split;[auto|]]. intros _; exists []; now rewrite app_nil_r.
Qed.
Lemma ext_fin l r t : openb l r -> ext l (upd l r (fun b => {| stmts := stmts b; tm := Some t |})).
Proof.
  intros (b0 & Hb0 & Ho) i b Hb. destruct (Nat.eq_dec r i) as [->|Hne].
  - rewrite nth_upd_eq, Hb. simpl. eexists; split; [reflexivity|]. rewrite Hb in Hb0; inversion Hb0; subst b0.
    split; [intros t' Ht; congruence| intros _; simpl; exists []; now rewrite app_nil_r].
  - rewrite nth_upd_ne by auto. exists b. split; [auto|split;[auto|]]. intros _; exists []; now rewrite app_nil_r.
Qed.
Lemma ext_app l x : ext l (l ++ [x]).
Proof.
  intros i b Hb. exists b. split; [rewrite nth_error_app1; auto; apply nth_error_Some; congruence|].
  split; [auto|]. intros _; exists []; now rewrite app_nil_r.
Qed.

Definition obound (o : operand) (n : nat) := match o with OL l => l < n | _ => True end.

Record Res (s : st) (e : expr) (o : operand) (s' : st) : Prop := {
  r_wf : wf s';
  r_nloc : nloc s <= nloc s';
  r_cur : cur s <= cur s';
  r_old : forall i, i < cur s -> nth_error (blocks s') i = nth_error (blocks s) i;
  r_ext : ext (blocks s) (blocks s');
  r_ob : obound o (nloc s');
  r_sem : forall C, ext (blocks s') C -> forall env rho,
     exists rho', steps env C (cur s, endlen s, rho) (cur s', endlen s', rho')
        /\ oval env rho' o = ev env e /\ (forall k, k < nloc s -> rho' k = rho k)
}.

Lemma wf_len s : wf s -> length (blocks s) = S (cur s).
Proof. intros [H _]. unfold cur. destruct (blocks s); [congruence|simpl; lia]. Qed.

Lemma mark_spec s l s2 : wf s -> mark s = (l, s2) ->
  l = cur s /\ cur s2 = S (cur s) /\ nloc s2 = nloc s /\ wf s2 /\ endlen s2 = 0 /\
  blocks s2 = blocks s ++ [{| stmts := []; tm := None |}] /\ openb (blocks s2) (cur s).
Proof.
  intros Hwf H. unfold mark in H. inversion H; subst l s2; clear H. pose proof (wf_len s Hwf) as HL.
  destruct Hwf as [Hne (b & Hb & Ho)].
  set (nb := {| stmts := []; tm := None |}).
  set (s2 := {| blocks := blocks s ++ [nb]; nloc := nloc s |}).
  assert (Hc : cur s2 = S (cur s)).
  { unfold cur at 1. cbn [blocks s2]. rewrite app_length. cbn [length]. lia. }
  assert (Hlast : nth_error (blocks s2) (S (cur s)) = Some nb).
  { cbn [blocks s2]. rewrite nth_error_app2 by lia. rewrite HL, Nat.sub_diag. reflexivity. }
  split; [reflexivity|]. split; [exact Hc|]. split; [reflexivity|]. split.
  { split. { cbn [blocks s2]. destruct (blocks s); cbn; congruence. }
    exists nb. rewrite Hc. split; [exact Hlast|reflexivity]. }
  split. { unfold endlen. rewrite Hc, Hlast. reflexivity. }
  split; [reflexivity|].
  exists b. cbn [blocks s2]. rewrite nth_error_app1 by lia. auto.
Qed.

Lemma oval_set_fresh env rho k v o n : obound o n -> n <= k -> oval env (set rho k v) o = oval env rho o.
Proof. destruct o; simpl; auto. intros H1 H2. unfold set. destruct (Nat.eqb_spec l k); auto; lia. Qed.

Lemma ext_block_fin C l i b t : ext l C -> nth_error l i = Some b -> tm b = Some t -> nth_error C i = Some b.
Proof. intros H Hb Ht. destruct (H i b Hb) as (b' & Hb' & Hf & _). now rewrite (Hf t Ht) in Hb'. Qed.

Lemma walk_const_like s e o : wf s -> (forall env rho, oval env rho o = ev env e) -> obound o (nloc s) -> Res s e o s.
Proof.
  intros Hwf Hv Hb. constructor; auto using ext_refl.
  intros C _ env rho. exists rho. split; [constructor|split; auto].
Qed.

Theorem walk_ok e : forall s o s', walk e s = (o, s') -> wf s -> Res s e o s'.
Proof.
  induction e as [b|x|l IHl r IHr]; intros s0 o s' Hw Hwf.
  - inversion Hw; subst. apply walk_const_like; simpl; auto.
  - inversion Hw; subst. apply walk_const_like; simpl; auto.
  - (* EAnd *)
    cbn [walk] in Hw.
    destruct (walk l s0) as [ol s1] eqn:W1. destruct (mark s1) as [ll s2] eqn:M1.
    destruct (walk r s2) as [or s3] eqn:W2. destruct (mark s3) as [lr s4] eqn:M2.
    pose proof (IHl _ _ _ W1 Hwf) as R1.
    destruct (mark_spec _ _ _ (r_wf _ _ _ _ R1) M1) as (-> & Hc2 & Hn2 & Hwf2 & He2 & Hb2 & Ho2).
    pose proof (IHr _ _ _ W2 Hwf2) as R2.
    destruct (mark_spec _ _ _ (r_wf _ _ _ _ R2) M2) as (-> & Hc4 & Hn4 & Hwf4 & He4 & Hb4 & Ho4).
    set (ll := cur s1) in *. set (lr := cur s3) in *.
    assert (Hlt : ll < lr) by (pose proof (r_cur _ _ _ _ R2); lia).
    unfold alloca in Hw. cbv beta iota zeta in Hw. injection Hw as <- <-.
    set (k := nloc s4).
    (* block ll in s4 is the open block of s1 *)
    destruct (r_wf _ _ _ _ R1) as [_ (b1 & Hb1 & Hob1)]. fold ll in Hb1.
    assert (Hll3 : nth_error (blocks s3) ll = Some b1).
    { rewrite (r_old _ _ _ _ R2) by lia. rewrite Hb2, nth_error_app1; auto. apply nth_error_Some; congruence. }
    assert (Hll4 : nth_error (blocks s4) ll = Some b1).
    { rewrite Hb4, nth_error_app1; auto. apply nth_error_Some; congruence. }
    destruct (r_wf _ _ _ _ R2) as [_ (b3 & Hb3 & Hob3)]. fold lr in Hb3.
    assert (Hlr4 : nth_error (blocks s4) lr = Some b3).
    { rewrite Hb4, nth_error_app1; auto. apply nth_error_Some; congruence. }
    set (s5 := {| blocks := blocks s4; nloc := S (nloc s4) |}).
    set (B1 := {| stmts := stmts b1 ++ [Assign k (OC false)]; tm := Some (BrCond ol (S ll) (S lr)) |}).
    set (B3 := {| stmts := stmts b3 ++ [Assign k or]; tm := Some (Br (S lr)) |}).
    set (s6 := push_at ll (Assign k (OC false)) s5).
    set (s7 := fin_at ll (BrCond ol (S ll) (S lr)) s6).
    set (s8 := push_at lr (Assign k or) s7).
    set (s9 := fin_at lr (Br (S lr)) s8).
    assert (Hne : ll <> lr) by lia.
    assert (E9 : forall i, nth_error (blocks s9) i =
                  if Nat.eqb i ll then Some B1 else if Nat.eqb i lr then Some B3 else nth_error (blocks s4) i).
    { intro i. unfold s9, s8, s7, s6, fin_at, push_at. cbn [blocks s5].
      destruct (Nat.eqb_spec i ll) as [->|N1]; [|destruct (Nat.eqb_spec i lr) as [->|N2]].
      - rewrite nth_upd_ne, nth_upd_ne, nth_upd_eq, nth_upd_eq, Hll4 by auto. reflexivity.
      - rewrite nth_upd_eq, nth_upd_eq, nth_upd_ne, nth_upd_ne, Hlr4 by auto. reflexivity.
      - rewrite !nth_upd_ne by auto. reflexivity. }
    assert (L9 : length (blocks s9) = length (blocks s4)).
    { unfold s9, s8, s7, s6, fin_at, push_at. cbn [blocks s5]. now rewrite !length_upd. }
    assert (C9 : cur s9 = S lr). { unfold cur at 1. rewrite L9. fold (cur s4). exact Hc4. }
    destruct Hwf4 as [Hne4 (b4 & Hb4' & Hob4)]. rewrite Hc4 in Hb4'.
    assert (Hb4e : b4 = {| stmts := []; tm := None |}).
    { rewrite Hb4 in Hb4'. rewrite nth_error_app2 in Hb4' by (rewrite (wf_len _ (r_wf _ _ _ _ R2)); fold lr; lia).
      rewrite (wf_len _ (r_wf _ _ _ _ R2)) in Hb4'. fold lr in Hb4'. rewrite Nat.sub_diag in Hb4'. cbn in Hb4'. congruence. }
    assert (N9 : nth_error (blocks s9) (S lr) = Some b4).
    { rewrite E9. destruct (Nat.eqb_spec (S lr) ll); [lia|]. destruct (Nat.eqb_spec (S lr) lr); [lia|]. exact Hb4'. }
    assert (EL9 : endlen s9 = 0). { unfold endlen. rewrite C9, N9, Hb4e. reflexivity. }
    pose proof (r_cur _ _ _ _ R1) as Hcur1. fold ll in Hcur1.
    assert (X49 : ext (blocks s4) (blocks s9)).
    { set (l6 := upd (blocks s4) ll (fun b => {| stmts := stmts b ++ [Assign k (OC false)]; tm := tm b |})).
      set (l7 := upd l6 ll (fun b => {| stmts := stmts b; tm := Some (BrCond ol (S ll) (S lr)) |})).
      set (l8 := upd l7 lr (fun b => {| stmts := stmts b ++ [Assign k or]; tm := tm b |})).
      change (blocks s9) with (upd l8 lr (fun b => {| stmts := stmts b; tm := Some (Br (S lr)) |})).
      apply ext_trans with (l2 := l6). { apply ext_push. exists b1; auto. }
      apply ext_trans with (l2 := l7). { apply ext_fin. unfold l6. eexists. rewrite nth_upd_eq, Hll4. cbn. split; [reflexivity|exact Hob1]. }
      apply ext_trans with (l2 := l8). { apply ext_push. unfold l7, l6. exists b3. rewrite !nth_upd_ne by auto. auto. }
      apply ext_fin. unfold l8, l7, l6. eexists. rewrite nth_upd_eq, !nth_upd_ne, Hlr4 by auto. cbn. split; [reflexivity|exact Hob3]. }
    assert (X39 : ext (blocks s3) (blocks s9)) by (apply ext_trans with (l2 := blocks s4); [rewrite Hb4; apply ext_app|exact X49]).
    assert (X19 : ext (blocks s1) (blocks s9)).
    { apply ext_trans with (l2 := blocks s2); [rewrite Hb2; apply ext_app|]. eapply ext_trans; [apply (r_ext _ _ _ _ R2)|exact X39]. }
    change (Res s0 (EAnd l r) (OL k) s9).
    constructor.
    + split. { intro E. pose proof L9 as L. rewrite E in L. destruct (blocks s4); [congruence|simpl in L; lia]. }
      exists b4. rewrite C9. split; [exact N9|exact Hob4].
    + pose proof (r_nloc _ _ _ _ R1). pose proof (r_nloc _ _ _ _ R2). cbn [nloc s9 s8 s7 s6 s5 fin_at push_at]. lia.
    + rewrite C9. lia.
    + intros i Hi. rewrite E9. destruct (Nat.eqb_spec i ll); [lia|]. destruct (Nat.eqb_spec i lr); [lia|].
      rewrite Hb4, nth_error_app1 by (rewrite (wf_len _ (r_wf _ _ _ _ R2)); fold lr; lia).
      rewrite (r_old _ _ _ _ R2) by lia. rewrite Hb2, nth_error_app1 by (rewrite (wf_len _ (r_wf _ _ _ _ R1)); fold ll; lia).
      apply (r_old _ _ _ _ R1). lia.
    + eapply ext_trans; [apply (r_ext _ _ _ _ R1)|exact X19].
    + cbn. unfold k. lia.
    + intros C HC env rho.
      destruct (r_sem _ _ _ _ R1 C (ext_trans _ _ _ X19 HC) env rho) as (rho1 & St1 & V1 & F1).
      fold ll in St1.
      assert (EL1 : endlen s1 = length (stmts b1)) by (unfold endlen; fold ll; now rewrite Hb1).
      assert (CB1 : nth_error C ll = Some B1).
      { eapply ext_block_fin; [exact HC| |reflexivity]. rewrite E9, Nat.eqb_refl. reflexivity. }
      assert (CB3 : nth_error C lr = Some B3).
      { eapply ext_block_fin; [exact HC| |reflexivity]. rewrite E9. destruct (Nat.eqb_spec lr ll); [lia|]. rewrite Nat.eqb_refl. reflexivity. }
      set (rho1' := set rho1 k false).
      assert (Hk1 : nloc s1 <= k). { pose proof (r_nloc _ _ _ _ R2). unfold k. lia. }
      assert (St2 : steps env C (ll, endlen s1, rho1) ((if ev env l then S ll else S lr), 0, rho1')).
      { rewrite EL1. eapply SStep. { eapply StStmt; [exact CB1|]. cbn [stmts B1]. rewrite nth_error_app2, Nat.sub_diag by lia. reflexivity. }
        cbn [oval]. fold rho1'. eapply SStep; [|apply SRefl].
        replace (S (length (stmts b1))) with (length (stmts B1)) by (cbn [stmts B1]; rewrite app_length; cbn; lia).
        rewrite <- V1. rewrite <- (oval_set_fresh env rho1 k false ol (nloc s1) (r_ob _ _ _ _ R1) Hk1). fold rho1'.
        eapply StBrCond; [exact CB1|reflexivity]. }
      destruct (ev env l) eqn:EVl.
      * destruct (r_sem _ _ _ _ R2 C (ext_trans _ _ _ X39 HC) env rho1') as (rho3 & St3 & V3 & F3).
        rewrite Hc2, He2 in St3. fold ll lr in St3.
        assert (EL3 : endlen s3 = length (stmts b3)) by (unfold endlen; fold lr; now rewrite Hb3).
        exists (set rho3 k (oval env rho3 or)). split; [|split].
        -- eapply steps_trans; [exact St1|]. eapply steps_trans; [exact St2|]. eapply steps_trans; [exact St3|].
          rewrite C9, EL9, EL3. eapply SStep. { eapply StStmt; [exact CB3|]. cbn [stmts B3]. rewrite nth_error_app2, Nat.sub_diag by lia. reflexivity. }
          eapply SStep; [|apply SRefl].
          replace (S (length (stmts b3))) with (length (stmts B3)) by (cbn [stmts B3]; rewrite app_length; cbn; lia).
          eapply StBr; [exact CB3|reflexivity].
        -- cbn [oval ev]. rewrite EVl. unfold set. rewrite Nat.eqb_refl. exact V3.
        -- intros j Hj. unfold set. destruct (Nat.eqb_spec j k) as [->|]; [pose proof (r_nloc _ _ _ _ R1); lia|].
          rewrite F3 by (rewrite Hn2; pose proof (r_nloc _ _ _ _ R1); lia). unfold rho1', set.
          destruct (Nat.eqb_spec j k); [lia|]. apply F1; exact Hj.
      * exists rho1'. split; [|split].
        -- rewrite C9, EL9. eapply steps_trans; [exact St1|exact St2].
        -- cbn [oval ev]. rewrite EVl. unfold rho1', set. now rewrite Nat.eqb_refl.
        -- intros j Hj. unfold rho1', set. destruct (Nat.eqb_spec j k) as [->|]; [pose proof (r_nloc _ _ _ _ R1); lia|]. apply F1; exact Hj.
Qed.
Print Assumptions walk_ok.

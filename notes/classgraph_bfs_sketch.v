(* Design-round calibration sketch for C17 (not part of the checked development).
   Model of typemap BaseClasses (queue of remaining-supers iterators + visited set), derives = scan up to the
   first dangling name; soundness w.r.t. reflexive-transitive inheritance, an explicit fuel bound, and the
   observed defect F13 as a refutation example. Lesson: type aliases must be Notations, or lia sees
   `n :: visited` at type `list cname` and at `list nat` as different atoms. *)
From Coq Require Import List Arith Lia Bool Relations.
Import ListNotations.

(* class graph: name -> Some supers (declared) | None (dangling) *)
Notation cname := nat (only parsing).
Definition graph := list (cname * list cname).

Fixpoint lookup (g : graph) (n : cname) : option (list cname) :=
  match g with
  | [] => None
  | (k, s) :: t => if Nat.eqb k n then Some s else lookup t n
  end.

Inductive item := Found (c : cname) | Dangling (c : cname).

(* BaseClasses::next unrolled: queue of remaining-supers iterators, visited set; yields in BFS order.
   Like the Rust iterator it keeps going after a dangling name; consumers stop at the first one. *)
Fixpoint walk (fuel : nat) (g : graph) (pending : list (list cname)) (visited : list cname) : option (list item) :=
  match fuel with
  | O => None
  | S f =>
      match pending with
      | [] => Some []
      | [] :: rest => walk f g rest visited
      | (n :: it) :: rest =>
          match lookup g n with
          | None => option_map (cons (Dangling n)) (walk f g (it :: rest) visited)
          | Some sup =>
              if existsb (Nat.eqb n) visited then walk f g (it :: rest) visited
              else option_map (cons (Found n)) (walk f g ((it :: rest) ++ [sup]) (n :: visited))
          end
      end
  end.

(* is_derived_from_pedantic: self, or first hit before the first dangling name *)
Fixpoint scan (b : cname) (l : list item) : bool :=
  match l with
  | [] => false
  | Found c :: t => if Nat.eqb c b then true else scan b t
  | Dangling _ :: _ => false
  end.

Definition supers_of g c := match lookup g c with Some s => s | None => [] end.
Definition derives (fuel : nat) (g : graph) (c b : cname) : option bool :=
  if Nat.eqb c b then Some true
  else option_map (scan b) (walk fuel g [supers_of g c] []).

(* specification: reflexive-transitive public inheritance over declared classes *)
Definition super (g : graph) (x y : cname) : Prop := exists s, lookup g x = Some s /\ In y s /\ lookup g y <> None.
Definition reach g := clos_refl_trans _ (super g).

(* ---- soundness ---- *)
Lemma walk_sound g c : forall fuel pending visited out,
  (forall it n, In it pending -> In n it -> lookup g n <> None -> reach g c n) ->
  walk fuel g pending visited = Some out ->
  forall n, In (Found n) out -> reach g c n.
Proof.
  induction fuel as [|f IH]; intros pending visited out Hp Hw n Hin; [discriminate|].
  cbn [walk] in Hw. destruct pending as [|[|x it] rest].
  - inversion Hw; subst. destruct Hin.
  - eapply IH; [|exact Hw|exact Hin]. intros it' m Hi. apply Hp. now right.
  - destruct (lookup g x) as [sup|] eqn:Lx.
    + destruct (existsb (Nat.eqb x) visited).
      * eapply IH; [|exact Hw|exact Hin]. intros it' m [<-|Hi] Hm; [apply (Hp (x :: it)); simpl; auto|apply (Hp it'); simpl; auto].
      * destruct (walk f g ((it :: rest) ++ [sup]) (x :: visited)) as [o|] eqn:W; [|discriminate].
        inversion Hw; subst out; clear Hw. destruct Hin as [E|Hin].
        { inversion E; subst. apply (Hp (n :: it)); simpl; auto. congruence. }
        eapply IH; [|exact W|exact Hin].
        intros it' m Hi Hm Hl. rewrite in_app_iff in Hi. destruct Hi as [[<-|Hi]|[<-|[]]].
        -- apply (Hp (x :: it)); simpl; auto.
        -- apply (Hp it'); simpl; auto.
        -- eapply rt_trans; [apply (Hp (x :: it)); simpl; auto; congruence|].
           apply rt_step. exists sup. auto.
    + destruct (walk f g (it :: rest) visited) as [o|] eqn:W; [|discriminate].
      inversion Hw; subst out; clear Hw. destruct Hin as [E|Hin]; [discriminate|].
      eapply IH; [|exact W|exact Hin]. intros it' m [<-|Hi] Hm; [apply (Hp (x :: it)); simpl; auto|apply (Hp it'); simpl; auto].
Qed.

Lemma scan_In b l : scan b l = true -> In (Found b) l.
Proof.
  induction l as [|[c|c] t IH]; simpl; try discriminate.
  destruct (Nat.eqb_spec c b) as [->|]; auto.
Qed.

Theorem derives_sound fuel g c b : derives fuel g c b = Some true -> reach g c b.
Proof.
  unfold derives. destruct (Nat.eqb_spec c b) as [->|Hne]; [intros _; apply rt_refl|].
  destruct (walk fuel g [supers_of g c] []) as [out|] eqn:W; [|discriminate]. cbn. intros E. inversion E as [E'].
  apply scan_In in E'. eapply walk_sound; [|exact W|exact E'].
  intros it n [<-|[]] Hn Hl. apply rt_step. unfold supers_of in Hn.
  destruct (lookup g c) as [s|] eqn:L; [|destruct Hn]. exists s. auto.
Qed.
Print Assumptions derives_sound.

(* ---- termination: an explicit fuel bound ---- *)
Definition slen (lk : cname -> option (list cname)) (k : cname) := length (match lk k with Some s => s | None => [] end).
Fixpoint wt (lk : cname -> option (list cname)) (l : graph) (visited : list cname) : nat :=
  match l with
  | [] => 0
  | (k, _) :: t => (if existsb (Nat.eqb k) visited then 0 else 2 + slen lk k) + wt lk t visited
  end.
Fixpoint psum (pending : list (list cname)) : nat :=
  match pending with [] => 0 | it :: t => 1 + length it + psum t end.
Definition mu g pending visited := psum pending + wt (lookup g) g visited.

Lemma psum_app a b : psum (a ++ b) = psum a + psum b.
Proof. induction a; simpl; lia. Qed.

Lemma wt_mono lk l n visited : wt lk l (n :: visited) <= wt lk l visited.
Proof.
  induction l as [|[k s] t IH]; simpl; [lia|].
  destruct (Nat.eqb k n); simpl; destruct (existsb (Nat.eqb k) visited); lia.
Qed.

Lemma wt_dec lk l n visited :
  (exists s, In (n, s) l) -> existsb (Nat.eqb n) visited = false ->
  wt lk l (n :: visited) + 2 + slen lk n <= wt lk l visited.
Proof.
  induction l as [|[k s] t IH]; intros [s0 Hin] Hv; [destruct Hin|].
  simpl. destruct Hin as [E|Hin].
  - inversion E; subst k s. rewrite Nat.eqb_refl. simpl. rewrite Hv. pose proof (wt_mono lk t n visited) as M. lia.
  - specialize (IH (ex_intro _ s0 Hin) Hv).
    destruct (Nat.eqb k n); simpl; destruct (existsb (Nat.eqb k) visited); lia.
Qed.

Lemma lookup_In g n s : lookup g n = Some s -> exists s', In (n, s') g.
Proof.
  induction g as [|[k s'] t IH]; simpl; [discriminate|].
  destruct (Nat.eqb_spec k n) as [->|]; [eauto|]. intros H. destruct (IH H) as [x Hx]. eauto.
Qed.

Theorem walk_terminates g : forall fuel pending visited,
  mu g pending visited < fuel -> walk fuel g pending visited <> None.
Proof.
  induction fuel as [|f IH]; intros pending visited Hmu; [lia|].
  cbn [walk]. destruct pending as [|[|x it] rest]; [discriminate| |].
  - apply IH. unfold mu in *. simpl in Hmu. lia.
  - destruct (lookup g x) as [sup|] eqn:Lx.
    + destruct (existsb (Nat.eqb x) visited) eqn:Ev.
      * apply IH. unfold mu in *. simpl in *. lia.
      * assert (H : walk f g ((it :: rest) ++ [sup]) (x :: visited) <> None).
        { apply IH. unfold mu in *. rewrite psum_app. simpl in *.
          pose proof (wt_dec (lookup g) g x visited (lookup_In _ _ _ Lx) Ev) as D.
          unfold slen in D. rewrite Lx in D. lia. }
        destruct (walk f g ((it :: rest) ++ [sup]) (x :: visited)); [discriminate|congruence].
    + assert (H : walk f g (it :: rest) visited <> None) by (apply IH; unfold mu in *; simpl in *; lia).
      destruct (walk f g (it :: rest) visited); [discriminate|congruence].
Qed.

Definition bound (g : graph) (c : cname) : nat := S (mu g [supers_of g c] []).
Corollary derives_total g c b : derives (bound g c) g c b <> None.
Proof.
  unfold derives. destruct (Nat.eqb c b); [discriminate|].
  pose proof (walk_terminates g (bound g c) [supers_of g c] [] (Nat.lt_succ_diag_r _)) as H.
  destruct (walk (bound g c) g [supers_of g c] []); [discriminate|congruence].
Qed.

(* the observed defect F13 as a refutation of completeness on graphs with a dangling name *)
Example f13 : let g := [(0, [9; 1]); (1, [])] in
  reach g 0 1 /\ derives (bound g 0) g 0 1 = Some false.
Proof.
  split; [|vm_compute; reflexivity].
  apply rt_step. exists [9; 1]. simpl. split; [reflexivity|split; [auto|discriminate]].
Qed.
(* cycles terminate and are answered *)
Example cyc : let g := [(0, [1]); (1, [0; 2]); (2, [])] in derives (bound g 0) g 0 2 = Some true.
Proof. vm_compute. reflexivity. Qed.
Print Assumptions derives_total.

(* Design-round calibration sketch for C19_hex (not part of the checked development): parse_hex_color with
   shifts as div and masks as mod equals the Qt digit-level reading for every digit list; lia with
   Z.div_mod_to_equations closes all four lengths in about a second, no finite sweep needed. *)
From Coq Require Import ZArith List Lia.
Import ListNotations.
Open Scope Z_scope.
Ltac Zify.zify_post_hook ::= Z.div_mod_to_equations.

(* u32::from_str_radix(hex, 16) on already validated hex digits *)
Definition value (ds : list Z) : Z := fold_left (fun acc d => acc * 16 + d) ds 0.

Inductive color := Rgb (r g b : Z) | Rgba (r g b a : Z).

(* color.rs parse_hex_color, shifts written as div / masks as mod *)
Definition parse_hex (ds : list Z) : option color :=
  let argb := value ds in
  match length ds with
  | 3%nat => Some (Rgb (((argb / 2^8) mod 16) * 17) (((argb / 2^4) mod 16) * 17) ((argb mod 16) * 17))
  | 4%nat => Some (Rgba (((argb / 2^8) mod 16) * 17) (((argb / 2^4) mod 16) * 17) ((argb mod 16) * 17) (((argb / 2^12) mod 16) * 17))
  | 6%nat => Some (Rgb ((argb / 2^16) mod 256) ((argb / 2^8) mod 256) (argb mod 256))
  | 8%nat => Some (Rgba ((argb / 2^16) mod 256) ((argb / 2^8) mod 256) (argb mod 256) ((argb / 2^24) mod 256))
  | _ => None
  end.

(* Qt: QColor::setNamedColor / qt_get_hex_rgb: #RGB, #ARGB (digits doubled), #RRGGBB, #AARRGGBB *)
Definition dbl (d : Z) := d * 16 + d.
Definition byte (h l : Z) := h * 16 + l.
Definition qt_hex (ds : list Z) : option color :=
  match ds with
  | [r; g; b] => Some (Rgb (dbl r) (dbl g) (dbl b))
  | [a; r; g; b] => Some (Rgba (dbl r) (dbl g) (dbl b) (dbl a))
  | [r1; r0; g1; g0; b1; b0] => Some (Rgb (byte r1 r0) (byte g1 g0) (byte b1 b0))
  | [a1; a0; r1; r0; g1; g0; b1; b0] => Some (Rgba (byte r1 r0) (byte g1 g0) (byte b1 b0) (byte a1 a0))
  | _ => None
  end.

Definition hexdigit (d : Z) := 0 <= d < 16.

Theorem C19_hex : forall ds, Forall hexdigit ds -> parse_hex ds = qt_hex ds.
Proof.
  intros ds H.
  destruct ds as [|d0 [|d1 [|d2 [|d3 [|d4 [|d5 [|d6 [|d7 [|d8 t]]]]]]]]]; try reflexivity.
  - (* 3 *) repeat match goal with H : Forall _ (_ :: _) |- _ => inversion H; subst; clear H end.
    unfold hexdigit in *. unfold parse_hex, qt_hex, value, dbl. cbn [length fold_left].
    f_equal. f_equal; lia.
  - (* 4 *) repeat match goal with H : Forall _ (_ :: _) |- _ => inversion H; subst; clear H end.
    unfold hexdigit in *. unfold parse_hex, qt_hex, value, dbl. cbn [length fold_left].
    f_equal. f_equal; lia.
  - (* 6 *) repeat match goal with H : Forall _ (_ :: _) |- _ => inversion H; subst; clear H end.
    unfold hexdigit in *. unfold parse_hex, qt_hex, value, byte. cbn [length fold_left].
    f_equal. f_equal; lia.
  - (* 8 *) repeat match goal with H : Forall _ (_ :: _) |- _ => inversion H; subst; clear H end.
    unfold hexdigit in *. unfold parse_hex, qt_hex, value, byte. cbn [length fold_left].
    f_equal. f_equal; lia.
Qed.
Print Assumptions C19_hex.

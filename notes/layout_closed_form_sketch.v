(* Design-round calibration sketch for C12_flow (not part of the checked development). *)
From Coq Require Import ZArith List Lia.
Import ListNotations.
Open Scope Z_scope.
Ltac Zify.zify_post_hook ::= Z.div_mod_to_equations.

Inductive flow := LtoR (columns : Z) | TtoB (rows : Z).
Record ctr := { nr : Z; nc : Z }.

Definition step (f : flow) (c : ctr) (row col : option Z) : (Z * Z) * ctr :=
  let c1 :=
    match row, col with
    | Some r, Some k => {| nr := r; nc := k |}
    | Some r, None => {| nr := r; nc := match f with LtoR _ => 0 | TtoB _ => nc c end |}
    | None, Some k => {| nc := k; nr := match f with LtoR _ => nr c | TtoB _ => 0 end |}
    | None, None => c
    end in
  let cur := (nr c1, nc c1) in
  let c2 :=
    match f with
    | LtoR n => let k := (nc c1 + 1) mod n in {| nc := k; nr := nr c1 + (if k =? 0 then 1 else 0) |}
    | TtoB n => let r := (nr c1 + 1) mod n in {| nr := r; nc := nc c1 + (if r =? 0 then 1 else 0) |}
    end in
  (cur, c2).

Fixpoint autos (f : flow) (c : ctr) (n : nat) : list (Z * Z) :=
  match n with O => [] | S n' => let '(p, c') := step f c None None in p :: autos f c' n' end.

(* closed form: the i-th auto-placed child after a cursor (r0,c0) with c0 < columns *)
Definition spec_ltor (cols r0 c0 : Z) (i : Z) : Z * Z := (r0 + (c0 + i) / cols, (c0 + i) mod cols).

Lemma autos_ltor : forall n cols r0 c0, 0 < cols -> 0 <= c0 < cols ->
  autos (LtoR cols) {| nr := r0; nc := c0 |} n =
  map (fun i => spec_ltor cols r0 c0 (Z.of_nat i)) (seq 0 n).
Proof.
  induction n as [|n IH]; intros cols r0 c0 Hc H0; [reflexivity|].
  cbn [autos step nr nc].
  cbn [seq map]. rewrite <- seq_shift, map_map.
  f_equal.
  - unfold spec_ltor. cbn. rewrite Z.add_0_r. f_equal; [rewrite Z.div_small by lia; lia | rewrite Z.mod_small by lia; reflexivity].
  - destruct (Z.eqb_spec ((c0 + 1) mod cols) 0) as [E|E].
    + assert (Hw: c0 + 1 = cols) by (destruct (Z.eq_dec (c0+1) cols) as [e|ne]; [exact e| rewrite Z.mod_small in E by lia; lia]).
      rewrite E. rewrite IH by lia. apply map_ext; intro i. unfold spec_ltor.
      replace (c0 + Z.of_nat (S i)) with ((0 + Z.of_nat i) + 1 * cols) by lia.
      rewrite Z.div_add, Z.mod_add by lia. f_equal. lia.
    + assert (c0 + 1 < cols) by (destruct (Z.eq_dec (c0+1) cols); [subst; rewrite Z.mod_same in E; lia|lia]).
      rewrite Z.mod_small by lia. rewrite IH by lia. apply map_ext; intro i. unfold spec_ltor.
      replace (c0 + 1 + Z.of_nat i) with (c0 + Z.of_nat (S i)) by lia. f_equal. lia.
Qed.
Print Assumptions autos_ltor.

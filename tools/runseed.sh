#!/bin/bash
# usage: tools/runseed.sh <seed dir with patch.diff> <check ids...>
# applies the seeded change to /repo, runs the quick checks, always undoes it.
d=$(realpath $1); shift
cd /verif
git -C /repo apply "$d/patch.diff" || { echo "APPLY FAILED"; exit 2; }
trap 'git -C /repo checkout -- .; git -C /repo status --short' EXIT
for c in "$@"; do
  echo "== $c"; timeout 1500 ./check "$c" --tier quick 2>&1 | grep -E 'VIOLATION|KNOWN|OK|FAIL|Error|error' | tail -8
done

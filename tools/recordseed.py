#!/usr/bin/env python3
# usage: tools/recordseed.py <Cxx_round> <first_try:0|1> <caught_by text> [suite text]
import json,sys
d=sys.argv[1]; p=f'/verif/seeded/{d}/meta.json'; m=json.load(open(p))
m['verif_result']={'first_try':bool(int(sys.argv[2])),'caught_by':sys.argv[3]}
m['confirmed']={'demo_with_change':'rc=1','demo_without_change':'rc=0','suite_with_change':sys.argv[4] if len(sys.argv)>4 else '339 passed, 0 failed',
  'ran':f'tools/confirmseed.sh {d.split("_")[0]} {d.split("_")[1]}; tools/runseed.sh seeded/{d} <checks>'}
json.dump(m,open(p,'w'),indent=1)

#!/usr/bin/env python3
"""Auxiliary (not a registered check): a small mutation campaign against /repo to look for gaps in the checks.
For each random single-token mutant of a source file: build, run the quick checks that own the file; a mutant no check reports is run against the
project's test suite; what survives both is listed for inspection (equivalent mutant, or a gap).  /repo is restored after every mutant."""
import json, os, random, re, subprocess, sys, time

REPO = "/repo"
VERIF = os.path.dirname(os.path.dirname(os.path.abspath(__file__)))
FILES = {
    "lib/src/uigen/layout.rs": ["C12", "C11"], "lib/src/uigen/object.rs": ["C11", "C04", "C14", "C20"], "lib/src/uigen/objcode.rs": ["C04", "C13", "C20", "C14"],
    "lib/src/uigen/binding.rs": ["C16", "C01", "C13", "C02"], "lib/src/tir/builder.rs": ["C06", "C05", "C07", "C01"], "lib/src/tir/core.rs": ["C06", "C05", "C01"],
    "lib/src/tir/ceval.rs": ["C03", "C05"], "lib/src/typedexpr.rs": ["C05", "C06", "C07", "C13"], "lib/src/typeutil.rs": ["C05"], "lib/src/objtree.rs": ["C10", "C11", "C20"],
    "lib/src/qtname.rs": ["C10", "C16", "C13"], "lib/src/color.rs": ["C19"], "lib/src/qmldir.rs": ["C18"], "lib/src/typemap/class.rs": ["C17", "C18"],
    "lib/src/uigen/xmlutil.rs": ["C09"], "lib/src/uigen/expr.rs": ["C03", "C09", "C04"], "lib/src/uigen/gadget.rs": ["C04", "C09", "C08"], "lib/src/uigen/property.rs": ["C04", "C14", "C08"],
    "lib/src/tir/propdep.rs": ["C02", "C16"], "lib/src/tir/interpret.rs": ["C03", "C07"], "lib/src/qmlast/astutil.rs": ["C03", "C07"], "src/main.rs": ["C15"],
}
OPS = [(r"<=", "<"), (r">=", ">"), (r"(?<![<>=!])<(?![<=])", "<="), (r"==", "!="), (r"!=", "=="), (r"&&", "||"), (r"\|\|", "&&"), (r"\+ 1\b", "+ 2"), (r"- 1\b", "- 0"),
       (r"\btrue\b", "false"), (r"\bfalse\b", "true"), (r"\.is_some\(\)", ".is_none()"), (r"\.is_none\(\)", ".is_some()"), (r"\.is_empty\(\)", ".len() == 1"),
       (r"\bcontinue;", "break;"), (r"\.skip\(1\)", ".skip(0)"), (r"\.min\(", ".max("), (r"\.max\(", ".min(")]


def sh(cmd, cwd=None, timeout=3000):
    p = subprocess.run(cmd, cwd=cwd, capture_output=True, text=True, timeout=timeout)
    return p.returncode, p.stdout + p.stderr


def candidates(path):
    src = open(os.path.join(REPO, path)).read().split("\n")
    out = []
    in_tests = False
    for i, line in enumerate(src):
        if "#[cfg(test)]" in line:
            in_tests = True
        if in_tests:
            continue
        code = line.split("//")[0]
        if not code.strip() or code.strip().startswith(("#", "use ", "///")) or "assert" in code or "debug_assert" in code:
            continue
        for k, (pat, rep) in enumerate(OPS):
            for m in re.finditer(pat, code):
                out.append((i, m.start(), m.end(), rep, k))
    return src, out


def main():
    n = int(sys.argv[1]) if len(sys.argv) > 1 else 20
    seed = int(sys.argv[2]) if len(sys.argv) > 2 else 1
    rng = random.Random(seed)
    log = open(os.path.join(VERIF, ".build", "mutants-%d.jsonl" % seed), "a")
    files = list(FILES)
    done = 0
    while done < n:
        path = rng.choice(files)
        src, cands = candidates(path)
        if not cands:
            continue
        i, a, b, rep, k = rng.choice(cands)
        mutated = list(src)
        mutated[i] = src[i][:a] + rep + src[i][b:]
        open(os.path.join(REPO, path), "w").write("\n".join(mutated))
        rec = {"file": path, "line": i + 1, "before": src[i].strip(), "after": mutated[i].strip()}
        try:
            rc, out = sh(["cargo", "build", "--offline", "-q"], cwd=REPO)
            if rc != 0:
                rec["result"] = "does-not-compile"
                continue
            done += 1
            killed = None
            for c in FILES[path]:
                rc, out = sh([os.path.join(VERIF, "check"), c], cwd=VERIF, timeout=2400)
                if rc != 0:
                    killed = c
                    break
            if killed:
                rec["result"] = "reported-by-" + killed
            else:
                rc, out = sh(["cargo", "test", "--offline", "--workspace", "-q"], cwd=REPO)
                rec["result"] = "killed-by-test-suite" if rc != 0 else "SURVIVED"
        finally:
            sh(["git", "checkout", "--", "."], cwd=REPO)
            sh(["bash", "-c", "rm -f %s/replays/*-1-*.json" % VERIF])
            log.write(json.dumps(rec) + "\n")
            log.flush()
            print(rec.get("result"), path, rec["line"], "|", rec["before"][:70], "=>", rec["after"][:70], flush=True)


if __name__ == "__main__":
    main()

#!/usr/bin/env python3
import json, os, sys
V = os.path.dirname(os.path.dirname(os.path.abspath(__file__)))
sys.path.insert(0, V)
from vlib import registry

props = [json.loads(l) for l in open(os.path.join(V, "properties.jsonl"))]
checks = []
na = []
for p in props:
    i = p["id"]
    if i in registry.CHECKS:
        c = registry.CHECKS[i]
        checks.append({
            "property_id": i,
            "quick_cmd": "./check %s --tier quick" % i,
            "thorough_cmd": "./check %s --tier thorough" % i,
            "evidence_file": "/verif/evidence/%s.json" % i,
            "replay_cmd_template": "./check %s --replay {path}" % i,
            "engine": "coq-proof+correspondence",
            "level_claimed": {"category": "proof", "text": c["text"], "design_ref": "DESIGN.md " + c["design_ref"]},
            "level_note": c["note"],
            "technique": c["technique"],
        })
    else:
        na.append({"property_id": i, "reason": registry.NOT_YET.get(i, "check not built yet in this round of work; the design for it is DESIGN.md section 5")})
m = {
    "version": 1,
    "setup_cmd": "./setup",
    "hooks": {
        "guard": "yuja_qmluic_verif",
        "enable": "RUSTFLAGS=\"--cfg yuja_qmluic_verif\" (set by vlib/common.py when it builds /verif/harness against /repo/lib)",
        "baseline_off_cmd": "cd /repo && cargo nextest run --workspace --no-fail-fast --offline || cargo test --workspace --no-fail-fast --offline",
        "source_commits": registry.HOOK_COMMITS if hasattr(registry, "HOOK_COMMITS") else [],
        "add_only": True,
    },
    "engines": [{"name": "coq-proof+correspondence", "path": "/verif/check",
                 "serves_properties": [c["property_id"] for c in checks],
                 "kind_free_text": "Coq 8.16 theorems about hand-written Gallina models (coq/), tied to /repo on every run by a translator for data tables (tools/gen_tables.py) and by differential execution of model (vm_compute) and implementation (harness/)"}],
    "checks": checks,
    "not_applicable": na,
    "notes": "See DESIGN.md. Every check: P (make + pinned statements + Print Assumptions), K (model vs code on generated cases), S (search for a failing input when P or K breaks).",
}
json.dump(m, open(os.path.join(V, "MANIFEST.json"), "w"), indent=1)
print("checks:", len(checks), "not_applicable:", len(na))

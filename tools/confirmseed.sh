#!/bin/bash
# usage: tools/confirmseed.sh <Cxx> <round>   -- confirms a sub-agent's change in its worktree /tmp/seed<round>_<Cxx>, stores it, removes the worktree
p=$1; r=$2; wt=/tmp/seed${r}_$p; out=/verif/seeded/${p}_$r
cd $wt || exit 2
mkdir -p $out; cp -r SEED/. $out/
git diff -- . ':!SEED' > $out/patch.diff
echo "files: $(git diff --stat -- . ':!SEED' | tail -1)"
export CARGO_NET_OFFLINE=true
cargo build --offline -q 2>&1 | tail -3
( bash SEED/demo.sh >/tmp/demo_$p.with 2>&1; echo "demo with change: rc=$?" )
t=$(cargo test --workspace --offline 2>&1 | grep -E '^test result' | awk '{p+=$4; f+=$6} END {print "passed="p" failed="f}'); echo "suite with change: $t"
git apply -R $out/patch.diff && cargo build --offline -q 2>&1 | tail -3
( bash SEED/demo.sh >/tmp/demo_$p.without 2>&1; echo "demo without change: rc=$?" )
cd /; git -C /repo worktree remove --force $wt; echo removed

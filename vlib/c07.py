"""C07 -- Totality: any document yields output or diagnostics, never a crash or hang.

P: props/C07.v -- the constant interpreter terminates on every code body (C07_interp_total); the termination / no-panic
   theorems of the other modelled passes are C17_terminates, C12_grid/C12_box (no negative index), C10_unique (name search).
K: expression layer -- the model's Ok/Err/Panic prediction vs the real tir::build* on generated programs and mutants.
S (search, not proof): documents (the repository's examples and test documents, token-level mutants of them, token soup,
   hand-written corner cases) x the three dynamic-binding modes through the real pipeline under catch_unwind and a time
   limit: no panic, no hang, every diagnostic/label/syntax-error range inside the text on char boundaries, output or at
   least one error; and the CLI on a sample: exit status 0 or 1.
"""
import json
import os
import shutil
import subprocess
import tempfile
from . import common as C
from . import docs, prog, tircheck, qml

TARGETS = ["props/C07.vo"]
PINS = "pins/C07.v"
TRUSTED = ["tree-sitter (C), the CST->AST layer on error-recovery trees, codespan rendering, allocation failure and stack depth are outside any Gallina model: "
           "for those this check is a search (mutation fuzzing), labelled as such",
           "harness `vh uigen` / `vh tir` under catch_unwind; CLI built from /repo's working tree"]

EXTRA = [
    # F3 shape: object reference to an id-less object through an implicit-this method
    "import qmluic.QtWidgets\nQWidget { QMenu { actions: [menuAction()] } }\n",
    "import qmluic.QtWidgets\nQMainWindow { QMenuBar { QMenu { id: m; title: \"M\" } actions: [m.menuAction()] } }\n",
    "import qmluic.QtWidgets\nQWidget { QLabel { buddy: this } }\n",
    "import qmluic.QtWidgets\nQWidget { actions: [this] }\n",
    "import qmluic.QtWidgets\nQWidget { QAction { id: a } QAction { id: b; separator: true } actions: [a, b, a] }\n",
    # F14 / F18 shapes as constant bindings and handlers
    "import qmluic.QtWidgets\nQLabel { text: { switch (1) { default: let y = 2 } } }\n",
    "import qmluic.QtWidgets\nQPushButton { onClicked: { switch (1) { } } }\n",
    "import qmluic.QtWidgets\nQLabel { text: { let x = true ? \"a\" : \"b\"; } }\n",
    "import qmluic.QtWidgets\nQLabel { text: { if (true) { \"a\" } else { \"b\" } let y = 2; } }\n",
    # special value types fed with the wrong shape
    "import qmluic.QtWidgets\nQWidget { cursor: 1 }\n", "import qmluic.QtWidgets\nQWidget { cursor: Qt.ArrowCursor | Qt.WaitCursor }\n",
    "import qmluic.QtWidgets\nQAction { shortcut: 1.5 }\n", "import qmluic.QtWidgets\nQAction { shortcut: QKeySequence.Copy | QKeySequence.Cut }\n",
    "import qmluic.QtWidgets\nQLabel { pixmap: 3 }\n", "import qmluic.QtWidgets\nQWidget { palette.window: 3 }\n",
    "import qmluic.QtWidgets\nQWidget { windowIcon.name: [] }\n", "import qmluic.QtWidgets\nQComboBox { model: [1, 2] }\n",
    "import qmluic.QtWidgets\nQComboBox { model: \"x\" }\n", "import qmluic.QtWidgets\nQListWidget { model: [qsTr(\"a\"), \"b\"] }\n",
    "import qmluic.QtWidgets\nQWidget { font.pointSize: \"big\" }\n", "import qmluic.QtWidgets\nQWidget { sizePolicy.horizontalPolicy: 3 }\n",
    "import qmluic.QtWidgets\nQWidget { geometry.x: 1; geometry: 3 }\n", "import qmluic.QtWidgets\nQGridLayout { }\n",
    "import qmluic.QtWidgets\nQWidget { QGridLayout { columns: 99999999999 } }\n", "import qmluic.QtWidgets\nQWidget { QGridLayout { QLabel { QLayout.row: 99999999999 } } }\n",
    "import qmluic.QtWidgets\nQTabWidget { QWidget { QTabWidget.title: 1 } QLabel { QTabWidget.title: \"x\"; QTabWidget.icon.name: \"y\" } }\n",
    "import qmluic.QtWidgets\nQWidget { QVBoxLayout { contentsMargins: 3 } }\n",
    "import qmluic.QtWidgets\nQWidget { toolTip: \"a\" + 1 }\n", "import qmluic.QtWidgets\nQWidget { enabled: 1 << 64 }\n", "import qmluic.QtWidgets\nQWidget { enabled: 1 / 0 == 0 }\n",
    "import qmluic.QtWidgets\nQWidget { windowTitle: \"\\ud800\" }\n", "import qmluic.QtWidgets\nQWidget { windowTitle: '\\\n' }\n",
    "QWidget {}\n", "import qmluic.QtWidgets\n", "", "import qmluic.QtWidgets\nQWidget { id: 1 }\n", "import qmluic.QtWidgets\nQWidget { id: a; id: b }\n",
    "import qmluic.QtWidgets\nQWidget { property int foo: 1; signal bar(); function baz() {} }\n",
    "import qmluic.QtWidgets as W\nW.QWidget {}\n", "import \"nonexistent\"\nQWidget {}\n", "import qmluic.QtWidgets 1.0\nQWidget {}\n",
]


def judge(ctx, src, mode, r):
    if not isinstance(r, dict):
        ctx.violation("pipeline produced no answer for a document", {"case": src, "mode": mode, "impl_output": r})
        return
    if "panic" in r or "crash" in r:
        ctx.violation("the pipeline panics/crashes in mode %s: %s" % (mode, json.dumps(r)[:300]),
                      {"case": src, "mode": mode, "impl_output": r, "theorem_or_correspondence": "S: catch_unwind around uigen::build + serialisation"})
        return
    if "hang" in r:
        ctx.violation("the pipeline does not terminate within %ss in mode %s" % (r["hang"], mode), {"case": src, "mode": mode, "impl_output": r})
        return
    if r.get("syntax_error"):
        if not r.get("syntax_errors"):
            ctx.violation("document has a syntax error but no syntax error is reported", {"case": src, "mode": mode, "impl_output": r})
        if any(not e["in_range"] for e in r.get("syntax_errors", [])):
            ctx.violation("syntax error range outside the text / not on a char boundary", {"case": src, "mode": mode, "impl_output": r})
        return
    if any(not d["in_range"] for d in r["diags"]):
        ctx.violation("diagnostic or label range outside the text / not on a char boundary", {"case": src, "mode": mode, "impl_output": r})
    if not r["built"] and not any(d["kind"] == "error" for d in r["diags"]):
        ctx.violation("neither output nor an error diagnostic", {"case": src, "mode": mode, "impl_output": r})


def build_cli():
    import fcntl
    td = os.path.join(C.BUILD, "cli")
    with open(os.path.join(C.BUILD, "cli.lock"), "w") as lk:
        fcntl.flock(lk, fcntl.LOCK_EX)
        rc, out = C.sh(["cargo", "build", "--offline", "--bin", "qmluic"], cwd=C.REPO, env={"CARGO_TARGET_DIR": td}, timeout=1500)
    if rc != 0:
        raise C.Broken("cannot build the qmluic CLI from /repo:\n" + out[-3000:])
    return os.path.join(td, "debug", "qmluic")


def run(ctx):
    ctx.proof_leg(TARGETS, PINS, k_targets=tircheck.K_TARGETS)
    rng = ctx.rng
    vh = ctx.need_harness()
    # ---- expression layer: model prediction vs implementation, including panics
    pool = tircheck.Pool(ctx)
    pool.add(tircheck.skeleton_statements(1))
    pool.add_generated(4000 if ctx.tier == "thorough" else 600, mutate_every=2, mutate=0.1, max_depth=4)
    pool.run()
    for i, e in enumerate(pool.expected):
        ctx.count(pool.sources[i], isinstance(e, list) and e[0] == 0)
        if e is None:
            ctx.violation("tir::build* panics/crashes/hangs: %s" % json.dumps(pool.impl[i])[:300],
                          {"case": {"program": pool.programs[i][0]}, "qml": pool.sources[i], "impl_output": pool.impl[i]})
        elif isinstance(e, list):
            for d in pool.impl[i]["diags"]:
                if not d["in_range"]:
                    ctx.violation("diagnostic range outside the binding text", {"case": {"program": pool.programs[i][0]}, "qml": pool.sources[i], "impl_output": d})
    bad = pool.compare_model() if ctx.model_ok else []
    ctx.coverage["disagreements_model"] = len(bad)
    # ---- the same kind of programs with comments at every line boundary (between switch clauses, before `default:`, inside blocks, after the
    # last statement): comments may be refused where the grammar walker does not expect them, they must never shift positions into a panic
    def with_comments(src):
        lines = src.split("\n")
        out = []
        for ln in lines:
            if rng.random() < 0.35:
                out.append(rng.choice(["// note", "/* c */", "/* a\n b */", "// case 9:"]))
            out.append(ln + (rng.choice(["  // t", " /* t */"]) if rng.random() < 0.2 else ""))
        return "\n".join(out)
    if ctx.replay and isinstance(ctx.replay.get("case"), dict) and "tir_source" in ctx.replay["case"]:
        src = ctx.replay["case"]["tir_source"]
        r = C.harness_run(vh, "tir", [{"source": src, "callback": True}], timeout=120)[0]
        if not isinstance(r, dict) or "panic" in r or "crash" in r or "hang" in r:
            ctx.violation("tir::build* panics/crashes/hangs on a program with comments: %s" % json.dumps(r)[:300], {"case": {"tir_source": src}, "qml": src, "impl_output": r})
    cpool = tircheck.Pool(ctx)
    cpool.transform = with_comments
    sk = tircheck.skeleton_statements(2)
    cpool.add([x for x in sk if x[1].startswith("switch")][:: (1 if ctx.tier == "thorough" else 7)])
    cpool.add_generated(1500 if ctx.tier == "thorough" else 200, mutate_every=0, max_depth=4)
    cpool.run()
    for i, e in enumerate(cpool.expected):
        ctx.count(("commented", cpool.sources[i]), isinstance(e, list) and e[0] == 0)
        if e is None:
            ctx.violation("tir::build* panics/crashes/hangs on a program with comments: %s" % json.dumps(cpool.impl[i])[:300],
                          {"case": {"tir_source": cpool.sources[i]}, "qml": cpool.sources[i], "impl_output": cpool.impl[i]})
    ctx.coverage["commented_programs"] = len(cpool.sources)
    # ---- documents
    base = docs.corpus() + EXTRA
    nmut = 25 if ctx.tier == "thorough" else 3
    documents = list(base)
    for d in base:
        for _ in range(nmut):
            documents.append(docs.mutate(rng, d))
    for _ in range(400 if ctx.tier == "thorough" else 60):
        documents.append(docs.soup(rng, rng.randrange(1, 60)))
    # every literal spelling the grammar tokenises (escape forms, backslash + any character), as a binding value and as an import source
    from . import c03
    nlit = 0
    for b, _ in c03.string_bodies(rng, 300 if ctx.tier == "thorough" else 60):
        if "\n" in b or "\r" in b:
            continue
        documents.append('import qmluic.QtWidgets\nQLabel { text: "%s" }\n' % b)
        documents.append("import qmluic.QtWidgets\nQLabel { text: qsTr('%s') + \"%s\" }\n" % (b.replace("'", ""), b))
        nlit += 2
    documents.append('import "\\é"\nQLabel { }\n')
    # binding names of every capitalisation pattern (property / grouped property / attached type / none of these): text, Text, font.bold, Font.Bold, A.B, A.B.C ...
    import itertools
    comps = ["text", "Text", "font", "Font", "bold", "Bold", "QLayout", "row", "Row", "A", "B", "Layout", "Alignment", "QTabWidget", "title", "Qt"]
    names = [[c] for c in comps] + [list(t) for t in itertools.product(comps, repeat=2)]
    names += [["A", "B", "C"], ["QLayout", "Row", "x"], ["font", "Bold", "x"], ["Font", "bold", "Italic"], ["a", "B", "c"], ["A", "b", "C"]]
    if ctx.tier != "thorough":
        names = names[:len(comps)] + rng.sample(names[len(comps):-6], 70) + names[-6:]
    for nm in names:
        dotted = ".".join(nm)
        for val in ("1", '"x"', "{ bold: true }" if len(nm) == 1 else "Qt.AlignRight"):
            documents.append("import qmluic.QtWidgets\nQWidget { QVBoxLayout { QLabel { %s: %s; text: \"t\" } } }\n" % (dotted, val))
    ctx.dist("doc-binding-name-shapes", 3 * len(names))
    ctx.dist("doc-literal-spelling", nlit + 1)
    # strings consumed by the value-type constructors (colours, brushes, key sequences, pixmaps, icons): multi-byte characters at every offset
    # of every accepted length, near-miss keywords
    specials = []
    for n in (3, 4, 6, 8):
        for pos in range(n):
            for ch in "é٠あ😀":
                for width in (1, 2):
                    body = ["a"] * n
                    body[pos:pos + width] = [ch]
                    specials.append("#" + "".join(body))
    specials += ["#", "", "é", "#é", "réd", "red\u0301", "transparenté", "#12345678é", "rgb(1,2,3)", "#٠٠٠", "ｒed", "#aaa\u0000", "\u0000"]
    if ctx.tier != "thorough":
        specials = rng.sample(specials, 60) + specials[-13:]
    for b in specials:
        documents.append('import qmluic.QtWidgets\nQColorDialog { currentColor: "%s" }\n' % b)
        documents.append('import qmluic.QtWidgets\nQWidget { palette.window: "%s"; palette.active.text: "%s" }\n' % (b, b))
        documents.append('import qmluic.QtWidgets\nQWidget { windowIcon.name: "%s"; styleSheet: "%s"; QAction { shortcut: "%s" } QLabel { pixmap: "%s" } }\n' % (b, b, b, b))
    ctx.dist("doc-value-type-strings", 3 * len(specials))
    # constant arithmetic at the edges of the 64-bit range, the extreme values spelled WITHOUT an out-of-range literal (computed: -max - 1, ~max, 1 << 63): every operator on every
    # pair of edge operands, folded on its own and inside an expression that stays dynamic
    edge = ["0", "1", "-1", "2", "63", "64", "-64", "2147483647", "-2147483648", "2147483648", "4294967295", "9223372036854775807", "(-9223372036854775807 - 1)", "~0x7fffffffffffffff",
            "-9223372036854775807", "0x7fffffffffffffff", "(1 << 62)", "(1 << 63)"]
    pairs = [(a, op, b) for a in edge for op in ("+", "-", "*", "/", "%", "<<", ">>", "&", "|", "^", "<", "==") for b in edge]
    must = [(a, op, b) for (a, op, b) in pairs if (a.startswith("(-92") or a.startswith("~") or a == "(1 << 63)") and b in ("-1", "0", "1", "64", "-64") and op in ("/", "%", "*", "-", "<<", ">>")]
    if ctx.tier != "thorough":
        pairs = must + rng.sample(pairs, 120)
    for a, op, b in pairs:
        if rng.random() < 0.5 or (a, op, b) in must:
            documents.append("import qmluic.QtWidgets\nQSpinBox { %s: %s %s %s }\n" % ("enabled" if op in ("<", "==") else "value", a, op, b))
        else:
            documents.append("import qmluic.QtWidgets\nQWidget { QSpinBox { id: other } QSpinBox { %s: other.value %s (%s %s %s) } }\n" % (("enabled", "==", a, op, b) if op in ("<", "==") else ("value", "+", a, op, b)))
    for a in edge:
        for u in ("-", "~", "+", "!"):
            documents.append("import qmluic.QtWidgets\nQSpinBox { value: %s(%s) }\n" % (u, a))
    ctx.dist("doc-constant-arithmetic-edges", len(pairs) + 4 * len(edge))
    # explicit ids that look like the names generated for id-less objects (label, label1, label2 ..., pushButton1), next to id-less objects of the same classes,
    # duplicated ids included: naming the objects terminates whatever is reserved
    from . import c10
    os.environ["VERIF_EXTRA_METATYPES"] = c10.EXTRA
    nid = 0
    for k in range(120 if ctx.tier == "thorough" else 30):
        t = c10.gen_tree(rng, 3, list(c10.ID_POOL), k % 4 == 0)
        c10.flat(t, [])
        documents.append(c10.to_qml(t) + "\n")
        nid += 1
    for ids in (["label1"], ["label", "label1"], ["label2", "label1"], ["label1", "label3", "label2"], ["label9", "label10"], ["label", "label2", "label4"]):
        kids = "".join("    QLabel { }\n" for _ in range(3)) + "".join("    QLabel { id: %s }\n" % i for i in ids) + "    QLabel { }\n"
        documents.append("import qmluic.QtWidgets\nQWidget {\n  QVBoxLayout {\n%s  }\n}\n" % kids)
        documents.append("import qmluic.QtWidgets\nQWidget {\n%s}\n" % kids.replace("QLabel", "QPushButton").replace("label", "pushButton"))
        nid += 2
    ctx.dist("doc-ids-like-generated-names", nid)
    # characters XML cannot carry written RAW in the source (not as an escape), one, two and three bytes long in UTF-8, in every kind of string place: the diagnostic
    # that refuses them has to point at whole characters
    nraw = 0
    for ch in ("\x01", "\x0b", "\x1f", "\ufffe", "\uffff", "\x0c"):
        for tmpl in ('QLabel { text: "a%sb" }', 'QLabel { text: "%s" }', 'QComboBox { model: ["x", "a%sb", "y"] }', 'QWidget { windowTitle: "\u00e9\u00e9%s\u00e9" }', 'QToolButton { icon.name: "n%s" }',
                     'QLabel { text: qsTr("t%s") }', 'QTextBrowser { searchPaths: ["%s"] }', 'QLabel { text: "x" + "%s" }', 'QTabWidget { QWidget { QTabWidget.title: "\U0001f600%s" } }'):
            documents.append("import qmluic.QtWidgets\n" + tmpl % ch + "\n")
            nraw += 1
    ctx.dist("doc-raw-non-xml-characters", nraw)
    # bodies that run no statement at all before they return: a variable declared with a type and no initialiser is the value (or is just there), nested blocks,
    # empty bodies, a return of a declared-only variable in every kind of place
    nun = 0
    for tmpl in ('QLabel { text: { let s: QString; s } }', 'QSpinBox { value: { let n: int; return n } }', 'QLabel { text: { let s: QString; { s } } }', 'QLabel { buddy: { let w: QWidget; w } }',
                 'QCheckBox { checked: { let b: bool; return b } }', 'QDoubleSpinBox { value: { let d: double; d } }', 'QLabel { text: { } }', 'QLabel { text: { { } } }',
                 'QComboBox { model: { let l: QStringList; l } }', 'QLabel { font.family: { let s: QString; s } }', 'QLabel { text: { let s: QString; let t: QString; t } }',
                 'QPushButton { onClicked: { let s: QString; s } }', 'QLabel { text: { let s: QString; return s; return "x" } }', 'QLabel { alignment: { let a: Qt.Alignment; a } }',
                 'QLabel { text: { let u: uint; return "x" } }', 'QLabel { QLayout.row: { let n: int; n } }'):
        documents.append("import qmluic.QtWidgets\nQWidget { QVBoxLayout { " + tmpl + " } }\n")
        nun += 1
    ctx.dist("doc-statement-free-bodies", nun)
    # every place where the translator itself computes with an integer it has read (grid flow counts, cell indices, spans, stretches, minimum sizes, spacing, margins,
    # sizes): zero, one, negative, and the 16-/32-/64-bit edges, with children present so that the arithmetic on the value actually runs (x % columns, index + span, `as usize`)
    nedge = 0
    ivals = ["0", "1", "-1", "2", "65535", "65536", "2147483647", "2147483648", "-2147483648", "4294967295", "4294967296", "9223372036854775807", "(-9223372036854775807 - 1)"]
    kids3 = "QLabel { } QLabel { } QLabel { }"
    for v in ivals:
        for tmpl in ("QWidget { QGridLayout { columns: %s; " + kids3 + " } }", "QWidget { QGridLayout { rows: %s; " + kids3 + " } }",
                     "QWidget { QGridLayout { flow: QGridLayout.TopToBottom; rows: %s; " + kids3 + " } }", "QWidget { QGridLayout { flow: QGridLayout.TopToBottom; columns: %s; " + kids3 + " } }",
                     "QWidget { QGridLayout { rows: %s; columns: 2; " + kids3 + " } }", "QWidget { QFormLayout { QLabel { QLayout.row: %s } QLabel { } QLabel { } } }",
                     "QWidget { QGridLayout { QLabel { QLayout.row: %s } QLabel { } QLabel { QLayout.column: %s } QLabel { } } }",
                     "QWidget { QGridLayout { columns: 2; QLabel { QLayout.columnSpan: %s } QLabel { QLayout.rowSpan: %s } QLabel { } } }",
                     "QWidget { QGridLayout { QLabel { QLayout.row: 1; QLayout.column: 1; QLayout.rowStretch: %s; QLayout.columnMinimumWidth: %s } QLabel { } } }",
                     "QWidget { QVBoxLayout { QLabel { QLayout.rowStretch: %s } QLabel { QLayout.columnStretch: %s } } }",
                     "QWidget { QHBoxLayout { spacing: %s; contentsMargins.left: %s; QLabel { } } }", "QWidget { QVBoxLayout { QSpacerItem { sizeHint.width: %s; sizeHint.height: %s } } }",
                     "QWidget { geometry.x: %s; geometry.width: %s; minimumSize.width: %s }", "QTabWidget { currentIndex: %s; QWidget { } }",
                     "QWidget { QGridLayout { columns: %s; QLabel { QLayout.column: %s } QLabel { } } }"):
            documents.append("import qmluic.QtWidgets\n" + tmpl.replace("%s", v) + "\n")
            nedge += 1
    ctx.dist("doc-integer-places-at-the-edges", nedge)
    if ctx.replay and isinstance(ctx.replay.get("case"), str):
        documents = [ctx.replay["case"]]
    ctx.dist("doc-corpus", len(base)); ctx.dist("doc-mutant", len(base) * nmut); ctx.dist("doc-soup", 400 if ctx.tier == "thorough" else 60)
    os.environ["VERIF_EXTRA_METATYPES"] = c10.EXTRA
    outcomes = {}
    for mode in ("generate", "reject", "omit"):
        res = qml.run_docs(vh, documents, mode=mode, timeout=60)
        for src, r in zip(documents, res):
            judge(ctx, src, mode, r)
            k = ("panic" if isinstance(r, dict) and ("panic" in r or "crash" in r or "hang" in r) else
                 "syntax" if isinstance(r, dict) and r.get("syntax_error") else
                 "built-clean" if r["built"] and not r["diags"] else "built-diag" if r["built"] else "rejected")
            outcomes[k] = outcomes.get(k, 0) + 1
            ctx.count((src, mode), k in ("built-diag", "rejected", "syntax"))
    ctx.coverage["document_outcomes"] = outcomes
    # ---- CLI exit status
    cli = build_cli()
    sample = base[:10] + [documents[i] for i in range(len(base), len(documents), max(1, (len(documents) - len(base)) // 40))]
    td = tempfile.mkdtemp(prefix="verif-c07-")
    codes = {}
    try:
        for i, src in enumerate(sample):
            p = os.path.join(td, "Doc%d.qml" % i)
            with open(p, "w", encoding="utf-8") as f:
                f.write(src)
            for extra in ([], ["--no-dynamic-binding"]):
                try:
                    pr = subprocess.run([cli, "generate-ui", "--foreign-types", os.path.join(C.REPO, "contrib", "metatypes")] + extra + [p],
                                        stdout=subprocess.PIPE, stderr=subprocess.PIPE, timeout=60, cwd=td)
                    rc = pr.returncode
                except subprocess.TimeoutExpired:
                    rc = "hang"
                codes[rc] = codes.get(rc, 0) + 1
                ctx.count(("cli", src, tuple(extra)), rc == 1)
                if rc not in (0, 1):
                    ctx.violation("qmluic generate-ui exits with status %r" % (rc,), {"case": src, "options": extra,
                                  "impl_output": pr.stderr.decode("utf-8", "replace")[-600:] if rc != "hang" else "timeout"})
    finally:
        shutil.rmtree(td, ignore_errors=True)
    ctx.coverage["cli_exit_codes"] = {str(k): v for k, v in codes.items()}
    ctx.sample({"document": documents[len(base) + 1], "mode": "generate"})
    ctx.coverage["rule"] = ("expression programs (generated, 1/2 mutants) through tir::build*; documents = repository examples + inline test documents + hand-written corner "
                            "cases, %d token-level mutants each, token soup, x 3 modes through uigen::build + serialisation; CLI on a sample x {generate, reject}; "
                            "non-trivial = rejected / diagnosed / syntax-error inputs; distinct by (text, mode)" % nmut)
    ctx.coverage["search_not_proof"] = "the document and CLI legs are a search (mutation fuzzing); only the modelled passes carry theorems"
    if bad and not ctx.violations:
        ctx.broke("K", "tir::build* vs model (Ok/Err/Panic prediction)", "model and implementation differ on %d programs; first:\n%s" % (len(bad), pool.describe_mismatch(bad[0])))

"""Running the emitted support header against the API model, and the same programs in model/Sem.v (shared by C01 / C13 / C02)."""
import os
import re
import subprocess
import concurrent.futures
from . import common as C
from . import cxx
from . import prog
from . import qml

NAMES = ["a", "b", "sub", "root", "self"]          # world order; `this` is the object the binding / handler belongs to
THIS = 4
INTS = [-2147483648, -2147483647, -100, -7, -1, 0, 0, 1, 2, 3, 5, 8, 31, 32, 100, 1023, 65536, 2147483646, 2147483647]
UINTS = [0, 0, 1, 2, 5, 31, 32, 100, 65535, 2147483647, 2147483648, 4294967294, 4294967295]
STRS = ["", "a", "hello", "x y", "é", "あ", "b", "hellp"]
import struct
DBL = lambda v: struct.unpack("<Q", struct.pack("<d", v))[0]
NAN = 0x7ff8000000000000
# binary64 bit patterns: zeros of both signs, ordinary values, the extremes, infinities, a NaN
DOUBLES = [DBL(x) for x in (0.0, 0.0, -0.0, 1.0, 1.5, -2.25, 2.5, 100.0, 0.1, 1e308, -1e308, 5e-324, 3000000000.0, -0.75)] + [DBL(float("inf")), DBL(float("-inf")), NAN]


def canon_doubles(text):
    """d:<bits> tokens with any NaN pattern -> d:nan (x86 produces the negative quiet NaN, the model the positive one)"""
    def f(m):
        b = int(m.group(1))
        return "d:nan" if (b & 0x7ff0000000000000) == 0x7ff0000000000000 and (b & 0xfffffffffffff) else m.group(0)
    return re.sub(r"\bd:(\d+)", f, text)
K_TARGETS = ["model/Sem.vo"]
HEADER = """From QV Require Import model.Base model.Lang model.Sem.
Open Scope string_scope.
Definition NAMES := ["a"; "b"; "sub"].
Definition MkO (b : bool) (i u : Z) (s : list N) (n : option nat) (m1 m2 : Z) (d : N) : object := {| o_b := b; o_i := i; o_u := u; o_s := s; o_next := n; o_m1 := m1; o_m2 := m2; o_d := d |}.
Definition W (l : list object) : state := {| objs := l; trace := [] |}.
Definition oname (i : nat) : string := nth i ["a"; "b"; "sub"; "root"; "self"] "?".
Fixpoint hex4s (n : N) (k : nat) : string := match k with O => "" | S k' => hex4s (n / 16) k' ++ String (Ascii.ascii_of_N (let d := (n mod 16)%N in if (d <? 10)%N then 48 + d else 87 + d)%N) "" end.
Definition zs (z : Z) : string := NilEmpty.string_of_int (Z.to_int z).
Fixpoint strhex (s : list N) : string := match s with [] => "" | c :: r => hex4s c 4 ++ strhex r end.
Definition show (v : val) : string :=
  match v with
  | VB b => if b then "b:1" else "b:0" | VI z => "i:" ++ zs z | VU z => "u:" ++ zs z | VL z => "i:" ++ zs z
  | VD d => "d:" ++ NilEmpty.string_of_uint (N.to_uint d)
  | VS s => "s:" ++ (match s with [] => "-" | _ => strhex s end) | VP None => "p:null" | VP (Some i) => "p:" ++ oname i | VNull => "null" | VVoid => "void"
  end.
Fixpoint join (sep : string) (l : list string) : string := match l with [] => "" | [x] => x | x :: r => x ++ sep ++ join sep r end.
Definition show_res (r : res val) : string := match r with Def v => show v | Undef => "UNDEF" | Stuck w => "STUCK " ++ w end.
Definition show_effect (e : effect) : string :=
  match e with
  | ESet o p v => "set " ++ oname o ++ "." ++ p ++ " " ++ show v
  | ECallM o m args => "call " ++ oname o ++ "." ++ m ++ (match args with [] => "" | _ => " " ++ join " " (map show args) end)
  | ELog lv args => "log " ++ lv ++ " " ++ (match args with [] => "-" | _ => join "|" (map show args) end)
  end.
Definition show_obj (o : object) : string :=
  join "," [show (VB (o_b o)); show (VI (o_i o)); show (VU (o_u o)); show (VS (o_s o)); show (VP (o_next o)); show (VI (o_m1 o)); show (VI (o_m2 o)); show (VD (model.Floats.canon (o_d o)))].
Definition show_state (r : res state) : string :=
  match r with Def st => join ";" (map show_effect (rev (trace st))) ++ " # " ++ join " " (map show_obj (objs st)) | Undef => "UNDEF" | Stuck w => "STUCK " ++ w end.
Definition bind_all (target : string) (body : callback) (ws : list state) : list string := map (fun w => show_res (run_binding NAMES 4 w target body)) ws.
Definition handle_all (body : callback) (cases : list (state * list val)) : list string := map (fun '(w, args) => show_state (run_handler NAMES 4 w body args)) cases.
"""


def world(rng):
    objs = []
    for k in range(5):
        objs.append({"b": rng.random() < 0.5, "i": rng.choice(INTS), "u": rng.choice(UINTS), "s": rng.choice(STRS),
                     "next": rng.choice([None, None, 0, 1, 2]), "m1": rng.choice(INTS), "m2": rng.choice(INTS), "d": rng.choice(DOUBLES)})
    return objs


def coq_world(w):
    def o(x):
        return "MkO %s (%d) %d %s %s (%d) (%d) %d%%N" % ("true" if x["b"] else "false", x["i"], x["u"], prog.coq_text(x["s"]), "None" if x["next"] is None else "(Some %d%%nat)" % x["next"],
                                                 x.get("m1", 0), x.get("m2", 0), x.get("d", 0))
    return "(W [%s])" % "; ".join(o(x) for x in w)


def hexs(s):
    return "".join("%04x" % ord(ch) for ch in s) or "-"


def world_line(w):
    return "W " + " ".join("%d %d %d %s %s %d %d %d" % (int(x["b"]), x["i"], x["u"], hexs(x["s"]), "null" if x["next"] is None else NAMES[x["next"]], x.get("m1", 0), x.get("m2", 0), x.get("d", 0)) for x in w)


DRIVER_HEAD = r'''
#define private public
#include "e0api.h"
#include "ui_mytype.h"
#include "uisupport_mytype.h"
#undef private
#include <iostream>
#include <sstream>
static QString unhex(const std::string &h) { QString r; if (h == "-") return r; for (size_t i = 0; i + 3 < h.size(); i += 4) r.d.push_back(char16_t(std::stoul(h.substr(i, 4), nullptr, 16))); return r; }
static std::string dumpObj(VObj *o) { return show(o->b_) + "," + show(o->i_) + "," + show(o->u_) + "," + show(o->s_) + "," + show(static_cast<const QObject *>(o->next_)) + "," + show(o->m1_) + "," + show(o->m2_) + "," + show(o->d_); }
static double undbl(unsigned long long b) { double v; std::memcpy(&v, &b, 8); return v; }
'''


def driver_source(objects, evals, handlers, targets=()):
    """evals: [(function name)], handlers: [(object id, signal name, [arg types])], targets: [(object id, property)] dumped by the T command"""
    lines = [DRIVER_HEAD, "int main() {"]
    for n, c in objects:
        lines.append("    %s %s_obj; %s_obj.objectName_ = \"%s\";" % (c, n, n, n))
    lines.append("    Ui::MyType ui;")
    for n, c in objects:
        if n != "root":
            lines.append("    ui.%s = &%s_obj;" % (n, n))
    lines.append("    UiSupport::MyType s(&root_obj, &ui);")
    lines.append("    VObj *world[4] = {&a_obj, &b_obj, &sub_obj, &root_obj};")
    owners = [n for n, c in objects if re.match(r"[th]\d+$", n)]
    lines.append("    std::vector<VObj *> owners = {%s};" % ", ".join("&%s_obj" % n for n in owners))
    lines.append("    bool is_setup = false;")
    lines.append("    std::string line;")
    lines.append("    while (std::getline(std::cin, line)) {")
    lines.append("        std::istringstream in(line); std::string cmd; in >> cmd;")
    lines.append("        if (cmd == \"W\") { for (int k = 0; k < 5; ++k) { int b; long long i, m1, m2; unsigned long long u, db; std::string sh, nx; in >> b >> i >> u >> sh >> nx >> m1 >> m2 >> db;")
    lines.append("            std::vector<VObj *> targets; if (k < 4) targets.push_back(world[k]); else targets = owners;")
    lines.append("            for (VObj *o : targets) { o->b_ = b; o->i_ = int(i); o->u_ = uint(u); o->s_ = unhex(sh); o->next_ = nx == \"null\" ? nullptr : nx == \"a\" ? world[0] : nx == \"b\" ? world[1] : world[2]; o->m1_ = int(m1); o->m2_ = int(m2); o->d_ = undbl(db); } }")
    lines.append("            trace().lines.clear(); std::cout << \"R ok\" << std::endl; }")
    lines.append("        else if (cmd == \"E\") { int k; in >> k; std::string r; switch (k) {")
    for k, fn in enumerate(evals):
        lines.append("            case %d: r = show(s.%s()); break;" % (k, fn))
    lines.append("            default: r = \"?\"; } std::cout << \"R \" << r << std::endl; }")
    lines.append("        else if (cmd == \"H\") { int k; in >> k; if (!is_setup) { s.setup(); is_setup = true; } trace().lines.clear(); switch (k) {")
    for k, (oid, sig, args) in enumerate(handlers):
        reads = []
        call = []
        for j, t in enumerate(args):
            if t == "int":
                reads.append("long long x%d; in >> x%d;" % (j, j)); call.append("int(x%d)" % j)
            elif t == "bool":
                reads.append("int x%d; in >> x%d;" % (j, j)); call.append("bool(x%d)" % j)
            elif t == "string":
                reads.append("std::string x%d; in >> x%d;" % (j, j)); call.append("unhex(x%d)" % j)
            elif t == "double":
                reads.append("unsigned long long x%d; in >> x%d;" % (j, j)); call.append("undbl(x%d)" % j)
        lines.append("            case %d: { %s %s_obj.%s(%s); break; }" % (k, " ".join(reads), oid, sig, ", ".join(call)))
    lines.append("            default: break; }")
    lines.append("            std::string t; for (size_t q = 0; q < trace().lines.size(); ++q) { if (q) t += \";\"; t += trace().lines[q]; }")
    lines.append("            std::cout << \"R \" << t << \" # \" << dumpObj(world[0]) << \" \" << dumpObj(world[1]) << \" \" << dumpObj(world[2]) << \" \" << dumpObj(world[3]) << \" \" << dumpObj(owners.empty() ? world[3] : owners[k < (int)owners.size() ? k : 0]) << std::endl; }")
    lines.append("        else if (cmd == \"S\") { if (!is_setup) { s.setup(); is_setup = true; } std::cout << \"R ok\" << std::endl; }")
    lines.append("        else if (cmd == \"C\") { int k; std::string p, v; in >> k >> p >> v; VObj *o = world[k];")
    lines.append("            if (p == \"b\") o->setB(v == \"1\"); else if (p == \"i\") o->setI(int(std::stoll(v))); else if (p == \"u\") o->setU(uint(std::stoull(v))); else if (p == \"s\") o->setS(unhex(v)); else if (p == \"m1\") o->setM1(int(std::stoll(v))); else if (p == \"m2\") o->setM2(int(std::stoll(v))); else if (p == \"d\") o->setD(undbl(std::stoull(v)));")
    lines.append("            else if (p == \"next\") o->setNext(v == \"null\" ? nullptr : v == \"a\" ? world[0] : v == \"b\" ? world[1] : world[2]);")
    lines.append("            std::cout << \"R ok\" << std::endl; }")
    lines.append("        else if (cmd == \"T\") { std::string r;")
    for (oid, p) in targets:
        lines.append("            r += show(%s_obj.%s_) + \" \";" % (oid, p) if p != "next" else "            r += show(static_cast<const QObject *>(%s_obj.next_)) + \" \";" % oid)
    lines.append("            std::cout << \"R \" << r << std::endl; }")
    lines.append("    }")
    lines.append("    return 0;")
    lines.append("}")
    return "\n".join(lines) + "\n"


def build(dirpath, objects, header, evals, handlers, sanitize=True, targets=(), defines=()):
    cxx.write_runtime(dirpath, objects)
    open(os.path.join(dirpath, "uisupport_mytype.h"), "w").write(header)
    open(os.path.join(dirpath, "driver.cpp"), "w").write(driver_source(objects, evals, handlers, targets))
    flags = ["-std=c++17", "-O0", "-w", "-I", dirpath] + ["-D" + d for d in defines]
    if sanitize:
        flags += ["-fsanitize=address,undefined", "-fno-sanitize-recover=undefined", "-fno-omit-frame-pointer"]
    pr = subprocess.run(["g++"] + flags + [os.path.join(dirpath, "driver.cpp"), "-o", os.path.join(dirpath, "driver")], capture_output=True, text=True, timeout=600)
    return pr.returncode, pr.stderr


def run_script(dirpath, script_lines, timeout=120):
    """-> (list of result strings, one per command; a crash shows as the remaining results missing, stderr tail)"""
    env = dict(os.environ, ASAN_OPTIONS="detect_leaks=0:abort_on_error=0", UBSAN_OPTIONS="print_stacktrace=0:halt_on_error=1")
    pr = subprocess.run([os.path.join(dirpath, "driver")], input="\n".join(script_lines) + "\n", capture_output=True, text=True, timeout=timeout, env=env)
    res = [re.sub(r"\b([psc][:a-z ]*?)\b[th]\d+\b", lambda m: m.group(0), l[2:]) for l in pr.stdout.split("\n") if l.startswith("R ")]
    res = [canon_doubles(re.sub(r"\b[th]\d+\b", "self", x)) for x in res]
    markers = [l for l in pr.stdout.split("\n") if l.startswith("@@")]
    return res, pr.returncode, (markers + [pr.stderr[-1500:]])


def accepted_singles(vh, items):
    """items: [(kind, property-or-handler, qml source)] -> the uigen result per item (single-binding documents)"""
    docs = [cxx.document([("tgt", n, src)]) if kind == "binding" else cxx.document([], [("a", n, src)]) for kind, n, src in items]
    return qml.run_docs(vh, docs)

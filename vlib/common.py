"""Shared machinery of the checks: P (proof obligations), K (correspondence), S (search), evidence, verdict.

Verdict logic (DESIGN.md section 4):
  * concrete property failure on the real code  -> VIOLATION property=<id> replay=<file>           exit 1
  * proof obligation or correspondence broken, no failing input found
                                                 -> VIOLATION ... replay=<file> no-failing-input-found  exit 1
  * listed known finding reproduced              -> KNOWN-FINDING: property=<id> <what fails>       exit 0
"""
import concurrent.futures
import hashlib
import json
import os
import random
import re
import subprocess
import sys
import time

VERIF = os.path.dirname(os.path.dirname(os.path.abspath(__file__)))
REPO = os.environ.get("VERIF_REPO", "/repo")
BUILD = os.path.join(VERIF, ".build")
COQ = os.path.join(VERIF, "coq")
HOOK_CFG = "yuja_qmluic_verif"
NCPU = 16

FORBIDDEN = re.compile(
    r"\b(Admitted|admit|Axiom|Axioms|Parameter|Parameters|Conjecture|Conjectures|Hypothesis|Hypotheses|Variable|Variables|"
    r"Unset\s+Guard|bypass_check|Admit\s+Obligations|Unset\s+Universe\s+Checking|Unset\s+Positivity|type-in-type|impredicative-set|native_compute)\b")

STD_AXIOM_ALLOW = set()  # the development is meant to be closed under the global context


class Broken(Exception):
    """Infrastructure failure (tool missing, harness build failed): reported as a broken check, never a VIOLATION."""


def sh(cmd, timeout=600, cwd=None, env=None, input=None):
    e = dict(os.environ)
    e["CARGO_NET_OFFLINE"] = "true"
    if env:
        e.update(env)
    try:
        p = subprocess.run(cmd, cwd=cwd, env=e, input=input, stdout=subprocess.PIPE, stderr=subprocess.STDOUT,
                           timeout=timeout, shell=isinstance(cmd, str), text=True, errors="replace")
        return p.returncode, p.stdout
    except subprocess.TimeoutExpired as ex:
        out = ex.stdout or ""
        if isinstance(out, bytes):
            out = out.decode("utf-8", "replace")
        return 124, out + "\n[timeout after %ss]" % timeout


# ------------------------------------------------------------------ Coq side

def gen_tables():
    rc, out = sh([sys.executable, os.path.join(VERIF, "tools", "gen_tables.py")], timeout=60)
    if rc != 0:
        return None, out.strip()
    return json.loads(out.strip().splitlines()[-1]), ""


def coq_makefile():
    mk = os.path.join(COQ, "Makefile")
    cp = os.path.join(COQ, "_CoqProject")
    if not os.path.exists(mk) or os.path.getmtime(mk) < os.path.getmtime(cp):
        rc, out = sh(["coq_makefile", "-f", "_CoqProject", "-o", "Makefile"], cwd=COQ, timeout=60)
        if rc != 0:
            raise Broken("coq_makefile failed: " + out)


def coq_make(targets, timeout=1500):
    """make the given .vo targets (cached). Serialised across concurrent checks by a lock file."""
    import fcntl
    coq_makefile()
    os.makedirs(BUILD, exist_ok=True)
    with open(os.path.join(BUILD, "coq.lock"), "w") as lk:
        fcntl.flock(lk, fcntl.LOCK_EX)
        rc, out = sh(["make", "-j%d" % NCPU] + list(targets), cwd=COQ, timeout=timeout)
    return rc == 0, out


def coqc_scratch(name, text, timeout=600):
    """Compile a scratch file against the built development; returns (rc, stdout)."""
    d = os.path.join(BUILD, "scratch")
    os.makedirs(d, exist_ok=True)
    path = os.path.join(d, name + ".v")
    with open(path, "w") as f:
        f.write(text)
    rc, out = sh(["coqc", "-noglob", "-Q", COQ, "QV", "-w", "-all", path], timeout=timeout, cwd=d)
    for ext in (".vo", ".vok", ".vos", ".glob"):
        try:
            os.remove(os.path.join(d, name + ext))
        except OSError:
            pass
    try:
        os.remove(os.path.join(d, "." + name + ".aux"))
    except OSError:
        pass
    return rc, out


def grep_forbidden(files):
    hits = []
    for rel in files:
        p = os.path.join(COQ, rel)
        try:
            src = open(p, encoding="utf-8").read()
        except FileNotFoundError:
            continue
        src_nc = strip_coq_strings(strip_coq_comments(src))
        # Variable / Hypothesis are allowed inside a Section only (outside they declare an axiom)
        depth = 0
        sect = []
        for ln in src_nc.split("\n"):
            if re.match(r"\s*Section\s+\w+", ln):
                depth += 1
            elif re.match(r"\s*End\s+\w+", ln) and depth > 0:
                depth -= 1
            sect.append(depth)
        for m in FORBIDDEN.finditer(src_nc):
            line = src_nc.count("\n", 0, m.start()) + 1
            if m.group(0) in ("Variable", "Variables", "Hypothesis", "Hypotheses") and sect[line - 1] > 0:
                continue
            hits.append("%s:%d:%s" % (rel, line, m.group(0)))
    return hits


def strip_coq_comments(src):
    out = []
    depth = 0
    i = 0
    instr = False
    while i < len(src):
        if depth == 0 and src[i] == '"':
            instr = not instr
            out.append(src[i]); i += 1
        elif not instr and src.startswith("(*", i):
            depth += 1; i += 2
        elif not instr and depth > 0 and src.startswith("*)", i):
            depth -= 1; i += 2
        else:
            out.append(src[i] if depth == 0 or src[i] == "\n" else " ")
            i += 1
    return "".join(out)


def strip_coq_strings(src):
    return re.sub(r'"(?:[^"]|"")*"', '""', src)


def coq_project_files():
    files = []
    for l in open(os.path.join(COQ, "_CoqProject")):
        l = l.strip()
        if l.endswith(".v"):
            files.append(l)
    return files


def parse_pins(pinfile):
    """pins/<id>.v: `Check name : statement.` entries -> list of theorem names."""
    src = strip_coq_comments(open(os.path.join(COQ, pinfile)).read())
    names = re.findall(r"^\s*Check\s+\(?\s*([A-Za-z_][\w']*)\b", src, re.M)
    out = []
    for n in names:
        if n != "eq_refl" and n not in out:
            out.append(n)
    return out


def run_pins(prop, pinfile, refuted_ok=()):
    """Compile the pinned statements + Print Assumptions for each theorem (never cached).
    Returns dict(theorems, ok, assumptions{name: [axioms]}, log)."""
    names = parse_pins(pinfile)
    text = open(os.path.join(COQ, pinfile)).read()
    text += "\n" + "\n".join('Goal True. idtac "@@PA %s". Abort.\nPrint Assumptions %s.' % (n, n) for n in names) + "\n"
    rc, out = coqc_scratch("pins_" + prop, text, timeout=600)
    assumptions = {}
    cur = None
    for line in out.splitlines():
        m = re.match(r"@@PA (\S+)", line)
        if m:
            cur = m.group(1); assumptions[cur] = []
            continue
        if cur is None:
            continue
        if line.startswith("Closed under the global context") or line.startswith("Axioms:") or not line.strip():
            continue
        m = re.match(r"^([A-Za-z_][\w.']*)\s*:", line)
        if m:
            assumptions[cur].append(m.group(1))
    bad = {n: a for n, a in assumptions.items() if any(x not in STD_AXIOM_ALLOW for x in a)}
    ok = rc == 0 and len(assumptions) == len(names) and not bad
    return {"theorems": names, "ok": ok, "assumptions": assumptions, "bad_axioms": bad, "log": out[-4000:] if rc != 0 else ""}


# ------------------------------------------------------------------ Rust side

def harness_build():
    """(Re)build the harness against /repo's current working tree with the hook cfg on."""
    import fcntl
    os.makedirs(BUILD, exist_ok=True)
    env = {"RUSTFLAGS": "--cfg " + HOOK_CFG, "CARGO_TARGET_DIR": os.path.join(BUILD, "cargo")}
    with open(os.path.join(BUILD, "cargo.lock"), "w") as lk:
        fcntl.flock(lk, fcntl.LOCK_EX)
        lock_src = os.path.join(REPO, "Cargo.lock")
        lock_dst = os.path.join(VERIF, "harness", "Cargo.lock")
        rc, out = sh(["cargo", "build", "--offline", "--bins"], cwd=os.path.join(VERIF, "harness"), env=env, timeout=1500)
    if rc != 0:
        return None, out
    return os.path.join(BUILD, "cargo", "debug", "vh"), out


def harness_run(vh, cmd, cases, timeout=600, shards=NCPU, args=()):
    """Run cases (JSON values) through `vh <cmd>`, sharded; returns list of results in order."""
    if not cases:
        return []
    n = max(1, min(shards, (len(cases) + 199) // 200))
    chunks = [cases[i::n] for i in range(n)]

    def one(chunk):
        res = []
        rest = list(chunk)
        restarts = 0
        while rest:
            inp = "\n".join(json.dumps(c) for c in rest) + "\n"
            p = subprocess.Popen([vh, cmd] + list(args), stdin=subprocess.PIPE, stdout=subprocess.PIPE, stderr=subprocess.PIPE, text=True)
            hung = False
            try:
                so, se = p.communicate(inp, timeout=timeout)
            except subprocess.TimeoutExpired:
                p.kill()
                so, se = p.communicate()
                hung = True
            got = []
            for l in so.split("\n"):      # not splitlines(): U+2028 etc. inside JSON strings are not line ends
                if l.strip():
                    try:
                        got.append(json.loads(l))
                    except ValueError:
                        break
            res.extend(got[:len(rest)])
            if len(got) >= len(rest):
                break
            # the process hung or died (abort, stack overflow) on the first unanswered case
            res.append({"hang": timeout} if hung else {"crash": {"rc": p.returncode, "stderr": se[-500:]}})
            rest = rest[len(got) + 1:]
            restarts += 1
            if restarts >= 2:
                res.extend({"crash": "not-run"} for _ in rest)
                break
        return res

    with concurrent.futures.ThreadPoolExecutor(max_workers=n) as ex:
        rs = list(ex.map(one, chunks))
    out = [None] * len(cases)
    for k, r in enumerate(rs):
        for j, v in enumerate(r):
            out[k + j * n] = v
    return out


# ------------------------------------------------------------------ Coq term printing helpers

def coq_N(n):
    return str(int(n))


def coq_list(items):
    return "[" + "; ".join(items) + "]"


def coq_bytes(b):
    if isinstance(b, str):
        b = b.encode("utf-8")
    return coq_list([str(x) for x in b])


def coq_string(s):
    """ASCII printable only."""
    assert all(32 <= ord(c) < 127 for c in s), repr(s)
    return '"' + s.replace('"', '""') + '"'


def coq_option(x):
    return "None" if x is None else "(Some %s)" % x


def coq_eval_mismatches(name, header, case_terms, eq_fn, model_fn, case_type, shard_size=1000, timeout=900, scope="N_scope"):
    """For each (input_term, expected_term) evaluate `eq_fn (model_fn input) expected` inside Coq (vm_compute)
    and return the indices where it is false.  One coqc per shard, run in parallel."""
    shards = [case_terms[i:i + shard_size] for i in range(0, len(case_terms), shard_size)]

    def one(k):
        body = [header, "Open Scope %s." % scope]
        chunk = 20   # long list literals overflow coqc's stack; build the case list from small chunks
        names = []
        for ci in range(0, len(shards[k]), chunk):
            nm = "cases_%d" % (ci // chunk)
            names.append(nm)
            body.append("Definition %s : list (%s) := [" % (nm, case_type))
            body.append(";\n".join("(%s, %s)" % (a, b) for a, b in shards[k][ci:ci + chunk]))
            body.append("].")
        body.append("Definition cases : list (%s) := List.concat [%s]." % (case_type, "; ".join(names)))
        body.append("Fixpoint mism {A B} (f : A -> B -> bool) (l : list (A * B)) (i : N) : list N :=\n"
                    "  match l with [] => [] | (a, b) :: r => if f a b then mism f r (i + 1)%N else i :: mism f r (i + 1)%N end.")
        body.append("Definition result := mism (fun a b => %s (%s a) b) cases 0%%N." % (eq_fn, model_fn))
        body.append('Goal True. let r := eval vm_compute in result in idtac "@@MISMATCH" r. Abort.')
        rc, out = coqc_scratch("%s_%d" % (name, k), "\n".join(body), timeout=timeout)
        if rc != 0 or "@@MISMATCH" not in out:
            raise Broken("coqc failed on case shard %s_%d:\n%s" % (name, k, out[-3000:]))
        tail = out[out.index("@@MISMATCH") + len("@@MISMATCH"):]
        return [k * shard_size + int(x) for x in re.findall(r"\d+", tail)]

    with concurrent.futures.ThreadPoolExecutor(max_workers=NCPU) as ex:
        parts = list(ex.map(one, range(len(shards))))
    return sorted(i for p in parts for i in p)


def coq_eval_terms(name, header, terms, timeout=600, scope="N_scope"):
    """Evaluate each term with vm_compute and return Coq's printed results (strings), for replay files."""
    body = [header, "Open Scope %s." % scope]
    for i, t in enumerate(terms):
        body.append('Goal True. let r := eval vm_compute in (%s) in idtac "@@R%d" r "@@E". Abort.' % (t, i))
    rc, out = coqc_scratch(name, "\n".join(body), timeout=timeout)
    res = []
    for i in range(len(terms)):
        m = re.search(r"@@R%d\s(.*?)\s@@E" % i, out, re.S)
        res.append(re.sub(r"\s+", " ", m.group(1)) if m else "<coqc failed: %s>" % out[-500:])
    return res


# ------------------------------------------------------------------ check context

class Ctx:
    def __init__(self, prop, tier, seed):
        self.prop = prop
        self.tier = tier
        self.seed = seed
        self.t0 = time.time()
        self.rng = random.Random("%s-%d" % (prop, seed))
        self.violations = []      # concrete: (summary, replay dict)
        self.broken = []          # (leg, name, detail) with no failing input (yet)
        self.known_hits = []      # known-finding lines
        self.coverage = {"evaluations": 0, "distinct_nontrivial": 0, "samples": [], "generator_distribution": {}}
        self.assumptions = []
        self.p = None
        self.model_ok = True
        self.vh = None
        self.known = [k for k in load_known() if k.get("property") == prop]
        self._distinct = set()

    # -- bookkeeping
    def count(self, case_key, nontrivial=True, n=1):
        self.coverage["evaluations"] += n
        if nontrivial:
            h = hashlib.sha1(repr(case_key).encode()).digest()[:8]
            if h not in self._distinct:
                self._distinct.add(h)
                self.coverage["distinct_nontrivial"] += 1

    def dist(self, key, n=1):
        d = self.coverage["generator_distribution"]
        d[key] = d.get(key, 0) + n

    def sample(self, x, limit=8):
        if len(self.coverage["samples"]) < limit:
            self.coverage["samples"].append(x)

    def violation(self, summary, replay):
        self.nviol_total = getattr(self, "nviol_total", 0) + 1
        if len(self.violations) < 5:   # a handful of replay files is enough; the total is kept in the evidence
            self.violations.append((summary, replay))

    def broke(self, leg, name, detail):
        self.broken.append((leg, name, detail))

    def known_finding(self, cls, what):
        line = "KNOWN-FINDING: property=%s %s" % (self.prop, what)
        if line not in self.known_hits:
            self.known_hits.append(line)

    def known_classes(self):
        return {k["class"]: k for k in self.known if "class" in k}

    # -- legs
    def proof_leg(self, targets, pinfile, thorough_coqchk=True, k_targets=()):
        """P: translator, make, forbidden-command grep, pinned statements, Print Assumptions allow-list."""
        p = {"obligations": 0, "discharged": 0, "theorems": [], "axioms": {}, "checker_cmd":
             "python3 tools/gen_tables.py && (cd coq && coq_makefile -f _CoqProject -o Makefile && make %s) && coqc pins/%s.v + Print Assumptions"
             % (" ".join(targets), self.prop)}
        self.p = p
        names = parse_pins(pinfile)
        p["obligations"] = len(names)
        p["theorems"] = names
        stats, err = gen_tables()
        if stats is None:
            self.broke("P", "translator", err)
            # the tables of the lost generator are the committed baseline copies: build the model only, so that the K and S legs can
            # still run it against the implementation and look for a failing input (the tie is reported as broken in any case)
            model_targets = [t for t in self.model_targets(list(targets) + list(k_targets))] + list(k_targets)
            ok2, _ = coq_make(model_targets) if model_targets else (False, "")
            self.model_ok = ok2
            self.coverage["search_mode"] = "translator anchor lost: the model legs ran on the baseline tables (data/gen_baseline) only to look for a failing input"
            return p
        p["translator"] = stats
        ok, log = coq_make(list(targets) + list(k_targets))
        if not ok:
            # which file failed?  try the model files alone so that K can still run
            m = re.findall(r'File "\./([^"]+)", line (\d+)', log)
            self.broke("P", "coq-build:" + (m[-1][0] if m else "?"), log[-3000:])
            model_targets = [t for t in self.model_targets(list(targets) + list(k_targets))] + list(k_targets)
            ok2, _ = coq_make(model_targets) if model_targets else (False, "")
            self.model_ok = ok2
            return p
        hits = grep_forbidden(coq_project_files() + [pinfile])
        if hits:
            self.broke("P", "forbidden-command", "; ".join(hits))
            return p
        r = run_pins(self.prop, pinfile)
        p["axioms"] = r["assumptions"]
        if not r["ok"]:
            self.broke("P", "pins:" + pinfile, (r["log"] or "") + (" axioms outside allow-list: %s" % r["bad_axioms"] if r["bad_axioms"] else ""))
            p["discharged"] = max(0, len([n for n in r["assumptions"] if n not in r["bad_axioms"]]) - (0 if r["log"] == "" else 1))
            return p
        p["discharged"] = len(names)
        if self.tier == "thorough" and thorough_coqchk:
            vo = [t[:-3].replace("/", ".") for t in targets]
            rc, out = sh(["coqchk", "-silent", "-o", "-Q", COQ, "QV"] + ["QV." + v for v in vo], timeout=3000, cwd=COQ)
            p["coqchk"] = out[-1500:]
            if rc != 0:
                self.broke("P", "coqchk", out[-3000:])
        return p

    def model_targets(self, targets):
        # every model/ and gen/ and spec/ file that the targets depend on: ask make's dependency file
        deps = set()
        try:
            dep = open(os.path.join(COQ, ".Makefile.d")).read()
        except OSError:
            return []
        graph = {}
        for line in dep.splitlines():
            if ":" not in line:
                continue
            lhs, rhs = line.split(":", 1)
            for t in lhs.split():
                if t.endswith(".vo"):
                    graph.setdefault(t, set()).update(x for x in rhs.split() if x.endswith(".vo"))
        todo = list(targets)
        while todo:
            t = todo.pop()
            for d in graph.get(t, ()):
                if d not in deps:
                    deps.add(d); todo.append(d)
        return sorted(d for d in deps if d.split("/")[0] in ("model", "gen", "spec"))

    def need_harness(self):
        vh, log = harness_build()
        if vh is None:
            raise Broken("harness build failed (does /repo still compile?):\n" + log[-4000:])
        self.vh = vh
        return vh

    # -- end
    def finish(self, level="proof", trusted_base=(), assumptions=(), extra=None):
        os.makedirs(os.path.join(VERIF, "evidence"), exist_ok=True)
        os.makedirs(os.path.join(VERIF, "replays"), exist_ok=True)
        lines = []
        nviol = 0
        for i, (summary, replay) in enumerate(self.violations):
            path = os.path.join(VERIF, "replays", "%s-%d-%d.json" % (self.prop, self.seed, i))
            replay = dict(replay)
            replay.update({"property": self.prop, "kind": "violation", "summary": summary,
                           "how_to_replay": "./check %s --replay %s" % (self.prop, path)})
            with open(path, "w") as f:
                json.dump(replay, f, indent=1, ensure_ascii=True)
            lines.append("VIOLATION property=%s replay=%s" % (self.prop, path))
            nviol += 1
        if not self.violations and self.broken:
            path = os.path.join(VERIF, "replays", "%s-%d-broken.json" % (self.prop, self.seed))
            with open(path, "w") as f:
                json.dump({"property": self.prop, "kind": "no-failing-input-found",
                           "theorem_or_correspondence": [{"leg": l, "name": n, "detail": d} for l, n, d in self.broken],
                           "how_to_replay": "./check %s --tier %s" % (self.prop, self.tier)}, f, indent=1)
            lines.append("VIOLATION property=%s replay=%s no-failing-input-found" % (self.prop, path))
            nviol += 1
        cov = dict(self.coverage)
        p = self.p or {"obligations": 0, "discharged": 0, "checker_cmd": "n/a", "theorems": []}
        cov["obligations"] = p["obligations"]
        cov["discharged"] = p["discharged"]
        cov["checker_cmd"] = p["checker_cmd"]
        cov["theorems"] = p.get("theorems", [])
        cov["axioms_per_theorem"] = p.get("axioms", {})
        cov["translator"] = p.get("translator", {})
        if "coqchk" in p:
            cov["coqchk_tail"] = p["coqchk"]
        cov["trusted_base"] = list(trusted_base)
        cov["known_findings_replayed"] = self.known_hits
        cov["broken_legs"] = [{"leg": l, "name": n} for l, n, _ in self.broken]
        if extra:
            cov.update(extra)
        ev = {"property_id": self.prop, "tier": self.tier, "seed": self.seed, "level": level, "coverage": cov,
              "assumptions": list(assumptions), "wall_s": round(time.time() - self.t0, 2), "violations": nviol}
        with open(os.path.join(VERIF, "evidence", self.prop + ".json"), "w") as f:
            json.dump(ev, f, indent=1, ensure_ascii=True)
        for l in self.known_hits:
            print(l)
        for l in lines:
            print(l)
        if not lines:
            print("OK property=%s tier=%s evaluations=%d distinct_nontrivial=%d theorems=%d/%d wall=%.1fs" % (
                self.prop, self.tier, cov["evaluations"], cov["distinct_nontrivial"], p["discharged"], p["obligations"], time.time() - self.t0))
        return 1 if lines else 0


def load_known():
    try:
        return json.load(open(os.path.join(VERIF, "known_findings.json")))["findings"]
    except FileNotFoundError:
        return []


COMMON_TRUSTED = [
    "Coq 8.16.1 kernel and vm_compute (no native_compute); coqchk re-check in the thorough tier",
    "no axioms: every pinned theorem must print 'Closed under the global context'",
    "hand-written Gallina model tied to /repo by this run's correspondence check (differential execution, vm_compute inside coqc)",
    "correspondence glue: /verif/harness (Rust), case generators and Coq-term printers in /verif/vlib, tools/gen_tables.py anchors",
]

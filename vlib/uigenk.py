"""Shared by C04 / C08 / C14 / C20: a generator of documents whose every binding is labelled with what the expression layer
makes of it (constant? converts? return type assignable? setter/getter?), the Coq term of the document for model/Uigen.v, and an
observer that reads, per object, what the real outputs contain: the properties in the .ui, the bindings/callbacks of the support
header, and the diagnostics attributed to bindings by their byte range."""
import re
from . import common as C
from . import qml

HEADER = """From QV Require Import model.Base gen.GenUigen model.Uigen.
Open Scope string_scope.
Definition sl_eqb (a b : list string) : bool :=
  (fix go (x y : list string) := match x, y with [], [] => true | p :: r, q :: s => String.eqb p q && go r s | _, _ => false end) a b.
Fixpoint join (sep : string) (l : list string) : string := match l with [] => "" | [x] => x | x :: r => x ++ sep ++ join sep r end.
Definition ssort (l : list string) := sort_by (fun s => s) l.
Definition dclass (k : dkind) : string :=
  match k with DConv | DRetType => "type" | DNotWritable => "notwritable" | DNotReadable => "notreadable"
  | DUnexpectedMap | DUnsupportedGadget | DNotPropertiesMap => "map" | DNestedDynamic => "nested"
  | DUnsupportedDynamic => "nodynamic" | DCallbackNoDynamic => "nocallback" | DUnusedAttached => "unusedattached" end.
Definition dkey (d : diag) : string := d_top d ++ "/" ++ match d_member d with Some m => m | None => "" end ++ "/" ++ dclass (d_kind d).
Definition fkey (observable_empty : string -> bool) (e : fentry) : list string :=
  match f_members e with [] => if observable_empty (f_name e) then [f_name e ++ ":"] else [] | ms => [f_name e ++ ":" ++ join "," (ssort ms)] end.
Definition hkey (b : hbinding) : string := h_name b ++ ":" ++ join "," (ssort (h_members b)).
(* what can be read off the real outputs: header maps without constant member leave no trace; the grid pseudo properties and a
   lone `separator: false` have no element of their own; of the attached bindings only the listed ones are visible per item *)
Definition canon (hidden : list string) (vis_att : list string) (r : result) : list string * list string * list string * list string * bool * list string :=
  (flat_map (fkey (fun n => negb (mem n ("contentsMargins" :: TABLE_VIEW_PSEUDO ++ TREE_VIEW_PSEUDO)%list))) (filter (fun e => negb (mem (f_name e) hidden)) (r_form r)),
   map f_name (filter (fun e => mem (f_name e) vis_att) (r_attached r)),
   map hkey (r_bindings r), r_callbacks r, r_header r, ssort (map dkey (r_diags r))).
Definition res_eqb (a b : list string * list string * list string * list string * bool * list string) : bool :=
  let '(f, at', h, c, hd, d) := a in let '(f', at'', h', c', hd', d') := b in
  sl_eqb f f' && sl_eqb at' at'' && sl_eqb h h' && sl_eqb c c' && Bool.eqb hd hd' && sl_eqb d d'.
Definition HIDDEN := (GRID_PSEUDO ++ ["separator"])%list.
Definition VIS_ATT := ["QLayout.alignment"; "QLayout.rowSpan"; "QLayout.columnSpan"; "QTabWidget.title"; "QTabWidget.toolTip"].
Definition doc_eqb (m : list (list string * list string * list string * list string * bool * list string)) e :=
  (fix go x y := match x, y with [], [] => true | p :: r, q :: s => res_eqb p q && go r s | _, _ => false end) m e.
Definition run_case (c : mode * list obj) := map (canon HIDDEN VIS_ATT) (run_doc (fst c) (snd c)).
"""
K_TARGETS = ["model/Uigen.vo"]
CASE_TYPE = "(mode * list obj) * list (list string * list string * list string * list string * bool * list string)"
HIDDEN = {"flow", "columns", "rows", "separator"}
VIS_ATT = {"QLayout.alignment", "QLayout.rowSpan", "QLayout.columnSpan", "QTabWidget.title", "QTabWidget.toolTip"}
HEADER_MAPS = {"horizontalHeader", "verticalHeader", "header"}

COMMON = [("enabled", "bool", 1, 1), ("toolTip", "str", 1, 1), ("statusTip", "str", 1, 1), ("minimumWidth", "int", 1, 1)]
WIDGETS = {
    "QLabel": [("text", "str", 1, 1), ("wordWrap", "bool", 1, 1), ("indent", "int", 1, 1), ("hasSelectedText", "bool", 0, 1), ("selectedText", "str", 0, 1)],
    "QPushButton": [("text", "str", 1, 1), ("checkable", "bool", 1, 1), ("flat", "bool", 1, 1), ("default_", "bool", 1, 1), ("autoRepeatDelay", "int", 1, 1)],
    "QLineEdit": [("placeholderText", "str", 1, 1), ("readOnly", "bool", 1, 1), ("maxLength", "int", 1, 1), ("displayText", "str", 0, 1)],
    "QCheckBox": [("text", "str", 1, 1), ("tristate", "bool", 1, 1)],
    "QSpinBox": [("minimum", "int", 1, 1), ("maximum", "int", 1, 1), ("prefix", "str", 1, 1), ("cleanText", "str", 0, 1)],
    "QComboBox": [("editable", "bool", 1, 1), ("maxVisibleItems", "int", 1, 1), ("count", "int", 0, 1)],
    "QListWidget": [("sortingEnabled", "bool", 1, 1), ("count", "int", 0, 1)],
    "QTableView": [("showGrid", "bool", 1, 1), ("sortingEnabled", "bool", 1, 1)],
    "QTreeView": [("indentation", "int", 1, 1), ("animated", "bool", 1, 1)],
    "QGroupBox": [("title", "str", 1, 1), ("checkable", "bool", 1, 1)],
    "QFrame": [("lineWidth", "int", 1, 1)],
    "QWidget": [],
}
SIGNALS = {"QPushButton": ["onClicked", "onPressed", "onToggled"], "QCheckBox": ["onToggled", "onClicked"], "QLineEdit": ["onReturnPressed", "onEditingFinished"],
           "QSpinBox": ["onEditingFinished"], "QComboBox": ["onCurrentTextChanged", "onEditTextChanged"], "QAction": ["onTriggered", "onToggled"]}
GADGETS = {   # name -> (top writable, readable, [(member, type, w, r)])
    "font": (1, 1, [("bold", "bool", 1, 1), ("italic", "bool", 1, 1), ("pointSize", "int", 1, 1), ("family", "str", 1, 1), ("underline", "bool", 1, 1)]),
    "geometry": (1, 1, [("x", "int", 0, 0), ("y", "int", 0, 0), ("width", "int", 0, 0), ("height", "int", 0, 0)]),
    "minimumSize": (1, 1, [("width", "int", 0, 0), ("height", "int", 0, 0)]),
}
HEADER_MEMBERS = [("visible", "bool", 1, 1), ("stretchLastSection", "bool", 1, 1), ("defaultSectionSize", "int", 1, 1), ("width", "int", 0, 1)]
LAYOUTS = {"QVBoxLayout": "CtxVBox", "QHBoxLayout": "CtxHBox", "QFormLayout": "CtxForm", "QGridLayout": "CtxGrid"}
LAYOUT_ATTACHED_INT = ["row", "column", "rowSpan", "columnSpan", "rowStretch", "columnStretch", "columnMinimumWidth", "rowMinimumHeight"]
SRC = {"str": "srcS.text", "bool": "srcB.checked", "int": "srcI.value"}
OTHER = {"str": "int", "bool": "str", "int": "str"}
UI_RENAME = {"default_": "default"}


def const_src(rng, ty):
    if ty == "str":
        return '"s%d"' % rng.randrange(100)
    if ty == "bool":
        return rng.choice(["true", "false"])
    if ty == "int":
        return str(rng.choice([1, 2, 3, 5, 8]))
    raise KeyError(ty)


class Gen:
    def __init__(self, rng, p_dyn=0.3, p_bad=0.0, p_handler=0.25, clean=False, wide=False):
        """clean: only bindings the documentation allows (no read-only target, no dynamic member without accessor, attached bindings only where they are consumed)"""
        self.rng, self.p_dyn, self.p_bad, self.p_handler, self.clean = rng, p_dyn, p_bad, p_handler, clean
        self.wide = wide     # every map as large as the catalogue allows (for the determinism check)
        self.n = 0

    def leaf(self, name, ty, w, r, force=None):
        """a scalar binding of a property of type ty: its source text and the outcome of the expression layer"""
        rng = self.rng
        x = rng.random()
        mode = force or ("dyn" if x < self.p_dyn else "const")
        if self.clean and not (w and r):
            mode = "const"
        bad = rng.random() < self.p_bad
        if mode == "const":
            src = const_src(rng, OTHER[ty] if bad else ty)
            return {"name": name, "src": src, "w": w, "r": r, "const": 1, "conv": 0 if bad else 1, "ret": 0 if bad else 1, "what": "const-bad" if bad else "const"}
        src = SRC[OTHER[ty] if bad else ty]
        if rng.random() < 0.3 and not bad:
            src = {"str": src + ' + "!"', "bool": "!" + src, "int": src + " + 1"}[ty]
        return {"name": name, "src": src, "w": w, "r": r, "const": 0, "conv": 1, "ret": 0 if bad else 1, "what": "dyn-bad" if bad else "dyn"}

    def new(self, cls, kind, ctx="CtxOther"):
        self.n += 1
        return {"cls": cls, "kind": kind, "id": "o%d" % self.n, "ctx": ctx, "props": [], "callbacks": [], "attached": [], "children": [], "faults": []}

    def widget_props(self, o):
        rng = self.rng
        cands = list(WIDGETS.get(o["cls"], [])) + COMMON
        if self.clean:
            cands = [c for c in cands if c[2]]
        rng.shuffle(cands)
        for (name, ty, w, r) in cands[:(len(cands) if self.wide else rng.choice([0, 1, 2, 3, 4, 6]))]:
            o["props"].append(dict(self.leaf(name, ty, w, r), kind="expr"))
        for g, (w, r, members) in GADGETS.items():
            if rng.random() < 0.25 or self.wide:
                ms = rng.sample(members, len(members) if self.wide else rng.randrange(1, len(members) + 1))
                o["props"].append({"name": g, "kind": "gadget", "w": w, "r": r, "members": [self.leaf(*m) for m in ms]})
        if rng.random() < 0.15 or self.wide:
            ms = [dict(self.leaf("horizontalPolicy", "str", 1, 1, force="const"), src="QSizePolicy.Expanding", conv=1, ret=1, const=1, what="const"),
                  dict(self.leaf("verticalPolicy", "str", 1, 1, force="const"), src="QSizePolicy.Fixed", conv=1, ret=1, const=1, what="const")]
            if rng.random() < 0.5:
                ms.append(self.leaf("horizontalStretch", "int", 1, 1))
            o["props"].append({"name": "sizePolicy", "kind": "gadget", "w": 1, "r": 1, "members": ms})
        hdrs = {"QTableView": ["horizontalHeader", "verticalHeader"], "QTreeView": ["header"]}.get(o["cls"], [])
        for h in hdrs:
            if rng.random() < 0.5:
                ms = rng.sample([m for m in HEADER_MEMBERS if m[2] or not self.clean], rng.randrange(1, 4))
                o["props"].append({"name": h, "kind": "objmap", "w": 0, "r": 0, "members": [self.leaf(*m, force="const" if self.clean else None) for m in ms]})
        if o["cls"] in (("QComboBox", "QListWidget") if self.clean else ("QComboBox", "QListWidget", "QTableView")) and rng.random() < 0.5:
            unv = o["cls"] == "QTableView"
            o["props"].append({"name": "model", "kind": "expr", "src": '["a", "b"]', "w": 0, "r": 0, "const": 1, "conv": 1, "ret": 0 if unv else 1, "what": "pseudo"})
        for s in SIGNALS.get(o["cls"], []):
            if rng.random() < self.p_handler or self.wide:
                o["callbacks"].append({"name": s, "src": rng.choice(["srcS.clear()", "{ srcB.toggle(); srcS.clear() }", 'console.log("x")', "srcI.value = Math.max(srcI.value, 3)"])})

    def attach(self, o, parent_cls):
        rng = self.rng
        ms = []
        if parent_cls in LAYOUTS and rng.random() < 0.45:
            pool = LAYOUT_ATTACHED_INT
            if self.clean:
                pool = ["rowSpan", "columnSpan"] + {"QVBoxLayout": ["rowStretch"], "QHBoxLayout": ["columnStretch"], "QFormLayout": ["row", "column"],
                                                    "QGridLayout": ["row", "column", "rowStretch", "columnStretch", "columnMinimumWidth", "rowMinimumHeight"]}[parent_cls]
            for name in rng.sample(pool, rng.choice([1, 1, 2, 3])):
                lf = self.leaf(name, "int", 0, 0)
                if lf["const"] and lf["conv"]:
                    lf["src"] = {"row": "1", "column": "0", "rowSpan": "2", "columnSpan": "1"}.get(name, "1")
                ms.append(lf)
            if rng.random() < 0.2:
                ms.append({"name": "alignment", "src": "Qt.AlignLeft", "w": 0, "r": 0, "const": 1, "conv": 1, "ret": 1, "what": "const"})
        elif parent_cls not in LAYOUTS and rng.random() < 0.08 and not self.clean:
            ms.append(dict(self.leaf("row", "int", 0, 0, force="const")))
        if ms:
            o["attached"].append(("ALayout", ms))
        if parent_cls == "QTabWidget" and rng.random() < 0.8:
            o["attached"].append(("ATab", [self.leaf(n, "str", 0, 0) for n in rng.sample(["title", "toolTip"], rng.choice([1, 2]))]))

    def widget(self, d, parent_cls):
        rng = self.rng
        ctx = LAYOUTS.get(parent_cls, "CtxTab" if parent_cls == "QTabWidget" else "CtxOther")
        if d < 2 and rng.random() < 0.3:
            cls = rng.choice(["QGroupBox", "QFrame", "QWidget", "QTabWidget"])
            o = self.new(cls, "widget", ctx)
            if cls == "QTabWidget":
                for _ in range(rng.randrange(1, 3)):
                    o["children"].append(self.widget(d + 1, "QTabWidget"))
            elif rng.random() < 0.7:
                o["children"].append(self.layout(d + 1, cls))
            else:
                for _ in range(rng.randrange(0, 3)):
                    o["children"].append(self.widget(d + 1, cls))
                if rng.random() < 0.4:
                    o["children"] += self.actions(o)
        else:
            o = self.new(rng.choice([c for c in WIDGETS if c not in ("QGroupBox", "QFrame", "QWidget")]), "widget", ctx)
        self.widget_props(o)
        self.attach(o, parent_cls)
        return o

    def actions(self, parent):
        rng = self.rng
        out = []
        for _ in range(rng.randrange(1, 3)):
            a = self.new("QAction", "action")
            k = rng.random()
            if k < 0.25:
                a["props"].append({"name": "separator", "kind": "expr", "src": rng.choice(["true", "false"]), "w": 1, "r": 1, "const": 1, "conv": 1, "ret": 1, "what": "separator"})
            else:
                for (name, ty) in rng.sample([("text", "str"), ("checkable", "bool"), ("toolTip", "str"), ("enabled", "bool")], rng.randrange(1, 4)):
                    a["props"].append(dict(self.leaf(name, ty, 1, 1), kind="expr"))
                if k < 0.45:
                    a["props"].append({"name": "separator", "kind": "expr", "src": "true", "w": 1, "r": 1, "const": 1, "conv": 1, "ret": 1, "what": "near-separator"})
                for s in SIGNALS["QAction"]:
                    if rng.random() < self.p_handler:
                        a["callbacks"].append({"name": s, "src": "srcS.clear()"})
            out.append(a)
        ids = [a["id"] for a in out if not (len(a["props"]) == 1 and a["props"][0]["name"] == "separator" and not a["callbacks"])]
        if len(ids) == len(out):
            # the explicit list would equal the implicit one (all action children in order): written in another order, or not at all,
            # so that whether the binding took effect can be seen in the .ui
            ids = list(reversed(ids)) if len(ids) >= 2 else []
        if ids and rng.random() < 0.4:
            parent["props"].append({"name": "actions", "kind": "expr", "src": "[%s]" % ", ".join(ids), "w": 0, "r": 0, "const": 1, "conv": 1, "ret": 1, "what": "pseudo",
                                    "action_ids": ids})
        return out

    def layout(self, d, parent_cls):
        rng = self.rng
        cls = rng.choice(list(LAYOUTS))
        o = self.new(cls, "layout", LAYOUTS.get(parent_cls, "CtxOther"))
        if rng.random() < 0.3:
            o["props"].append(dict(self.leaf("spacing", "int", 1, 1), kind="expr"))
        if rng.random() < 0.2:
            ms = rng.sample([("left", "int", 0, 0), ("top", "int", 0, 0), ("right", "int", 0, 0), ("bottom", "int", 0, 0)], rng.randrange(1, 4))
            o["props"].append({"name": "contentsMargins", "kind": "gadget", "w": 1, "r": 1, "members": [self.leaf(*m) for m in ms]})
        if cls == "QGridLayout":
            if rng.random() < 0.6:
                lf = self.leaf("columns", "int", 0, 0, force="const" if self.clean else None)
                if lf["const"] and lf["conv"]:
                    lf["src"] = "3"
                o["props"].append(dict(lf, kind="expr"))
            if rng.random() < 0.15:
                o["props"].append({"name": "flow", "kind": "expr", "src": "QGridLayout.LeftToRight", "w": 0, "r": 0, "const": 1, "conv": 1, "ret": 1, "what": "pseudo"})
        for _ in range(rng.randrange(1, 5)):
            x = rng.random()
            if x < 0.1 and d < 3:
                c = self.layout(d + 1, cls)
            elif x < 0.2:
                c = self.new("QSpacerItem", "spacer", LAYOUTS[cls])
                if rng.random() < 0.5:
                    if not self.clean and rng.random() < 0.35:
                        # a dynamic binding on a spacer property: spacers have no accessors, so it must be diagnosed in every mode that looks at it
                        c["props"].append({"name": "orientation", "kind": "expr", "src": "srcB.checked ? Qt.Horizontal : Qt.Vertical", "w": 0, "r": 0, "const": 0, "conv": 1, "ret": 1, "what": "dyn"})
                    else:
                        c["props"].append({"name": "orientation", "kind": "expr", "src": "Qt.Vertical", "w": 0, "r": 0, "const": 1, "conv": 1, "ret": 1, "what": "const"})
                if rng.random() < 0.3:
                    c["props"].append({"name": "sizeHint", "kind": "gadget", "w": 0, "r": 0, "members": [self.leaf("width", "int", 0, 0, force="const" if (self.clean or rng.random() < 0.6) else "dyn"),
                                                                                                     self.leaf("height", "int", 0, 0, force="const")]})
            else:
                c = self.widget(d + 1, cls)
            if c["kind"] != "widget":
                self.attach(c, cls)
            o["children"].append(c)
        return o

    def document(self):
        self.n = 0
        rng = self.rng
        root = self.new(rng.choice(["QWidget", "QDialog", "QGroupBox"]), "widget")
        root["id"] = "root"
        lay = self.new("QVBoxLayout", "layout")
        for cls, i in (("QLineEdit", "srcS"), ("QCheckBox", "srcB"), ("QSpinBox", "srcI")):
            s = self.new(cls, "widget", "CtxVBox")
            s["id"] = i
            lay["children"].append(s)
        for _ in range(rng.randrange(1, 4)):
            lay["children"].append(self.widget(1, "QVBoxLayout"))
        if rng.random() < 0.3:
            lay["children"].append(self.layout(1, "QVBoxLayout"))
        root["children"].append(lay)
        if rng.random() < 0.5:
            root["children"] += self.actions(root)
        self.widget_props(root)
        return root


def walk(o):
    yield o
    for c in o["children"]:
        yield from walk(c)


def post(o):
    for c in o["children"]:
        yield from post(c)
    yield o


def render(root):
    """QML text; records for every binding (and member) the byte range of its text"""
    out = ["import qmluic.QtWidgets\n"]
    pos = [len(out[0])]

    def put(s):
        out.append(s)
        pos[0] += len(s.encode("utf-8"))

    def line(ind, text, rec):
        put(ind)
        rec["range"] = (pos[0], pos[0] + len(text.encode("utf-8")))
        put(text + "\n")

    def emit(o, ind):
        o["start"] = pos[0] + len(ind)
        put("%s%s {\n" % (ind, o["cls"]))
        i2 = ind + "    "
        if o["id"]:
            put("%sid: %s\n" % (i2, o["id"]))
        for b in o["props"]:
            if b["kind"] == "expr":
                line(i2, "%s: %s" % (b["name"], b["src"]), b)
            else:
                put(i2)
                s = pos[0]
                put("%s {\n" % b["name"])
                for m in b["members"]:
                    line(i2 + "    ", "%s: %s" % (m["name"], m["src"]), m)
                put(i2 + "}")
                b["range"] = (s, pos[0])
                put("\n")
        for c in o["callbacks"]:
            line(i2, "%s: %s" % (c["name"], c["src"]), c)
        for (acls, ms) in o["attached"]:
            pre = {"ALayout": "QLayout", "ATab": "QTabWidget"}[acls]
            for m in ms:
                line(i2, "%s.%s: %s" % (pre, m["name"], m["src"]), m)
        for f in o["faults"]:
            line(i2, f["text"], f)
        for c in o["children"]:
            emit(c, i2)
        put("%s}\n" % ind)
        o["end"] = pos[0]
    emit(root, "")
    return "".join(out)


def coq_bool(b):
    return "true" if b else "false"


def coq_leaf(m):
    return '{| l_name := "%s"; l_writable := %s; l_readable := %s; l_const := %s; l_conv_ok := %s; l_ret_ok := %s |}' % (
        m["name"], coq_bool(m["w"]), coq_bool(m["r"]), coq_bool(m["const"]), coq_bool(m["conv"]), coq_bool(m["ret"]))


def coq_obj(o):
    if o["kind"] == "widget":
        k = "(OWidget %s %s %s)" % (coq_bool(o["cls"] in ("QComboBox", "QListWidget")), coq_bool(o["cls"] == "QTableView"), coq_bool(o["cls"] == "QTreeView"))
    elif o["kind"] == "action":
        k = "OAction"
    elif o["kind"] == "layout":
        k = "(OLayout %s)" % coq_bool(o["cls"] == "QGridLayout")
    else:
        k = "OSpacer"
    ps = []
    for b in o["props"]:
        if b["kind"] == "expr":
            ps.append("(PExpr %s)" % coq_leaf(b))
        elif b["kind"] == "gadget":
            ps.append('(PGadget "%s" %s %s GSupported %s)' % (b["name"], coq_bool(b["w"]), coq_bool(b["r"]), C.coq_list([coq_leaf(m) for m in b["members"]])))
        else:
            ps.append('(PObjMap "%s" %s %s %s)' % (b["name"], coq_bool(b["w"]), coq_bool(b["r"]), C.coq_list([coq_leaf(m) for m in b["members"]])))
    att = ["(%s, %s)" % (a, C.coq_list([coq_leaf(m) for m in ms])) for a, ms in o["attached"]]
    return "{| o_kind := %s; o_ctx := %s; o_props := %s; o_callbacks := %s; o_attached := %s |}" % (
        k, o["ctx"], C.coq_list(ps), C.coq_list(['"%s"' % signal_name(c["name"]) for c in o["callbacks"]]), C.coq_list(att))


def signal_name(handler):
    s = handler[2:]
    return s[0].lower() + s[1:]


def cap(s):
    return s[0].upper() + s[1:] if s else s


DIAG_CLASS = [
    (re.compile(r"^expression type mismatch|^negative |is too large$|^unexpected value type|^incompatible|cannot be represented|^must be a static|^cannot mix|^mismatched with the value"), "type"),
    (re.compile(r"^not a writable property$"), "notwritable"),
    (re.compile(r"^not a readable property$"), "notreadable"),
    (re.compile(r"^unsupported gadget type|^not a properties map|^unexpected value type: Q"), "map"),
    (re.compile(r"^nested dynamic binding is not supported$"), "nested"),
    (re.compile(r"^unsupported dynamic binding$"), "nodynamic"),
    (re.compile(r"^signal callback cannot be translated without dynamic binding$"), "nocallback"),
    (re.compile(r"^unused or unsupported dynamic binding to attached property$"), "unusedattached"),
]


def classify(msg):
    for rx, c in DIAG_CLASS:
        if rx.search(msg):
            return c
    return "other:" + msg


def observe(root, res):
    """per object (post-order = the flat vector): (form keys, attached names, header keys, callbacks, header?, diag keys); plus unattributed diagnostics"""
    ui = qml.parse_ui(res["ui"]) if res.get("ui") else None
    header = res.get("header")
    els = {}
    items = {}
    parents = {}
    if ui is not None:
        for el in ui.iter():
            for ch in el:
                parents[ch] = el
            if el.tag in ("widget", "layout", "spacer", "action") and el.get("name"):
                els[el.get("name")] = el
    # diagnostics: innermost binding/member range containing the diagnostic
    ranges = []
    for o in walk(root):
        for b in o["props"]:
            ranges.append((b["range"], o["id"], b["name"], None))
            for m in b.get("members", []):
                ranges.append((m["range"], o["id"], b["name"], m["name"]))
        for c in o["callbacks"]:
            ranges.append((c["range"], o["id"], "@" + c["name"], None))
        for (acls, ms) in o["attached"]:
            for m in ms:
                ranges.append((m["range"], o["id"], {"ALayout": "QLayout.", "ATab": "QTabWidget."}[acls] + m["name"], None))
        for f in o["faults"]:
            ranges.append((f["range"], o["id"], "!" + f["key"], None))
    per = {}
    loose = []
    for d in res["diags"]:
        best = None
        for (s, e), oid, top, mem in ranges:
            if s <= d["start"] and d["end"] <= e:
                if best is None or (e - s) < (best[0][1] - best[0][0]):
                    best = ((s, e), oid, top, mem)
        if best is None:
            loose.append(d)
        else:
            per.setdefault(best[1], []).append((best[2], best[3], classify(d["msg"]), d["msg"]))
    out = []
    for o in post(root):
        el = els.get(o["id"])
        form, att, hdr, cbs = [], [], [], []
        if el is not None:
            pnames = [p.get("name") for p in el.findall("property")]
            anames = [p.get("name") for p in el.findall("attribute")]
            for b in o["props"]:
                n = b["name"]
                if n in HIDDEN:
                    continue
                uin = UI_RENAME.get(n, n)
                if b["kind"] == "expr":
                    if n == "actions":
                        got = [a.get("name") for a in el.findall("addaction")]
                        if got == b.get("action_ids"):
                            form.append("actions:")
                    elif n == "model":
                        if [c for c in el.findall("item")]:
                            form.append("model:")
                    elif uin in pnames:
                        form.append(n + ":")
                elif b["kind"] == "gadget":
                    if n == "contentsMargins":
                        ms = [m["name"] for m in b["members"] if (m["name"] + "Margin") in pnames]
                        # the entry itself leaves no trace without a constant member (the canonical form drops it on the model side too)
                        if ms:
                            form.append(n + ":" + ",".join(sorted(ms)))
                    elif uin in pnames:
                        pe = [p for p in el.findall("property") if p.get("name") == uin][0]
                        g = pe[0]
                        ms = []
                        for m in b["members"]:
                            mn = m["name"]
                            if n == "sizePolicy" and mn in ("horizontalPolicy", "verticalPolicy"):
                                if g.get({"horizontalPolicy": "hsizetype", "verticalPolicy": "vsizetype"}[mn]) is not None:
                                    ms.append(mn)
                            elif n == "sizePolicy":
                                if g.find({"horizontalStretch": "horstretch", "verticalStretch": "verstretch"}[mn]) is not None:
                                    ms.append(mn)
                            elif g.find(mn.lower()) is not None:
                                ms.append(mn)
                        form.append(n + ":" + ",".join(sorted(ms)))
                else:
                    ms = [m["name"] for m in b["members"] if (n + cap(m["name"])) in anames]
                    if ms:
                        form.append(n + ":" + ",".join(sorted(ms)))
            item = parents.get(el)
            for (acls, ms) in o["attached"]:
                for m in ms:
                    full = {"ALayout": "QLayout.", "ATab": "QTabWidget."}[acls] + m["name"]
                    if full not in VIS_ATT:
                        continue
                    if acls == "ATab":
                        if m["name"] in anames:
                            att.append(full)
                    elif item is not None and item.tag == "item":
                        a = {"alignment": "alignment", "rowSpan": "rowspan", "columnSpan": "colspan"}[m["name"]]
                        if item.get(a) is not None:
                            att.append(full)
        if header:
            N = cap(o["id"])
            for b in o["props"]:
                P = cap(b["name"])
                if re.search(r"\bvoid update%s%s\(\)" % (N, P), header):
                    ms = []
                    if b["kind"] != "expr":
                        m = re.search(r"\beval%s%s\(\w+ a\)\n\s*\{(.*?)\n\s*\}" % (N, P), header, re.S)
                        if m:
                            ms = [x[0].lower() + x[1:] for x in re.findall(r"this->eval%s%s(\w+)\(" % (N, P), m.group(1))]
                    hdr.append(b["name"] + ":" + ",".join(sorted(ms)))
            for c in o["callbacks"]:
                if re.search(r"\bvoid on%s%s\(" % (N, cap(signal_name(c["name"]))), header):
                    cbs.append(signal_name(c["name"]))
        ds = sorted("%s/%s/%s" % (top, mem or "", cl) for (top, mem, cl, _) in per.get(o["id"], []) if not top.startswith("!") and not top.startswith("@"))
        cb_ds = [(top, cl, msg) for (top, mem, cl, msg) in per.get(o["id"], []) if top.startswith("@")]
        ds += sorted("%s//%s" % (signal_name(top[1:]), cl) for (top, cl, _) in cb_ds)
        ds.sort()
        out.append({"form": sorted(form), "att": sorted(att), "hdr": sorted(hdr), "cbs": sorted(cbs), "header": bool(header), "diags": ds,
                    "fault_diags": [(top[1:], cl, msg) for (top, mem, cl, msg) in per.get(o["id"], []) if top.startswith("!")]})
    return out, loose


def coq_expected(obs):
    def sl(xs):
        return C.coq_list(['"%s"' % x for x in xs])
    return C.coq_list(["(%s, %s, %s, %s, %s, %s)" % (sl(o["form"]), sl(o["att"]), sl(o["hdr"]), sl(o["cbs"]), coq_bool(o["header"]), sl(o["diags"])) for o in obs])


def coq_case(mode, root):
    return "(%s, %s)" % ({"generate": "Generate", "reject": "Reject", "omit": "Omit"}[mode], C.coq_list([coq_obj(o) for o in post(root)]))


FAULTS = ["unknown-property", "unknown-signal", "unknown-attached-property", "unknown-attached-type", "duplicate", "map-on-scalar", "callback-map",
          "duplicate-attached", "callback-parameter", "callback-too-many", "ill-typed"]


def plant_fault(rng, root):
    """adds one faulty binding (not part of the model's input) to a random object; returns (object, kind)"""
    objs = [o for o in walk(root) if o["kind"] in ("widget", "action", "layout")]
    o = rng.choice(objs)
    kind = rng.choice(FAULTS)
    if kind == "unknown-property":
        o["faults"].append({"key": kind, "text": "fooBar: %s" % rng.choice(["1", '"x"', "srcS.text"])})
    elif kind == "unknown-signal":
        o["faults"].append({"key": kind, "text": "onFooBar: srcS.clear()"})
    elif kind == "unknown-attached-property":
        o["faults"].append({"key": kind, "text": "QLayout.fooBar: 1"})
    elif kind == "unknown-attached-type":
        o["faults"].append({"key": kind, "text": "QFooBar.row: 1"})
    elif kind == "duplicate":
        o["faults"].append({"key": "duplicate-first", "text": 'whatsThis: "a"' if o["kind"] != "layout" else "objectName: \"a\""})
        o["faults"].append({"key": kind, "text": 'whatsThis: "b"' if o["kind"] != "layout" else "objectName: \"b\""})
    elif kind == "map-on-scalar":
        o["faults"].append({"key": kind, "text": "objectName { x: 1 }"})
    elif kind == "duplicate-attached":
        o["faults"].append({"key": "duplicate-first", "text": "QLayout.rowMinimumHeight: 1"})
        o["faults"].append({"key": kind, "text": "QLayout.rowMinimumHeight: 2"})
    elif kind == "callback-parameter":
        o["faults"].append({"key": kind, "text": "onObjectNameChanged: function(x: int) { srcS.clear() }"})       # objectNameChanged(QString)
    elif kind == "callback-too-many":
        o["faults"].append({"key": kind, "text": "onObjectNameChanged: function(x: QString, y: int) { srcS.clear() }"})
    elif kind == "ill-typed":
        o["faults"].append({"key": kind, "text": "objectName: 1 + 2"})
    else:
        o["faults"].append({"key": kind, "text": "onObjectNameChanged { x: 1 }"})
    return o, kind

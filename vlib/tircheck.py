"""Shared K leg of the expression-layer properties (C01 C02 C03 C05 C06 C07 C13): programs -> real tir::build* (harness
`vh tir`) vs model/TirCase.v (vm_compute), token stream equality."""
import json
import re
from . import common as C
from . import prog, tirtok, e0

K_TARGETS = ["model/TirCase.vo", "gen/GenE0.vo"]
HEADER = ("From QV Require Import model.Base model.Lang model.Types model.Tir model.Builder model.Passes model.TirCase gen.GenE0.\n"
          "Fixpoint zl_eqb (a b : list Z) : bool := match a, b with [] , [] => true | x :: r, y :: s => Z.eqb x y && zl_eqb r s | _, _ => false end.")

DYN = {"bool": ("member", ("ident", "a"), "b"), "int": ("member", ("ident", "a"), "i"), "uint": ("member", ("ident", "a"), "u"),
       "double": ("member", ("ident", "a"), "d"), "string": ("member", ("ident", "a"), "s"), "mode": ("member", ("ident", "a"), "e"),
       "opts": ("member", ("ident", "a"), "f"), "level": ("member", ("ident", "a"), "lv"), "vobj": ("member", ("ident", "a"), "next"),
       "vsub": ("ident", "sub"), "vother": ("ident", "oth"), "qobject": ("ident", "plain"), "strlist": ("member", ("ident", "a"), "names"),
       "intlist": ("member", ("ident", "a"), "nums"), "variant": ("member", ("ident", "a"), "data"), "gadget": ("member", ("ident", "a"), "g"),
       "void": ("call", ("member", ("ident", "a"), "act"), [("int", 1)]),
       "omode": ("member", ("ident", "oth"), "e")}     # VOther::Mode: another enum type with the unqualified name of VObj::Mode
CONST = {"cbool": ("bool", True), "cint": ("int", 3), "cint0": ("int", 0), "cbig": ("int", 4294967296), "cdouble": ("float", "1.5"),
         "cstring": ("str", "s"), "cnull": ("null",), "cempty": ("array", []), "cmode": ("member", ("ident", "VObj"), "ModeB"),
         "copt": ("member", ("ident", "VObj"), "OptA"), "cneg": ("unary", "-", ("int", 2)), "comode": ("member", ("ident", "VOther"), "XB")}
REPS = dict(DYN, **CONST)
CAST_TARGETS = [["bool"], ["int"], ["uint"], ["double"], ["qreal"], ["QString"], ["QVariant"], ["void"], ["VObj"], ["VSub"], ["QObject"],
                ["VObj", "Mode"], ["VObj", "Opts"], ["VGadget"], ["Nope"], ["VObj", "Nope"], ["VOther", "Mode"]]


def enum_operator_table():
    """exhaustive: every binary operator x operand representative pair, every unary operator, every cast, Math.max/min,
    ternary branch pairs -- each as a binding expression"""
    out = []
    for op in prog.BOPS:
        for ln, l in REPS.items():
            for rn, r in REPS.items():
                out.append((("binding_expr", ("binary", op, l, r)), "binary:%s:%s:%s" % (op, ln, rn)))
    for op in prog.UOPS:
        for n, a in REPS.items():
            out.append((("binding_expr", ("unary", op, a)), "unary:%s:%s" % (op, n)))
    for t in CAST_TARGETS:
        for n, a in REPS.items():
            out.append((("binding_expr", ("as", a, t)), "cast:%s:%s" % (".".join(t), n)))
    for f in ("max", "min"):
        for ln, l in REPS.items():
            for rn, r in REPS.items():
                out.append((("binding_expr", ("call", ("member", ("ident", "Math"), f), [l, r])), "math:%s:%s:%s" % (f, ln, rn)))
    for ln, l in REPS.items():
        for rn, r in REPS.items():
            out.append((("binding_expr", ("ternary", DYN["bool"], l, r)), "ternary:%s:%s" % (ln, rn)))
    for n, a in REPS.items():
        out.append((("binding_expr", ("ternary", a, ("int", 1), ("int", 2))), "cond:%s" % n))
        out.append((("binding_block", [("if", a, ("block", []), None)]), "ifcond:%s" % n))
        out.append((("binding_block", [("decl", "let", [("x", None, a)])]), "decl:%s" % n))
        for t in CAST_TARGETS:
            out.append((("binding_block", [("decl", "let", [("x", t, a)])]), "decl-annot:%s:%s" % (".".join(t), n)))
        for pn in ("b", "i", "u", "d", "s", "e", "f", "next", "names", "nums", "data", "ci", "ro", "quiet", "wo", "g", "nope"):
            out.append((("binding_block", [("expr", ("assign", ("member", ("ident", "a"), pn), a))]), "assign:%s:%s" % (pn, n)))
        out.append((("binding_block", [("expr", ("call", ("member", ("ident", "a"), "act"), [a]))]), "arg:act:%s" % n))
        out.append((("binding_block", [("expr", ("call", ("member", ("ident", "a"), "put"), [a]))]), "arg:put:%s" % n))
        out.append((("binding_block", [("expr", ("call", ("member", ("ident", "a"), "setNext"), [a]))]), "arg:setNext:%s" % n))
        out.append((("binding_block", [("expr", ("call", ("member", ("ident", "a"), "over"), [a]))]), "arg:over:%s" % n))
        out.append((("binding_block", [("expr", ("call", ("member", ("ident", "a"), "over"), [("int", 1), a]))]), "arg:over2:%s" % n))
        out.append((("binding_block", [("expr", ("call", ("member", ("ident", "a"), "over"), [a, ("str", "s")]))]), "arg:over2b:%s" % n))
        out.append((("binding_block", [("expr", ("call", ("member", ("ident", "a"), "over"), [("int", 1), ("str", "s"), a]))]), "arg:over3:%s" % n))
        out.append((("binding_block", [("expr", ("call", ("member", ("ident", "console"), "log"), [a]))]), "arg:console:%s" % n))
        out.append((("binding_block", [("expr", ("call", ("member", ("ident", "console"), "warn"), [("int", 1), a, a]))]), "arg:console3:%s" % n))
        out.append((("binding_expr", ("sub", a, ("int", 0))), "subscript-obj:%s" % n))
        out.append((("binding_expr", ("sub", DYN["intlist"], a)), "subscript-idx:%s" % n))
        out.append((("binding_block", [("decl", "let", [("l", None, DYN["intlist"])]), ("expr", ("assign", ("sub", ("ident", "l"), a), ("int", 1)))]), "subscript-write-idx:%s" % n))
        out.append((("binding_block", [("decl", "let", [("l", None, DYN["intlist"])]), ("expr", ("assign", ("sub", ("ident", "l"), ("int", 0)), a))]), "subscript-write-val:%s" % n))
        out.append((("binding_block", [("decl", "let", [("l", None, a)]), ("expr", ("assign", ("sub", ("ident", "l"), ("int", 0)), ("int", 1)))]), "subscript-write-obj:%s" % n))
        out.append((("binding_expr", ("array", [a, a])), "array2:%s" % n))
        for rn, r in REPS.items():
            if rn <= n:
                out.append((("binding_expr", ("array", [a, r])), "array:%s:%s" % (n, rn)))
    return out


def expression_nestings():
    """every nesting of two short-circuit / conditional operators (each with its own sink temporary and its own labels), as a value, as an if
    condition, as a case label, as a call argument: a && (b || c), (a ? b : c) && d, a ? (b && c) : d ..."""
    L = [("member", ("ident", o), "b") for o in ("a", "b", "sub")] + [("binary", ">", ("member", ("ident", "a"), "i"), ("int", 0))]
    def bin_(op):
        return lambda x, y: ("binary", op, x, y)
    mk = {"&&": bin_("&&"), "||": bin_("||")}
    inner = []
    for op in ("&&", "||"):
        inner.append((op, mk[op](L[1], L[2])))
    inner.append(("?:", ("ternary", L[1], L[2], L[3])))
    exprs = []
    for iname, ie in inner:
        for op in ("&&", "||"):
            exprs.append(("%s-right-%s" % (op, iname), mk[op](L[0], ie)))
            exprs.append(("%s-left-%s" % (op, iname), mk[op](ie, L[0])))
            exprs.append(("%s-both-%s" % (op, iname), mk[op](ie, mk[op](L[0], L[3]))))
        exprs.append(("?:-cond-%s" % iname, ("ternary", ie, L[0], L[3])))
        exprs.append(("?:-then-%s" % iname, ("ternary", L[0], ie, L[3])))
        exprs.append(("?:-else-%s" % iname, ("ternary", L[0], L[3], ie)))
    out = []
    for name, e in exprs:
        out.append((("binding_expr", e), "nest:value"))
        out.append((("binding_block", [("if", e, ("block", [("expr", ("call", ("member", ("ident", "a"), "act"), [("int", 1)]))]), None)]), "nest:if"))
        out.append((("binding_block", [("decl", "let", [("x", None, e)]), ("if", ("ident", "x"), ("block", [("return", None)]), None),
                                       ("expr", ("call", ("member", ("ident", "a"), "act"), [("int", 2)]))]), "nest:decl"))
        out.append((("binding_block", [("switch", ("member", ("ident", "a"), "b"), [(e, [("break", False)])], None)]), "nest:case-label"))
        out.append((("binding_block", [("return", ("ternary", e, ("int", 1), ("int", 2)))]), "nest:return"))
    return out


def repeated_subexpressions():
    """the SAME sub-expression (a translated string, a method call, a property read, a folded constant) in the sibling arms of one branching construct, before and
    after it: whatever is computed in one arm is not available in the other"""
    reps = [("tr", ("call", ("ident", "qsTr"), [("str", "Ready")])), ("call", ("call", ("member", ("ident", "a"), "label"), [])), ("read", ("member", ("ident", "a"), "s")),
            ("fold", ("binary", "+", ("str", "a"), ("str", "b"))), ("arg", ("call", ("member", ("str", "%1"), "arg"), [("member", ("ident", "a"), "s")]))]
    c = ("member", ("ident", "a"), "b")
    c2 = ("member", ("ident", "b"), "b")
    out = []
    for name, e in reps:
        star = ("binary", "+", e, ("str", "*"))
        out.append((("binding_expr", ("ternary", c, star, e)), "repeat:%s:ternary" % name))
        out.append((("binding_expr", ("ternary", c, e, ("ternary", c2, e, star))), "repeat:%s:ternary-nested" % name))
        out.append((("binding_block", [("if", c, ("block", [("return", star)]), ("block", [("return", e)]))]), "repeat:%s:if-else" % name))
        out.append((("binding_block", [("if", c, ("block", [("return", e)]), None), ("return", e)]), "repeat:%s:if-then-after" % name))
        out.append((("binding_block", [("switch", ("member", ("ident", "a"), "i"), [(("int", 0), [("return", e)]), (("int", 1), [("return", star)])], (2, [("return", e)]))]), "repeat:%s:switch" % name))
        out.append((("binding_expr", ("binary", "||", ("binary", "&&", c, ("binary", "==", e, ("str", "x"))), ("binary", "==", e, ("str", "y")))), "repeat:%s:logical" % name))
        out.append((("binding_block", [("decl", "let", [("t", None, e)]), ("if", c, ("block", [("return", e)]), None), ("return", ("binary", "+", ("ident", "t"), e))]), "repeat:%s:before-and-inside" % name))
    return out


def scope_kind_programs():
    """an outer `let` / `const` x, a nested scope (block, if body, switch clause) declaring its own x with either keyword, and an assignment to x inside the nested
    scope or after it: the keyword that counts is the one of the declaration in force.  -> [(program, tag, accepted?)]"""
    out = []
    asg = lambda n: ("expr", ("assign", ("ident", "x"), ("int", n)))
    for k1 in ("let", "const"):
        for k2 in ("let", "const", None):
            for nest in ("block", "if", "switch", "if-else"):
                for where in ("inside", "after"):
                    inner = ([("decl", k2, [("x", None, ("int", 2))])] if k2 else []) + ([asg(3)] if where == "inside" else [])
                    if nest == "block":
                        st = [("block", inner)]
                    elif nest == "if":
                        st = [("if", DYN["bool"], ("block", inner), None)]
                    elif nest == "if-else":
                        st = [("if", DYN["bool"], ("block", []), ("block", inner))]
                    else:
                        st = [("switch", DYN["int"], [(("int", 1), inner + [("break", False)])], None)]
                    body = [("decl", k1, [("x", None, ("int", 1))])] + st + ([asg(4)] if where == "after" else []) + [("expr", ("call", ("member", ("ident", "a"), "act"), [("ident", "x")]))]
                    in_force = (k2 or k1) if where == "inside" else k1
                    out.append((("binding_block", body), "scope-kind:%s:%s:%s:%s" % (k1, k2, nest, where), in_force == "let"))
    return out


def skeleton_statements(maxn):
    """all switch skeletons with <= maxn clauses x default position x small bodies; if/else and early-return shapes"""
    bodies = [[], [("expr", ("call", ("member", ("ident", "a"), "act"), [("int", 1)]))], [("break", False)],
              [("return", None)], [("expr", ("call", ("member", ("ident", "b"), "act"), [("int", 2)])), ("break", False)],
              [("if", DYN["bool"], ("block", [("break", False)]), None)], [("decl", "let", [("y", None, ("int", 2))])],
              [("switch", DYN["int"], [(("int", 1), [("break", False)])], None)]]
    out = []
    import itertools
    for n in range(0, maxn + 1):
        for bs in itertools.product(range(len(bodies)), repeat=n):
            for dpos in [None] + list(range(n + 1)):
                for db in ([0] if dpos is None else [0, 1, 2, 6]):
                    cases = [(("int", k + 1), list(bodies[b])) for k, b in enumerate(bs)]
                    default = None if dpos is None else (dpos, list(bodies[db]))
                    sw = ("switch", DYN["int"], cases, default)
                    for tail in ([], [("expr", ("call", ("member", ("ident", "a"), "act"), [("int", 9)]))]):
                        out.append((("binding_block", [sw] + tail), "switch:%d" % n))
    # value and void returns mixed around switch exits (the break slot is laid out BEFORE the clause bodies: every break is a backward branch)
    v = ("return", ("str", "w"))
    rbodies = [[], [("break", False)], [v], [("return", None)], [("expr", ("call", ("member", ("ident", "a"), "act"), [("int", 1)])), ("break", False)]]
    rtails = [[], [("return", None)], [v], [("expr", ("call", ("member", ("ident", "a"), "act"), [("int", 9)]))]]
    for n in range(1, min(maxn, 2) + 1):
        for bs in itertools.product(range(len(rbodies)), repeat=n):
            for dpos in [None] + list(range(n + 1)):
                for db in ([0] if dpos is None else range(len(rbodies))):
                    cases = [(("int", k + 1), list(rbodies[b])) for k, b in enumerate(bs)]
                    default = None if dpos is None else (dpos, list(rbodies[db]))
                    for tail in rtails:
                        out.append((("binding_block", [("switch", DYN["int"], cases, default)] + tail), "switch-returns:%d" % n))
    arms = [("block", []), ("block", [("expr", ("call", ("member", ("ident", "a"), "act"), [("int", 1)]))]), ("block", [("return", None)]),
            ("block", [("expr", ("int", 1))]), ("block", [("decl", "let", [("z", None, ("int", 1))])])]
    tails = [[], [("decl", "let", [("y", None, ("int", 2))])], [("expr", ("call", ("member", ("ident", "a"), "act"), [("int", 3)]))], [("expr", ("int", 5))], [("return", None)]]
    for t in arms:
        for e in [None] + arms:
            for tl in tails:
                out.append((("binding_block", [("if", DYN["bool"], t, e)] + tl), "if"))
                out.append((("binding_block", [("decl", "let", [("x", None, ("ternary", DYN["bool"], ("int", 1), ("int", 2)))])] + tl), "ternary-decl"))
                out.append((("binding_block", [("decl", "let", [("x", None, ("binary", "&&", DYN["bool"], DYN["bool"]))])] + tl), "and-decl"))
    return out


class Pool:
    def __init__(self, ctx):
        self.ctx = ctx
        self.programs = []     # (program, tag)
        self.impl = []
        self.expected = []
        self.bad = []

    def add_generated(self, n, mutate_every=3, mutate=0.06, max_depth=3, callbacks=True):
        rng = self.ctx.rng
        for i in range(n):
            g = prog.Gen(rng, mutate=0.0 if (mutate_every == 0 or i % mutate_every) else mutate, max_depth=max_depth)
            p, t = g.program()
            tag = "gen:%s%s" % (p[0], ":mutant" if "mutant" in g.features else "")
            self.programs.append((p, tag))

    def add(self, items):
        self.programs.extend(items)

    def run(self):
        ctx = self.ctx
        e0.write_files()
        vh = ctx.need_harness()
        tr = getattr(self, "transform", None) or (lambda x: x)
        cases = [{"source": tr(prog.qml_program(p)), "callback": True} for p, _ in self.programs]
        self.sources = [c["source"] for c in cases]
        self.impl = C.harness_run(vh, "tir", cases, timeout=120)
        self.expected = [tirtok.expected_stream(r) if isinstance(r, dict) else None for r in self.impl]
        for (p, tag), e in zip(self.programs, self.expected):
            ctx.dist(tag.split(":")[0] + (":" + tag.split(":")[1] if tag.startswith("gen") else ""))
        return self

    def compare_model(self):
        terms, idx = [], []
        for i, ((p, tag), e) in enumerate(zip(self.programs, self.expected)):
            if e is None or e == "syntax":
                # a panic of the implementation: the model must predict a panic (status 2) -- compared as well
                if e is None and isinstance(self.impl[i], dict) and "panic" in self.impl[i]:
                    terms.append((prog.coq_program(p), None))
                    idx.append(i)
                continue
            terms.append((prog.coq_program(p), C.coq_list(["(%d)" % x for x in e])))
            idx.append(i)
        normal = [(a, b) for a, b in terms if b is not None]
        nidx = [i for (a, b), i in zip(terms, idx) if b is not None]
        bad = C.coq_eval_mismatches("tirK_" + self.ctx.prop, HEADER, normal, "zl_eqb", "(tir_case E0)", "callback * list Z", shard_size=250, scope="Z_scope")
        self.bad = [nidx[j] for j in bad]
        pan = [(a, "2%Z") for a, b in terms if b is None]
        pidx = [i for (a, b), i in zip(terms, idx) if b is None]
        self.model_predicts_panic = set()
        if pan:
            badp = C.coq_eval_mismatches("tirP_" + self.ctx.prop, HEADER, pan, "Z.eqb", "(fun c => hd 9 (tir_case E0 c))", "callback * Z", shard_size=250, scope="Z_scope")
            self.model_predicts_panic = {pidx[j] for j in range(len(pan)) if j not in badp}
            self.bad += [pidx[j] for j in badp]
        return self.bad

    def model_stream(self, i):
        out = C.coq_eval_terms("tirM_" + self.ctx.prop, HEADER, ["tir_case E0 %s" % prog.coq_program(self.programs[i][0])], scope="Z_scope")[0]
        return [int(x) for x in re.findall(r"-?\d+", out)]

    def describe_mismatch(self, i):
        m = self.model_stream(i)
        e = self.expected[i]
        if not isinstance(e, list):
            return "source:\n%s\nimplementation: %r\nmodel stream head: %s" % (self.sources[i], self.impl[i], m[:20])
        k = 0
        while k < min(len(m), len(e)) and m[k] == e[k]:
            k += 1
        return ("source:\n%s\nfirst difference at token %d: model %s / implementation %s\nimplementation diagnostics: %s"
                % (self.sources[i], k, m[max(0, k - 6):k + 10], e[max(0, k - 6):k + 10], [d["msg"] for d in self.impl[i].get("diags", [])]))

"""Helpers shared by the uigen-level checks: running documents through the real pipeline, reading the .ui."""
import xml.etree.ElementTree as ET
from . import common as C


def run_docs(vh, docs, mode="generate", timeout=120, extra_env=None):
    cases = [{"source": d, "mode": mode} if isinstance(d, str) else d for d in docs]
    return C.harness_run(vh, "uigen", cases, timeout=timeout)


def run_docs_shared(vh, docs, tag, group=5, orders=("forward",)):
    """the documents translated in groups through ONE BuildContext per group (the way `qmluic generate-ui A.qml B.qml ...` does), in the given orders.
    Returns {order: [result per document]} with results shaped like run_docs' ({"ui", "diags", "has_error"} or {"syntax_error": True, ...})."""
    import os
    import shutil
    work = os.path.join(C.BUILD, "shared_" + tag)
    shutil.rmtree(work, ignore_errors=True)
    cases, where = [], []
    for g0 in range(0, len(docs), group):
        root = os.path.join(work, "g%d" % (g0 // group))
        os.makedirs(root)
        names = []
        for j, d in enumerate(docs[g0:g0 + group]):
            names.append("Doc%d.qml" % j)
            with open(os.path.join(root, names[-1]), "w") as f:
                f.write(d)
        for o in orders:
            srcs = names if o == "forward" else list(reversed(names))
            cases.append({"root": root, "sources": srcs, "dirs": []})
            where.append((o, g0, srcs))
    out = C.harness_run(vh, "project", cases, timeout=300)
    res = {o: [None] * len(docs) for o in orders}
    for (o, g0, srcs), r in zip(where, out):
        if not isinstance(r, dict) or "docs" not in r:
            for n in srcs:
                res[o][g0 + int(n[3:-4])] = r if isinstance(r, dict) else {"crash": str(r)[:300]}
            continue
        for n, d in zip(srcs, r["docs"]):
            d = dict(d)
            d.setdefault("diags", [])
            d.setdefault("ui", None)
            d.setdefault("has_error", False)
            res[o][g0 + int(n[3:-4])] = d
    shutil.rmtree(work, ignore_errors=True)
    return res


def parse_ui(text):
    return ET.fromstring(text)

"""Helpers shared by the uigen-level checks: running documents through the real pipeline, reading the .ui."""
import xml.etree.ElementTree as ET
from . import common as C


def run_docs(vh, docs, mode="generate", timeout=120, extra_env=None):
    cases = [{"source": d, "mode": mode} if isinstance(d, str) else d for d in docs]
    return C.harness_run(vh, "uigen", cases, timeout=timeout)


def parse_ui(text):
    return ET.fromstring(text)

"""C04 -- Every binding is embedded, generated, or diagnosed; errors write nothing.

P: props/C04.v over model/Uigen.v (name lists regenerated from object.rs/layout.rs by the translator).
K: per object, what the real .ui / support header / diagnostics contain vs the model's run Generate, on generated documents
   whose every binding is labelled with the outcome of the expression layer (one half with ill-typed bindings).
S (no model): on accepted documents every scalar binding is found in exactly one of {.ui, header}; members of grouped values
   follow the rule of the property; every handler is in the header.  With one unknown / duplicated / unsupported binding planted,
   an error whose range lies inside the planted text is reported.  The real command on a sample: exit status 1, no output file
   created, existing outputs left untouched; exit 0 and both files otherwise.
"""
import os
import shutil
import subprocess
from . import common as C
from . import qml
from . import uigenk as U

TARGETS = ["props/C04.vo"]
DRIVER_TARGETS = ["model/Driver.vo"]
PINS = "pins/C04.v"
TRUSTED = ["harness uigen + xml.etree; the labels the generator puts on bindings (constant? converts? return type? setter/getter) are the generator's knowledge of the "
           "Qt metatypes -- a wrong label shows up as a K disagreement, never as a silent pass",
           "attribution of a diagnostic to a binding by byte range; diagnostics classes by message text (vlib/uigenk.py DIAG_CLASS)",
           "the expression layer is abstracted to its outcome (C03/C05 decide it); the CLI leg is a test of src/main.rs, not a proof"]


def s_exactly_one(root, obs, res):
    errs = []
    for o, ob in zip(U.post(root), obs):
        form = dict(x.split(":", 1) for x in ob["form"])
        hdr = dict(x.split(":", 1) for x in ob["hdr"])
        for b in o["props"]:
            n = b["name"]
            if b["kind"] == "expr":
                if n in U.HIDDEN:
                    if n in hdr and n in form:
                        errs.append("%s.%s in both outputs" % (o["id"], n))
                    continue
                places = (n in form) + (n in hdr)
                if places != 1:
                    errs.append("%s.%s is in %d places (form=%s header=%s)" % (o["id"], n, places, n in form, n in hdr))
                if (n in form) != bool(b["const"]) and b["what"] not in ("near-separator",) and not (n == "model" and o["cls"] == "QTableView"):
                    errs.append("%s.%s: a %s binding is in the %s" % (o["id"], n, "constant" if b["const"] else "dynamic", "form" if n in form else "header"))
            elif b["kind"] == "gadget":
                fm = set(form.get(n, "").split(",")) - {""}
                hm = set(hdr.get(n, "").split(",")) - {""}
                anydyn = any(not m["const"] for m in b["members"])
                for m in b["members"]:
                    inf, inh = m["name"] in fm, m["name"] in hm
                    if m["const"]:
                        if not inf or (inh and not anydyn) or (anydyn and not inh):
                            errs.append("%s.%s.%s constant member: form=%s header=%s (dynamic sibling: %s)" % (o["id"], n, m["name"], inf, inh, anydyn))
                    elif inf or not inh:
                        errs.append("%s.%s.%s dynamic member: form=%s header=%s" % (o["id"], n, m["name"], inf, inh))
            else:
                fm = set(form.get(n, "").split(",")) - {""}
                for m in b["members"]:
                    if m["name"] not in fm:
                        errs.append("%s.%s.%s not in the form" % (o["id"], n, m["name"]))
        for c in o["callbacks"]:
            if U.signal_name(c["name"]) not in ob["cbs"]:
                errs.append("%s.%s handler not in the header" % (o["id"], c["name"]))
        for (acls, ms) in o["attached"]:
            for m in ms:
                full = {"ALayout": "QLayout.", "ATab": "QTabWidget."}[acls] + m["name"]
                if full in U.VIS_ATT and full not in ob["att"]:
                    errs.append("%s %s not in the form" % (o["id"], full))
    return errs


def s_never_in_neither(root, obs):
    """every binding, accepted document or not: in the form, in the header, or diagnosed"""
    errs = []
    for o, ob in zip(U.post(root), obs):
        form = dict(x.split(":", 1) for x in ob["form"])
        hdr = dict(x.split(":", 1) for x in ob["hdr"])
        dtops = {}
        for d in ob["diags"]:
            top, mem, _ = d.split("/", 2)
            dtops.setdefault(top, set()).add(mem)
        for b in o["props"]:
            n = b["name"]
            if n in U.HIDDEN or n == "contentsMargins":
                continue
            if n not in form and n not in hdr and n not in dtops:
                if b["kind"] == "objmap" and not any(m["const"] for m in b["members"]):
                    continue
                errs.append("%s.%s is neither in the form nor in the header, and nothing is reported for it" % (o["id"], n))
                continue
            for m in b.get("members", []):
                fm = set(form.get(n, "").split(",")) - {""}
                hm = set(hdr.get(n, "").split(",")) - {""}
                if m["name"] not in fm and m["name"] not in hm and not ({m["name"], ""} & dtops.get(n, set())):
                    errs.append("%s.%s.%s is neither in the form nor in the header, and nothing is reported for it" % (o["id"], n, m["name"]))
        for c in o["callbacks"]:
            sn = U.signal_name(c["name"])
            if ob["header"] and sn not in ob["cbs"] and sn not in dtops:
                errs.append("%s.%s handler neither in the header nor diagnosed" % (o["id"], c["name"]))
    return errs


def s_removal_matrix(ctx, vh):
    """property x constant value, well typed or not (a string for a font, a number for a rectangle, ...), one binding per document, against the SAME
    document without it: an accepted binding that changes neither output and draws no diagnostic was consumed silently"""
    props = [("QLabel", p) for p in ("text", "font", "locale", "geometry", "sizePolicy", "palette", "cursor", "pixmap", "alignment", "wordWrap", "indent", "minimumSize", "styleSheet", "toolTip")] + \
            [("QWidget", p) for p in ("windowIcon", "windowTitle", "font", "palette.active", "palette.window", "contentsMargins", "layoutDirection", "focusPolicy", "enabled")] + \
            [("QPushButton", p) for p in ("icon", "iconSize", "shortcut", "checkable", "text", "font.family", "font.pointSize")] + \
            [("QAction", p) for p in ("icon", "shortcut", "text", "checkable", "data")] + [("QSpinBox", p) for p in ("value", "maximum", "prefix", "specialValueText")]
    values = ['"Monospace"', "1", "true", "2.5", '["a", "b"]', "Qt.AlignRight", "null", '"app.png"', '"#ff0000"', "-1", 'qsTr("x")']
    docs, meta = [], []
    for cls, p in props:
        for v in values:
            host = "QMenu" if cls == "QAction" else "QWidget"
            doc = lambda b: "import qmluic.QtWidgets\n%s {\n  %s {\n    id: x\n%s  }\n}\n" % (host, cls, b)
            docs.append(doc("    %s: %s\n" % (p, v)))
            docs.append(doc(""))
            meta.append((cls, p, v))
    res = qml.run_docs(vh, docs, mode="generate")
    silent = 0
    for k, (cls, p, v) in enumerate(meta):
        w, wo = res[2 * k], res[2 * k + 1]
        ctx.count(("removal-matrix", cls, p, v), True)
        if not isinstance(w, dict) or not isinstance(wo, dict) or "diags" not in w:
            ctx.violation("pipeline gives no result on a constant binding", {"qml": docs[2 * k], "impl_output": str(w)[:500]})
            continue
        if w.get("ui") is not None and not w["diags"] and w.get("ui") == wo.get("ui") and w.get("header") == wo.get("header"):
            silent += 1
            ctx.violation("%s.%s: %s is accepted without diagnostic and leaves no trace: the outputs equal those of the document without the binding" % (cls, p, v),
                          {"qml": docs[2 * k], "impl_output": w.get("ui"), "theorem_or_correspondence": "S: differential -- a binding is in the form, in the header, or diagnosed"})
    ctx.coverage["removal_matrix"] = len(meta)


CONTEXT_DOCS = [
    # (lines of one object body; every line is a binding that has to take effect NEXT TO the others)
    ("QWidget", ['palette.window: "black"', 'palette.active.windowText: "white"', 'palette.inactive.windowText: "silver"', 'palette.disabled.windowText: "gray"', 'palette.base: "red"']),
    ("QWidget", ['palette.window: "black"', 'palette.active.text: "white"']),
    ("QWidget", ['palette.active.window: "blue"', 'palette.window: "black"', 'palette.disabled.window: "gray"']),
    ("QLabel", ['font.bold: true', 'font.family: "Mono"', 'font.pointSize: 9', 'text: "t"', 'alignment: Qt.AlignRight']),
    ("QLabel", ['sizePolicy.horizontalPolicy: QSizePolicy.Expanding', 'sizePolicy.verticalPolicy: QSizePolicy.Fixed', 'sizePolicy.horizontalStretch: 2', 'minimumSize.width: 3', 'minimumSize.height: 4']),
    ("QTableView", ['showGrid: false', 'horizontalHeader.stretchLastSection: true', 'verticalHeader.visible: false', 'verticalHeader.defaultSectionSize: 20']),
    ("QTreeView", ['header.minimumSectionSize: 100', 'header.visible: false', 'rootIsDecorated: false']),
    ("QGraphicsView", ['backgroundBrush.color: "red"', 'backgroundBrush.style: Qt.NoBrush', 'foregroundBrush: "blue"']),
    ("QPushButton", ['icon.name: "go"', 'icon.normalOff: "a.png"', 'iconSize.width: 16', 'iconSize.height: 16', 'text: "t"', 'shortcut: "Ctrl+A"']),
]


def s_context_removal(ctx, vh):
    """several bindings on one object (palette roles with and without explicit colour groups, members of several grouped values, header groups, brushes): the document
    with all of them against the document without ONE of them -- each binding changes the outputs or is diagnosed, whatever stands next to it; the object is also
    placed as a page of a tab widget with its tab attributes, and as an item of a layout with its attached settings"""
    docs, meta = [], []
    wraps = [("plain", "QWidget {\n  %s {\n    id: x\n%s  }\n}\n"), ("tab-page", "QTabWidget {\n  %s {\n    id: x\n    QTabWidget.title: \"page\"\n    QTabWidget.toolTip: \"tip\"\n%s  }\n}\n"),
             ("layout-item", "QWidget {\n  QGridLayout {\n    %s {\n    id: x\n    QLayout.row: 1\n    QLayout.alignment: Qt.AlignTop\n%s    }\n  }\n}\n")]
    for cls, lines in CONTEXT_DOCS:
        for wname, wrap in wraps:
            body = lambda ls: "".join("    %s\n" % l for l in ls)
            full = "import qmluic.QtWidgets\n" + wrap % (cls, body(lines))
            docs.append(full)
            meta.append((cls, wname, None, full))
            for k in range(len(lines)):
                docs.append("import qmluic.QtWidgets\n" + wrap % (cls, body(lines[:k] + lines[k + 1:])))
                meta.append((cls, wname, lines[k], full))
    res = qml.run_docs(vh, docs, mode="generate")
    full_res = None
    for (cls, wname, line, full), d, r in zip(meta, docs, res):
        if line is None:
            full_res = r
            continue
        ctx.count(("context-removal", cls, wname, line), True)
        ctx.dist("context-removal")
        if not isinstance(r, dict) or not isinstance(full_res, dict) or "diags" not in full_res:
            ctx.violation("pipeline gives no result on a document of constant bindings", {"qml": full, "impl_output": str(full_res)[:400]})
            continue
        if full_res.get("ui") is not None and not full_res["diags"] and full_res.get("ui") == r.get("ui") and full_res.get("header") == r.get("header"):
            ctx.violation("%s (%s): the binding `%s` is accepted without diagnostic and leaves no trace next to the other bindings of the object: the outputs equal those of the document without it"
                          % (cls, wname, line), {"qml": full, "without": d, "impl_output": full_res.get("ui"), "theorem_or_correspondence": "S: differential -- a binding is in the form, in the header, or diagnosed"})


def s_attached_matrix(ctx, vh):
    """every QLayout.* attached binding x every layout class x child kind, one binding per document, against the SAME document without it: an accepted
    binding that changes nothing in the form and draws no diagnostic was consumed silently"""
    names = ["row", "column", "rowSpan", "columnSpan", "rowStretch", "columnStretch", "columnMinimumWidth", "rowMinimumHeight", "alignment"]
    docs, meta = [], []
    for lay in ("QVBoxLayout", "QHBoxLayout", "QFormLayout", "QGridLayout"):
        for kid in ("QLabel { %s }", "QSpacerItem { %s }", "QHBoxLayout { %s }", "QPushButton { %s; text: \"t\" }"):
            for n in names:
                val = "Qt.AlignRight" if n == "alignment" else "3"
                doc = lambda b: ("import qmluic.QtWidgets\nQWidget {\n  %s {\n    QLabel { }\n    QLabel { }\n    %s\n    QLabel { }\n  }\n}\n" % (lay, kid % b)).replace("{ ;", "{").replace("{  }", "{ }")
                docs.append(doc("QLayout.%s: %s" % (n, val)))
                docs.append(doc(""))
                meta.append((lay, kid.split(" ")[0], n))
    res = qml.run_docs(vh, docs, mode="generate")
    for k, (lay, kid, n) in enumerate(meta):
        w, wo = res[2 * k], res[2 * k + 1]
        ctx.count(("attached-matrix", lay, kid, n), True)
        if not isinstance(w, dict) or not isinstance(wo, dict) or "diags" not in w:
            ctx.violation("pipeline gives no result on an attached binding", {"qml": docs[2 * k], "impl_output": str(w)[:500]})
            continue
        if w.get("ui") is not None and not w["diags"] and w.get("ui") == wo.get("ui") and w.get("header") == wo.get("header"):
            ctx.violation("QLayout.%s on a %s child of a %s is accepted without diagnostic and leaves no trace: the outputs equal those of the document without the binding" % (n, kid, lay),
                          {"qml": docs[2 * k], "impl_output": w.get("ui"), "theorem_or_correspondence": "S: differential -- a binding is in the form, in the header, or diagnosed"})
    ctx.coverage["attached_matrix"] = len(meta)


def s_nested_groups(ctx, vh, rng):
    """grouped values nested two levels deep (a gadget inside a header map, a gadget inside a gadget): outside the Coq model, decided on the real outputs --
    a constant leaf must be in the .ui, a dynamic leaf must be in the header or an error must lie inside the text of its binding or of an enclosing group"""
    import itertools
    import re as _re
    docs, metas = [], []
    hosts = [("QTableView", "horizontalHeader"), ("QTableView", "verticalHeader"), ("QTreeView", "header")]
    vals = {"const": {"bool": "true", "int": "3"}, "dyn": {"bool": "srcB.checked", "int": "srcI.value"}}
    for (cls, hdr), k1, k2, k3, style in itertools.product(hosts, ("const", "dyn", None), ("const", "dyn"), ("const", "dyn", None), ("block", "dotted")):
        leaves = []
        if k1:
            leaves.append(("%s.stretchLastSection" % hdr, vals[k1]["bool"], k1))
        leaves.append(("%s.font.bold" % hdr, vals[k2]["bool"], k2))
        if k3:
            leaves.append(("%s.font.pointSize" % hdr, vals[k3]["int"], k3))
        if style == "dotted":
            body = "\n".join("        %s: %s" % (n, v) for n, v, _ in leaves)
        else:
            inner = "\n".join("                %s: %s" % (n.split(".")[-1], v) for n, v, _ in leaves if ".font." in n)
            outer = "\n".join("            %s: %s" % (n.split(".")[-1], v) for n, v, _ in leaves if ".font." not in n)
            body = "        %s {\n%s\n            font {\n%s\n            }\n        }" % (hdr, outer, inner)
        doc = "import qmluic.QtWidgets\nQWidget {\n    QCheckBox { id: srcB }\n    QSpinBox { id: srcI }\n    %s {\n        id: view\n%s\n    }\n}\n" % (cls, body)
        docs.append(doc)
        metas.append((hdr, leaves, style))
    # signal handlers written inside a group (nested object map, grouped value, attached type): wired or diagnosed, never dropped
    hdocs = []
    for (cls, hdr) in hosts:
        for other in ("", "stretchLastSection: true", "stretchLastSection: srcB.checked"):
            for style in ("block", "dotted"):
                h = "onSectionClicked: function(index: int) { srcB.toggle() }"
                if style == "block":
                    body = "        %s {\n            %s\n            %s\n        }" % (hdr, other, h)
                else:
                    body = ("        %s.%s\n" % (hdr, other) if other else "") + "        %s.%s" % (hdr, h)
                hdocs.append(("import qmluic.QtWidgets\nQWidget {\n    QCheckBox { id: srcB }\n    %s {\n        id: view\n%s\n    }\n}\n" % (cls, body), h, "SectionClicked"))
    for h, key in (("font.onFooBar: srcB.toggle()", "FooBar"), ("QLayout.onFooBar: srcB.toggle()", "FooBar")):
        hdocs.append(("import qmluic.QtWidgets\nQWidget {\n    QCheckBox { id: srcB }\n    QVBoxLayout {\n        QLabel {\n            id: view\n            %s\n        }\n    }\n}\n" % h, h, key))
    hout = qml.run_docs(vh, [d for d, _, _ in hdocs], mode="generate")
    for (doc, h, key), res in zip(hdocs, hout):
        ctx.count(doc, True)
        ctx.dist("nested-handler")
        if not isinstance(res, dict) or "diags" not in res:
            ctx.violation("no result for a nested handler document: %s" % str(res)[:200], {"qml": doc, "impl_output": str(res)[:500]})
            continue
        pos = doc.find(h.split(":")[0])
        end = doc.find("\n", pos) if "{" not in h else doc.find("}", pos) + 1
        lo = doc.rfind("\n", 0, pos)
        diagnosed = any(d["kind"] == "error" and lo <= d["start"] and d["end"] <= end + 1 for d in res["diags"])
        wired = bool(res.get("header")) and _re.search(r"\bvoid on\w*%s\(" % key, res["header"]) is not None
        if not (wired or diagnosed):
            ctx.violation("a signal handler written inside a group is neither wired in the header nor diagnosed inside its text: %s" % h,
                          {"qml": doc, "impl_output": {"header": res.get("header"), "diags": res["diags"]}, "theorem_or_correspondence": "never in neither (handlers in groups) / S"})
    out = qml.run_docs(vh, docs, mode="generate")
    for doc, (hdr, leaves, style), res in zip(docs, metas, out):
        ctx.count(doc, True)
        ctx.dist("nested-group")
        if not isinstance(res, dict) or "diags" not in res:
            ctx.violation("no result for a nested group document: %s" % str(res)[:200], {"qml": doc, "impl_output": str(res)[:500]})
            continue
        errs = [d for d in res["diags"] if d["kind"] == "error"]
        ui = res.get("ui") or ""
        header = res.get("header") or ""
        for name, src, kind in leaves:
            leafname = name.split(".")[-1]
            # the text of this leaf's binding (dotted: the whole line; block: the member line) and of its enclosing groups
            pos = doc.find("%s: %s" % (name if style == "dotted" else leafname, src))
            spans = [(pos, pos + len("%s: %s" % (name if style == "dotted" else leafname, src)))]
            if style == "block":
                g = doc.find(hdr + " {")
                spans.append((g, doc.find("\n        }", g) + 10))
            else:
                # the same grouped value written in dotted form is spread over several lines: its text is all of them
                for m in _re.finditer(r"^\s*%s\.[^\n]*$" % hdr, doc, _re.M):
                    spans.append((m.start(), m.end()))
            diagnosed = any(any(a <= d["start"] and d["end"] <= b for a, b in spans) for d in errs)
            attr = hdr + U.cap(name.split(".")[1]) if ".font." not in name else hdr + "Font"
            in_form = bool(_re.search(r'<attribute name="%s"' % attr, ui)) and (".font." not in name or ("<%s>" % leafname.lower()) in ui)
            in_header = bool(_re.search(r"\beval\w*%s\w*\(" % U.cap(leafname), header))
            if not (in_form or in_header or diagnosed):
                ctx.violation("nested binding %s (%s) is neither in the .ui nor in the header, and no error lies inside its text" % (name, kind),
                              {"qml": doc, "impl_output": {"ui": res.get("ui"), "header": res.get("header"), "diags": res["diags"]}, "theorem_or_correspondence": "never in neither (nested groups) / S"})
                break
            if not errs and kind == "const" and not in_form:
                ctx.violation("accepted document: constant nested binding %s is not in the .ui" % name, {"qml": doc, "impl_output": res.get("ui")})
                break


def flag_consistent(ctx, res, rep):
    """Diagnostics::has_error() is what src/main.rs consults to fail the command and write nothing: it has to say 'error' exactly when an error diagnostic is in the list"""
    errs = [d for d in res.get("diags", []) if d["kind"] == "error"]
    if "has_error" in res and bool(res["has_error"]) != bool(errs):
        ctx.violation("Diagnostics::has_error() = %s although the list holds %d error diagnostic(s) (%s): the command decides by it whether to exit non-zero and write nothing"
                      % (res["has_error"], len(errs), errs[0]["msg"] if errs else ""), dict(rep, impl_output=res["diags"], theorem_or_correspondence="errors write nothing / S (has_error)"))
        return False
    return True


def run(ctx):
    ctx.proof_leg(TARGETS, PINS, k_targets=list(U.K_TARGETS) + DRIVER_TARGETS)
    vh = ctx.need_harness()
    rng = ctx.rng
    n = 4500 if ctx.tier == "thorough" else 300
    roots, docs = [], []
    for i in range(n):
        g = U.Gen(rng, p_bad=0.12 if i % 3 == 1 else 0.0, clean=(i % 3 == 0))
        ctx.dist("doc-clean" if i % 3 == 0 else "doc-any")
        r = g.document()
        roots.append(r)
        docs.append(U.render(r))
    if ctx.replay and "case_seed" in ctx.replay:
        pass
    impl = qml.run_docs(vh, docs, mode="generate")
    terms, idx = [], []
    accepted = 0
    for i, (r, res) in enumerate(zip(roots, impl)):
        nb = sum(len(o["props"]) + len(o["callbacks"]) for o in U.walk(r))
        ctx.count(docs[i], nb >= 6)
        rep = {"qml": docs[i]}
        if not isinstance(res, dict) or res.get("ui") is None:
            ctx.violation("no outputs for a generated document: %s" % str(res)[:200], dict(rep, impl_output=res))
            continue
        if not flag_consistent(ctx, res, rep):
            continue
        obs, loose = U.observe(r, res)
        if loose:
            ctx.violation("a diagnostic lies outside every binding of the document: %r" % [(d["msg"], d["start"], d["end"]) for d in loose][:2], dict(rep, impl_output=res["diags"]))
            continue
        for o in U.walk(r):
            for b in o["props"]:
                ctx.dist("binding-" + (b.get("what") or b["kind"]))
        errs = s_never_in_neither(r, obs)
        if errs:
            ctx.violation("binding dropped silently: " + "; ".join(errs[:3]),
                          dict(rep, impl_output={"ui": res["ui"], "header": res["header"], "diags": res["diags"]}, theorem_or_correspondence="C04_never_in_neither / S"))
            continue
        if not res["diags"]:
            accepted += 1
            errs = s_exactly_one(r, obs, res)
            if errs:
                ctx.violation("accepted document, binding not in exactly one place: " + "; ".join(errs[:3]),
                              dict(rep, impl_output={"ui": res["ui"], "header": res["header"]}, theorem_or_correspondence="C04_scalar_exactly_one / S"))
                continue
        terms.append((U.coq_case("generate", r), U.coq_expected(obs)))
        idx.append(i)
    ctx.coverage["accepted_documents"] = accepted
    s_nested_groups(ctx, vh, rng)
    s_attached_matrix(ctx, vh)
    s_removal_matrix(ctx, vh)
    s_context_removal(ctx, vh)
    # ---- planted faults: diagnosed inside the planted text
    nf = 1800 if ctx.tier == "thorough" else 150
    froots, fdocs, fkinds = [], [], []
    for i in range(nf):
        g = U.Gen(rng, p_bad=0.0, clean=True)
        r = g.document()
        o, kind = U.plant_fault(rng, r)
        froots.append(r)
        fdocs.append(U.render(r))
        fkinds.append((o["id"], kind))
        ctx.dist("fault-" + kind)
    fimpl = qml.run_docs(vh, fdocs, mode="generate")
    for i, (r, res) in enumerate(zip(froots, fimpl)):
        ctx.count(fdocs[i], True)
        rep = {"qml": fdocs[i], "fault": fkinds[i]}
        if not isinstance(res, dict) or "diags" not in res:
            ctx.violation("no result for a faulted document: %s" % str(res)[:200], dict(rep, impl_output=res))
            continue
        if not flag_consistent(ctx, res, rep):
            continue
        obs, loose = U.observe(r, res) if res.get("ui") else ([], [])
        hit = [d for d in res["diags"] if d["kind"] == "error" and any(f["range"][0] <= d["start"] and d["end"] <= f["range"][1]
                                                                        for o in U.walk(r) for f in o["faults"] if f["key"] == fkinds[i][1])]
        if not hit:
            ctx.violation("planted %s at %s is not diagnosed inside its text; diagnostics: %r" % (fkinds[i][1], fkinds[i][0], [(d["msg"], d["start"], d["end"]) for d in res["diags"]][:4]),
                          dict(rep, impl_output=res["diags"], theorem_or_correspondence="error diagnostic within the binding / S"))
    # ---- the command: errors write nothing
    from . import c07
    cli = c07.build_cli()
    work = os.path.join(C.BUILD, "c04-cli")
    shutil.rmtree(work, ignore_errors=True)
    os.makedirs(work)
    # one faulted document per kind of fault first (every path by which an error reaches the list has to fail the command), then the first ones
    firsts = {}
    for i, (_, kind) in enumerate(fkinds):
        firsts.setdefault(kind, i)
    order = sorted(firsts.values()) + [i for i in range(len(fdocs)) if i not in firsts.values()]
    sample = [(fdocs[i], True) for i in order[:max(len(firsts), 40 if ctx.tier == "thorough" else 14)]]
    sample += [(docs[i], bool(impl[i]["diags"])) for i in range(min(len(docs), 40 if ctx.tier == "thorough" else 12)) if isinstance(impl[i], dict)]
    ncli = 0
    for k, (src, has_err) in enumerate(sample):
        for pre in (False, True):
            d = os.path.join(work, "c%d_%d" % (k, pre))
            os.makedirs(d)
            p = os.path.join(d, "MyType.qml")
            open(p, "w").write(src)
            outs = [os.path.join(d, "mytype.ui"), os.path.join(d, "uisupport_mytype.h")]
            if pre:
                for q in outs:
                    open(q, "w").write("OLD CONTENT\n")
            before = {q: (os.stat(q).st_ino, os.stat(q).st_mtime_ns, open(q).read()) for q in outs if os.path.exists(q)}
            pr = subprocess.run([cli, "generate-ui", "--foreign-types", os.path.join(C.REPO, "contrib", "metatypes"), p], capture_output=True, text=True, timeout=120)
            ncli += 1
            after = {q: (os.stat(q).st_ino, os.stat(q).st_mtime_ns, open(q).read()) for q in outs if os.path.exists(q)}
            rep = {"qml": src, "cli_args": ["generate-ui", "--foreign-types", "contrib/metatypes", "MyType.qml"], "preexisting_outputs": pre}
            if has_err:
                if pr.returncode == 0:
                    ctx.violation("the command exits 0 on a document with an error", dict(rep, impl_output=pr.stderr[-800:]))
                elif after != before:
                    ctx.violation("outputs created or modified although an error was reported (exit %d): %r" % (pr.returncode, sorted(set(after) ^ set(before)) or "content/mtime changed"),
                                  dict(rep, impl_output=pr.stderr[-800:], theorem_or_correspondence="errors write nothing / CLI"))
                others = sorted(set(os.listdir(d)) - {"MyType.qml", "mytype.ui", "uisupport_mytype.h"})
                if others:
                    ctx.violation("stray files after a failed run: %r" % others, dict(rep, impl_output=others))
            else:
                if pr.returncode != 0 or any(not os.path.exists(q) for q in outs) or any("OLD CONTENT" in open(q).read() for q in outs):
                    ctx.violation("accepted document: exit %d, outputs %r" % (pr.returncode, sorted(os.listdir(d))), dict(rep, impl_output=pr.stderr[-800:]))
    # several sources in one invocation: an error in ANY of them makes the command exit non-zero, wherever in the list the faulty source stands, and that source's
    # outputs are not created or modified
    dterms, dmeta = [], []
    clean = [docs[i] for i in range(len(docs)) if isinstance(impl[i], dict) and impl[i].get("ui") is not None and not impl[i]["diags"]][:3]
    bad_docs = [fdocs[i] for i in sorted(firsts.values())][:4 if ctx.tier == "thorough" else 2]
    if clean:
        for bi, bad_src in enumerate(bad_docs):
            for oi, order in enumerate((["Bad", "Good"], ["Good", "Bad"], ["Bad", "Good", "Good2"], ["Good", "Bad", "Good2"])):
                d = os.path.join(work, "m%d_%d" % (bi, oi))
                os.makedirs(d)
                texts = {"Bad": bad_src, "Good": clean[0], "Good2": clean[-1]}
                for nme in set(order):
                    open(os.path.join(d, nme + ".qml"), "w").write(texts[nme])
                for q in ("bad.ui", "uisupport_bad.h"):
                    open(os.path.join(d, q), "w").write("OLD CONTENT\n")
                pr = subprocess.run([cli, "generate-ui", "--foreign-types", os.path.join(C.REPO, "contrib", "metatypes")] + [os.path.join(d, nme + ".qml") for nme in order],
                                    capture_output=True, text=True, timeout=120)
                ncli += 1
                ctx.count(("cli-multi", bi, oi), True)
                # K: the loop over the sources vs model/Driver.v -- which sources' outputs exist afterwards, and the exit status
                num = {"Good": 1, "Good2": 2}
                written = [num[nme] for nme in order if nme != "Bad" and os.path.exists(os.path.join(d, nme.lower() + ".ui"))]
                dterms.append((C.coq_list(["HasErrors" if nme == "Bad" else "(Translated %d)" % num[nme] for nme in order]),
                               "(%s, %s)" % (C.coq_list([str(x) for x in written]), "true" if pr.returncode == 0 else "false")))
                dmeta.append(["generate-ui"] + [nme + ".qml" for nme in order])
                rep = {"qml": bad_src, "cli_args": ["generate-ui", "--foreign-types", "contrib/metatypes"] + [nme + ".qml" for nme in order], "other_sources": "accepted documents"}
                if pr.returncode == 0:
                    ctx.violation("the command exits 0 although the source %s of [%s] has an error" % ("Bad.qml", ", ".join(order)), dict(rep, impl_output=pr.stderr[-800:],
                                  theorem_or_correspondence="errors make the command fail / CLI"))
                elif any(open(os.path.join(d, q)).read() != "OLD CONTENT\n" for q in ("bad.ui", "uisupport_bad.h")):
                    ctx.violation("outputs of the faulty source modified (sources [%s])" % ", ".join(order), dict(rep, impl_output=pr.stderr[-800:]))
    shutil.rmtree(work, ignore_errors=True)
    ctx.coverage["cli_runs"] = ncli
    if ctx.model_ok and dterms:
        dh = ("From QV Require Import model.Driver.\nFrom Coq Require Import List Bool Arith NArith.\nImport ListNotations.\n"
              "Definition ln_eqb (a b : list nat) : bool := if list_eq_dec Nat.eq_dec a b then true else false.\n"
              "Definition drv_eqb (m e : list nat * bool) : bool := ln_eqb (fst m) (fst e) && Bool.eqb (snd m) (snd e).\n")
        dbad = C.coq_eval_mismatches("c04drv", dh, dterms, "drv_eqb", "(run_sources nat)", "list (verdict nat) * (list nat * bool)", shard_size=100, scope="nat_scope")
        ctx.coverage["driver_runs_compared_with_model"] = len(dterms)
        if dbad and not ctx.violations:
            ctx.broke("K", "src/main.rs generate_ui (the loop over the sources) vs model/Driver.v", "model and command differ on %d invocations; first: %r observed (written sources, exit 0?) = %s"
                      % (len(dbad), dmeta[dbad[0]], dterms[dbad[0]][1]))
    ctx.sample({"qml": docs[0]})
    ctx.coverage["compared_with_model"] = len(terms)
    ctx.coverage["rule"] = ("documents over 12 widget classes, 4 layouts, spacers, actions; per object 0-6 scalar bindings (constant / dynamic; half of the documents with 12% ill-typed), "
                            "font/geometry/minimumSize/sizePolicy/contentsMargins groups, header maps, the pseudo properties actions/model/columns/flow/separator, handlers, "
                            "QLayout.* and QTabWidget.* attached bindings in every context; non-trivial = at least 6 bindings; plus documents with one planted fault of 7 kinds; "
                            "the real command on a sample with and without pre-existing outputs")
    if not ctx.model_ok:
        return
    bad = C.coq_eval_mismatches("c04", U.HEADER, terms, "doc_eqb", "run_case", U.CASE_TYPE, shard_size=20, scope="string_scope")
    ctx.coverage["disagreements_model"] = len(bad)
    if bad and not ctx.violations:
        j = bad[0]
        mo = C.coq_eval_terms("c04_model", U.HEADER, ["run_case %s" % terms[j][0]], scope="string_scope")
        ctx.broke("K", "uigen (property.rs, object.rs, layout.rs, expr.rs, objcode.rs, binding.rs, mod.rs) vs model/Uigen.v",
                  "model and implementation differ on %d documents; first:\n%s\nmodel=%s\nimpl=%s" % (len(bad), docs[idx[j]], mo[0][:3000], terms[j][1][:3000]))

"""Per-property MANIFEST metadata (tools/gen_manifest.py turns this into MANIFEST.json)."""

CHECKS = {
    "C19": {
        "text": "Proof: for EVERY byte string the model of Color::from_str + the <color> gadget conversion equals an independent "
                "specification of Qt's reading (digit-level #rgb/#argb/#rrggbb/#aarrggbb, independent SVG 1.1 table, case-insensitivity, "
                "alpha 255 for opaque colours, rejection otherwise) -- C19_color_refines and 5 corollaries, closed under the global context. "
                "The keyword table inside the model is re-translated from color.rs on every run; the code of from_str/parse_hex_color is tied by "
                "differential execution (exhaustive 3-digit, thorough: 4-digit; sampled 6/8-digit; all keywords in 4 letter cases; near misses).",
        "technique": "Coq proof of model = Qt-reading spec for all strings; table regenerated from source; model/code tie by differential execution in vm_compute",
        "design_ref": "5 C19",
        "note": "Trusted: Coq kernel + vm_compute; spec/SvgColors.v (typed in independently) and the reading of the hex forms taken from the property; "
                "tools/gen_tables.py anchor patterns; the harness calling Color::from_str; parse_color_value's use of it in the pipeline is covered by the uigen-level checks.",
    },
}

CHECKS["C17"] = {
    "text": "Proof over ALL finite class graphs (model/ClassGraph.v: name map with aliases and non-class names, public/private supers, BFS over "
            "remaining-supers iterators with a visited set and error short-circuit): every query terminates within an explicit fuel bound "
            "(C17_terminates); 'derives' answers true only for reflexive-transitive public inheritance and is exact whenever no reachable class lists an "
            "unresolvable super name (C17_derives_sound/_exact); the full statement is refuted on the faithful model by the F13 witness "
            "(C17_derives_refuted, known finding); lookups return a declaration of a reachable class, the class's own first, and miss nothing "
            "(C17_lookup_*, C17_property_lookup); common base is an ancestor-or-self of both; a variant resolves to an unscoped enum listing it; the method "
            "table's binary search equals a stable filter. The model is tied to typemap/*.rs by differential execution of 6 query kinds on generated graphs "
            "(diamonds, cycles, self-inheritance, dangling, aliases), and every implementation answer is also judged by an independent reachability oracle.",
    "technique": "Coq proofs (induction on fuel with closure invariant; measure-based termination) about a hand-written model; model/code tie by differential execution in vm_compute; oracle search",
    "design_ref": "5 C17",
    "note": "Trusted: Coq kernel; harness/src/typemap.rs; names are unscoped and live in one module namespace (scoped names '::', several modules/imports and "
            "QML components are outside the model and covered by C18's check); the Python reachability oracle is used for search only. Known finding F13 listed in known_findings.json.",
}

CHECKS["C12"] = {
    "text": "Proof for EVERY child sequence, both flows and all counts > 0: the index counter of layout.rs (with its `%` arithmetic) places each child "
            "in the cell given by the documented flow rule (C12_flow, spec/LayoutSpec.v; closed form C12_auto_closed_form); the grid/form/box passes never "
            "cast a negative index to usize (no Panic), copy spans, and build each per-index array as 'first value attached at that index', with one "
            "'mismatched' diagnostic per later different value (C12_grid, C12_box, C12_conflict_diagnosed, C12_range_diagnosed). The full array statement is "
            "REFUTED for rowMinimumHeight (recorded at the column index: C12_arrays_refuted, known finding F1, pinned by the repository's own snapshot) and proved for the "
            "other three arrays and for on-diagonal carriers (C12_three_arrays, C12_arrays_except). Which of row/column indexes each array and MAX_INDEX/MAX_COUNT are "
            "re-translated from layout.rs on every run; the rest of the model is tied by differential execution through the real pipeline (QML -> .ui), including an "
            "exhaustive sweep of short child sequences.",
    "technique": "Coq proofs (induction over children with array-agreement invariant; div/mod lemmas) + translator for index variables/constants + differential execution through the real pipeline",
    "design_ref": "5 C12",
    "note": "Trusted: Coq kernel; tools/gen_tables.py anchors in layout.rs; harness uigen + xml.etree; attached values are integer literals (their evaluation is C03's subject); "
            "alignment is copied verbatim and only checked by K at the level of presence. i32 overflow of the cursor needs > 2^31 children and is not modelled.",
}

CHECKS["C10"] = {
    "text": "Proof of the FULL statement for every object tree (after the repair of F4, /repo commit d5c3335): with pairwise distinct ids, naming always "
            "succeeds (the free-name search terminates: pigeonhole over injective decimal suffixes), all names are pairwise distinct, ids are used verbatim and "
            "generated names (class-derived prefix + decimal counter) differ from every id (C10_unique); duplicate ids are diagnosed exactly when they exist "
            "(C10_dup_id_rejected); a reference spelled with an id denotes exactly one declared name, the object carrying that id (C10_reference_denotes_exactly_one_object); the same generator serves header function names (C10_generate). Tie: names in the real .ui (objects identified by a marker "
            "property) vs the model on generated trees with adversarial ids/classes; the real output is additionally judged directly: names pairwise distinct, "
            "ids verbatim, every <addaction> reference denotes exactly one declared object.",
    "technique": "Coq proof (pigeonhole + injectivity of decimal printing from DecimalString/DecimalNat; induction over the flattened tree); differential execution through the real pipeline",
    "design_ref": "5 C10",
    "note": "Trusted: Coq kernel and stdlib decimal-string lemmas; harness uigen + xml.etree; class names are single identifiers (no '::'); ui_->name references in the "
            "support header are examined by C16's check. F4 was a genuine defect, repaired by a fix: commit; the check reports it again on the unrepaired code.",
}

CHECKS["C06"] = {
    "text": "Proof that the boolean checker cfg_ok (jump targets exist; every block reachable from the entry ends in a jump or return; reachable returns all "
            "void or all non-void; every non-parameter local is assigned on every path before it is read) is SOUND for the all-paths statement of the "
            "property (C06_checker_sound, C06_returns: induction over execution paths against verified reachable/must-assigned candidates). The checker is then "
            "evaluated inside Coq on the IR of every accepted program of the run -- per-program translation validation of the real output, since the same run "
            "establishes token-for-token equality of the model's IR and tir::build's IR (and where they differ the checker runs on the implementation's IR). "
            "Programs: every switch skeleton with <= 2 (thorough 3) clauses x default position x clause bodies, if/else x tails, plus type-directed generated "
            "bindings and callbacks. Proved for ALL programs, class environments and builder states (C06_builder_frame, by induction over the whole model of "
            "typedexpr.rs + tir/builder.rs): the translator never renumbers or retypes a local, never removes a block and never touches a block that has its "
            "terminator -- a jump once written keeps its meaning; and the first clause of the property itself: in every body the model of tir::build produces, "
            "every br / br_cond names an existing block and no br names its own block (C06_jump_targets_exist); and the first half of the second clause: EVERY block of "
            "every body has its terminator -- control never runs off the end (C06_every_block_terminated, by counting open blocks through the whole translator: each "
            "construct closes exactly the labels it marked, so a successful walk leaves the current block as the only open one, C06_walk_leaves_one_open_block, and the "
            "final pass closes it). The third clause at the level of return statements, for any code: when resolve_return_type gives the body a type, every return carries a "
            "value assignable to it -- a value body has no bare `return`, a void body returns no value (C06_every_return_fits_the_return_type, "
            "C06_value_body_has_no_bare_return). The second half of the second clause for ALL programs: a block ending in the unreachable marker is not the entry and no block jumps to it, so no path "
            "from the entry ends in the marker (C06_unreachable_marker_is_isolated, C06_no_path_ends_in_the_unreachable_marker: the translator never writes the marker, "
            "the final pass isolates every block it marks). With the above: every path from the entry runs through blocks that end in a jump to an existing block or in a "
            "return that fits the return type. What remains per program (cfg_ok evaluated on every program of a run; C06_builder_ok_full stated, not proved): "
            "define-before-use of temporaries. Two genuine defects found by this "
            "check were repaired by fix: commits (F2/F14, F18).",
    "technique": "Coq soundness proof of a CFG/dataflow checker + per-program evaluation of the verified checker on the real IR (translation validation) + differential execution model/code",
    "design_ref": "5 C06",
    "note": "Trusted: Coq kernel, vm_compute; harness `vh tir` and its JSON dump, vlib/tirtok.py; the synthetic environment E0. Not covered by a theorem: that EVERY "
            "program passes the checker (only the programs of each run are validated). The printed C++ (uigen/binding.rs) is tied to the IR by C16/C01's checks.",
}

CHECKS["C07"] = {
    "text": "Partial by nature (DESIGN.md section 8). Proved: the translator model (typedexpr.rs walk / walk_callback / walk_stmt / walk_expr driving every "
            "tir/builder.rs visitor) NEVER PANICS: for every class environment and every binding or handler -- any nesting of ?:, &&, ||, calls, casts, blocks, "
            "declarations, if / else, switch with multi-block case labels, default anywhere, fall-through, break and return -- no assert, index or unwrap of "
            "those files fires (C07_translator_never_panics, from C07_expressions_never_panic and C07_statements_never_panic: the region invariant of the "
            "positional block numbering, by induction over programs through the builder's state monad; the only hypothesis is that a default clause sits at "
            "a position the parser can produce), and neither does what follows in tir::build (finalize_completion_values: its asserts, index and work-list, "
            "each block patched at most once): bu_panic (build_callback E cb) = None for every environment and callback (C07_build_never_panics). The model is tied to the code by this check's Ok / Err / Panic prediction on generated programs. Also "
            "proved: the constant interpreter terminates on every code body (C07_interp_total); the other modelled "
            "passes carry their own totality theorems (C17_terminates, C12_grid/C12_box: no negative index, C10_unique: the name search always succeeds). "
            "Checked against the code on every run: the model's Ok / Err / Panic prediction for tir::build* equals the implementation's on generated programs "
            "and single-edit mutants (so a new panic in the expression layer breaks the correspondence with the program as the replay). Searched, not proved: "
            "the repository's example and test documents, token-level and semantic mutants of them, token soup and hand-written corner cases, in all three "
            "dynamic-binding modes under catch_unwind and a time limit (no panic, no hang, every diagnostic / label / syntax-error range inside the text on char "
            "boundaries, output or at least one error), and the CLI on a sample (exit status 0 or 1). Three genuine panics found this way were repaired (F3, F14, F18).",
    "technique": "Coq termination theorems for the modelled passes + differential Ok/Err/Panic prediction of the expression-layer model + mutation search over documents and the CLI",
    "design_ref": "5 C07, 8",
    "note": "Trusted / outside the model: tree-sitter and the CST->AST layer on error-recovery trees, codespan rendering (the CLI leg only observes the exit status), "
            "allocation failure, stack depth. The general 'never panics' statement over the whole pipeline is not a theorem; the builder's no-panic invariant is an open T2 obligation.",
}

CHECKS["C03"] = {
    "text": "Proofs (all closed under the global context): the operator tables of the model are the tables of the source -- gen/GenOps.v is TRANSLATED on every run, arm by arm, from "
            "opcode.rs (TryFrom<UnaryOperator/BinaryOperator>) and qmlast/expr.rs (from_node) and the model's lowering is proved equal to it (C03_operators_lowered_as_in_the_source); "
            "the source refuses exactly >>> ** ?? instanceof in typeof void delete (C03_refused_operators) and conflates no two operators but the strict comparisons with "
            "their loose twins (C03_lowering_conflates_only_strict_twins, C03_unary_lowering_injective); constant folding of + - * / % returns the EXACT integer result or rejects, never another "
            "value -- division/modulo by zero and 64-bit overflow are rejected, the only over-rejection being MIN % -1 (C03_fold_arith); a << b is accepted "
            "exactly when a*2^b is representable and then equals it (C03_fold_shl, after the repair of F5), a >> b is floor(a/2^b), negative or huge shift "
            "counts are rejected; unary minus, comparisons; an accepted integer literal denotes the mathematical value of its digit string in its radix "
            "(C03_integer_literal), integer-vs-float classification (C03_number_classification); exactly the ES single-character escapes are decoded, to the ES "
            "values, \\xHH is 16*H1+H0, code point escapes are accepted exactly for Unicode scalar values. Tie to the code: number spellings by the ES grammar and "
            "string bodies over every escape form go through the real parser and are compared with model/Literal.v (decimal->binary64 by exact rational "
            "rounding, bit for bit against Rust), the operator x sign x magnitude matrix of constant expressions through tir::build + evaluate_code against "
            "model/Ceval.v, both also judged by independent Python oracles; constant bindings in documents are read back from the real .ui with an XML parser.",
    "technique": "Coq proofs about the folding and literal-decoding models; differential execution (literal enumeration, boundary matrix) against the real parser/builder/interpreter; read-back of the .ui",
    "design_ref": "5 C03",
    "note": "Trusted: SpecFloat's rounding (Flocq's definition) for decimal->binary64, compared bit-for-bit with Rust's parser; Rust's Display for f64 (checked by read-back only); "
            "tree-sitter's literal token rules (lexer rejections are counted, not modelled). F5 repaired by a fix: commit. Folded string comparison uses code-point order (F11) -- "
            "differs from UTF-16 order only for non-BMP vs U+E000..U+FFFF; not judged here.",
}

CHECKS["C05"] = {
    "text": "Proofs (closed under the global context): every typing DECISION of the builder equals the declarative tables of spec/Typing.v (docs/language.md): "
            "binary operators on run-time operands are accepted exactly when the table assigns a type, which is the result type (C05_binary + "
            "C05_binary_is_the_check), likewise unary operators; is_assignable = spec_assignable (no implicit conversion other than literal class -> concrete "
            "type, enum alias, object upcast); `as` is accepted exactly for the documented casts (C05_cast); deduce_concrete_type = the one common type "
            "(C05_common_type); the constant-folding path admits operand types exactly when the run-time path does, what it rejects beyond that are value "
            "errors (C05_const_dyn_agree; only exception null == null). WHOLE EXPRESSIONS of the fragment literals / locals / objects by id / this / property reads o.p / subscripts o[i] / casts / unary / binary incl. && || / ?: / list expressions / method calls / "
            "Math.max,min / qsTr / console.* / assignments to variables, properties and list elements, in any nesting: whatever the translator accepts has a derivation in the declarative relation Typed built from those tables, with the returned operand's type "
            "(C05_accepted_expressions_are_typed, induction over expressions through the builder monad; contrapositive C05_ill_typed_expressions_are_rejected). "
            "WHOLE PROGRAMS on the generated code (C05_generated_code_is_typed, for every class environment and every binding / handler, statements included, no fragment): "
            "every statement of the code the model of tir::build* produces is typed by the tables -- operators only on operand types with a row, results in a temporary "
            "of the row's type, copies / property writes / element writes / call arguments assignable, casts documented, subscripts list[integer], one common list element "
            "type, branch conditions bool; the invariant is carried through every visitor and walker of the translator (proofs/IrTyped.v). "
            "Other programs are decided one by one: the real tir::build* against the model on the "
            "EXHAUSTIVE operator table (25 binary operators x 28 x 28 operand representatives, unary, 16 cast targets, Math.max/min, ternary, conditions, "
            "declarations, assignments, call arguments, subscripts, arrays -- quick tier: all small families plus a seeded 6000 of the binary/Math cells) and on "
            "generated programs with single-edit mutants; the specification's verdict is compared with the implementation's accept/reject on every table program.",
    "technique": "Coq proofs that each typing decision equals a declarative table + exhaustive differential execution over the operator/operand-type table + spec verdict oracle",
    "design_ref": "5 C05",
    "note": "Trusted: harness `vh tir` over the synthetic environment E0 (resolution errors of the type map are C17's subject), vlib/tirtok.py. NOT proved: the whole-program statement beyond the "
            "expression fragment above as DERIVATIONS (calls of implicit this-methods, function literals; statements -- these are covered by the code-level theorem), and the converse direction (well typed => accepted, which also "
            "needs the value conditions of the folder); callback-parameter compatibility with the signal is proved as C05_callback_parameters_fit_the_signal (model/Callback.v) and compared with the code under C13.",
}

CHECKS["C09"] = {
    "text": "Proofs about the text channel: for EVERY string of characters XML 1.0 can carry, what an XML processor (model of character-data reading: end-of-line "
            "normalisation, predefined entities, numeric references, production Char) reads back from the text uigen writes is the source string (C09_roundtrip, "
            "after the repair of F6); quick-xml's own escape round-trips exactly the strings without CR (C09_escape_roundtrip, refuted with CR = finding F6); every "
            "written character is an XML Char iff every source character is, and a string with any other character cannot be carried at all "
            "(C09_non_xml_char_ill_formed) -- such strings are now diagnosed (repair of F17); the same round trip for ATTRIBUTE values (icon theme names) "
            "under attribute-value normalisation (C09_attribute_roundtrip, after the repair of F23; refuted for quick-xml's own attribute escaping). Tie and "
            "validation: the bytes of <string> elements and of theme attributes in real .ui files vs the model over strings of all character classes, each string "
            "bound to the 12 places a source string can reach; every .ui of generated documents, of the repository's example/test documents and of their mutants "
            "is parsed with expat and checked against the Designer form grammar table (root/ class/ one root widget, nesting, exactly one value element per property, "
            "no duplicate property names), and strings are read back and compared with the source.",
    "technique": "Coq proof of the escape/read-back round trip for all XML-Char strings + byte-level differential check of written text + expat/grammar validation of real outputs",
    "design_ref": "5 C09",
    "note": "Trusted: expat as XML processor; the form grammar table (subset of Qt's ui4 format that qmluic writes) in vlib/c09.py; the element structure is validated per "
            "output, not proved (no Gallina model of UiForm serialisation yet). F6 and F17 were genuine defects, repaired by fix: commits.",
}

CHECKS["C11"] = {
    "text": "Proofs (closed under the global context) about the model of UiObject::build / LayoutItemContent::build / Widget::build: for EVERY document whose objects "
            "are placed where their kind is accepted, the elements of the form enumerate every object exactly once and in document order, nested in the element of "
            "their parent (C11_every_object_once_in_order, C11_subtree_names, C11_widget_children_in_order, C11_layout_items_in_order); a static separator has no "
            "element of its own; the <addaction> list is the action-like children in declaration order, or the explicit `actions:` list exactly as written "
            "(C11_addactions_in_order, C11_explicit_actions_as_written); well-placed documents raise no placement diagnostic (C11_well_placed_no_error); the flat pre-order vector with child indices built by flatten "
            "(ObjectTree's storage) represents the source tree: every node's entry lists exactly its children's entries, in order (C11_flat_vector_represents_tree). Tie: the "
            "element tree of the real .ui and the placement diagnostics (kind, object, order) vs the model's form_of on generated object trees of every kind, one "
            "third with misplaced kinds. Independent oracle on the real output: a parallel walk of the source tree and the .ui (class, name, marker property, "
            "<item> wrapping, sibling order, <addaction> list, object count).",
    "technique": "Coq proof by tree induction over a model of the element-kind dispatch + differential execution of the model against the real .ui element tree + parallel-walk oracle",
    "design_ref": "5 C11",
    "note": "Trusted: harness uigen + xml.etree; the kind of a class (widget/layout/...) comes from the class graph (C17); names of id-less objects predicted by a port of the "
            "naming rule (C10's subject). Per-item attributes (row/column, tab titles) are C12's/C14's subject, not compared here.",
}

CHECKS["C04"] = {
    "text": "Proofs (closed under the global context) over model/Uigen.v, the routing of every binding of an object to the pass that owns it (make_serializable_map / "
            "make_value_map with the pseudo-property lists regenerated from object.rs and layout.rs by the translator, the special consumers, SerializableValue::build, "
            "is_evaluated_constant, UiSupportCode::build, CxxEvalGadgetMapFunction, CxxUpdateBinding, the left-over attached bindings): the form, the header and the "
            "diagnostics consist EXACTLY of the per-binding fates (C04_form_is_the_placed_bindings, C04_header_is_the_dynamic_bindings, "
            "C04_diagnostics_are_the_binding_diagnostics); in an accepted document no binding has a diagnostic and every scalar binding is in exactly one of "
            "{form, header} (C04_scalar_exactly_one); constant members of a grouped value are in the form and, when a sibling is dynamic, every member is set in the "
            "header (C04_gadget_members_placed); whatever the object kind, property and outcome, a binding placed in neither output is diagnosed "
            "(C04_never_in_neither). Tie: per object, the properties in the real .ui, the bindings/members/callbacks of the real header and the diagnostics attributed "
            "by byte range vs the model, on generated documents with labelled bindings. Oracle without the model: exactly-one on accepted documents; planted "
            "unknown/duplicated/unsupported bindings are diagnosed inside their text; the real command exits 1 and creates/modifies no output on error. "
            "The loop of the command over its source arguments is model/Driver.v, with theorems for EVERY list of sources: the exit status is 0 exactly when no source has "
            "errors, an error in any position fails the command, nothing of the faulty source or of a later one is written, accepted sources are all written "
            "(C04_exit_status_zero_iff_no_source_has_errors, C04_an_error_in_any_source_fails_the_command, C04_nothing_is_written_from_the_faulty_source_on, "
            "C04_accepted_sources_are_all_written); composed with the writer of model/FsModel.v: at every moment of a run in which a source has errors, every path that is "
            "not an output of a source in front of it -- the faulty source's .ui and header among them -- holds what it held before (C04_errors_write_nothing_on_disk); compared with the real command on invocations naming a faulty source first / in the middle / last among accepted ones; "
            "Diagnostics::has_error() is checked against the listed diagnostics on every harness result.",
    "technique": "Coq proof over a model of the binding routing (name lists regenerated from source) + per-binding differential check against real .ui/header/diagnostics + exactly-one oracle + CLI run",
    "design_ref": "5 C04",
    "note": "Trusted: the generator's labels of bindings (a wrong label is a K disagreement), diagnostic attribution by byte range, message classes. The expression layer "
            "is abstracted to its outcome. 'Errors write nothing' is tested on the real command (src/main.rs), not proved. Grouped values nested deeper than one level "
            "(palette) are outside the model.",
}

CHECKS["C14"] = {
    "text": "Proofs (closed under the global context) over model/Uigen.v with the mode as a parameter: the form and the consumed attached bindings of every object are "
            "the same under generate, reject and omit (C14_form_mode_free); a document is accepted in reject mode exactly when it is accepted in generate mode with a "
            "header holding no binding and no callback (C14_reject_iff: uses that the C++ pass never drops a dynamic binding silently); every error of the omit mode "
            "is an error of the other two (C14_omit_subset); a header in generate mode only and no binding/callback code otherwise (C14_header_only_in_generate, "
            "C14_no_code_outside_generate). Tie: the real pipeline in the three modes vs the model, per object. Relations checked directly on the real outputs (no "
            "model): .ui bytes identical across modes; accepted(reject) <=> accepted(generate) and setup() empty; errors(omit) sub-multiset of errors(generate), "
            "errors(reject); header presence -- on generated documents, the repository's example/test documents and their mutants.",
    "technique": "Coq proof over a mode-parametric model of the passes + three-mode differential check against the model + cross-mode relational oracle on real outputs",
    "design_ref": "5 C14",
    "note": "Trusted: harness uigen for the three DynamicBindingHandling values; the command line is exercised by one leg only (edit histories of one source in one output directory: "
            "accepted by --no-dynamic-binding exactly when the header generate mode leaves on disk sets up nothing; a header in generate mode only); the preview command is not run.",
}

CHECKS["C08"] = {
    "text": "Proofs (closed under the global context) over model/Uigen.v, where every binding map is a list in an ARBITRARY order (the hash order): for any two orders "
            "of the properties, callbacks and attached bindings of an object with distinct names, the form, the consumed attached bindings, the header bindings and "
            "callbacks are EQUAL and the diagnostics are a permutation of each other (C08_order_irrelevant, lifted to documents by C08_doc_order_irrelevant); the key "
            "lemma -- a list sorted by distinct keys is determined by its elements (C08_sorted_output_unique, via commuting insertions); the same for the members of a "
            "grouped / gadget value listed in any order (C08_members_order_irrelevant); nothing survives from one "
            "document to the next (C08_history_free). Tie: the model vs the real outputs on the wide documents. On the implementation itself: every document is "
            "translated R times (R=10 quick, 30 thorough), each round in a different order and spread over fresh processes; .ui bytes, header bytes and the multiset "
            "of diagnostics (message, kind, range, labels) must coincide -- wide generated documents (up to 9 properties, 5 group members, 3 handlers per object), "
            "documents with many errors, the repository's example/test documents (palettes, string lists) and mutants, in the three modes.",
    "technique": "Coq proof of order-irrelevance for all permutations of the modelled maps + model/implementation differential check + repeated-run byte comparison across processes",
    "design_ref": "5 C08",
    "note": "The real hasher is sampled, not enumerated: the theorem covers all orders of the MODELLED maps; a forgotten sort in code outside the model (palette roles, "
            "gadget attributes, includes) is caught only by the repeated runs. The CLI's write-only-if-changed is C15's subject.",
}

CHECKS["C20"] = {
    "text": "Proofs (closed under the global context) over model/Recovery.v (ObjectCodeMap::build's per-binding recovery, build_binding_map's all-or-nothing maps, "
            "populate_node_rec's filter_map over children, the form returned whenever the root resolves): a binding whose build fails is dropped ALONE -- the preview is "
            "exactly the preview of the document without it, its error is reported and no other error is lost (C20_binding_fault_local); a duplicated binding empties "
            "the property map of that object and touches nothing else (C20_duplicate_loses_only_own); an object whose type does not resolve is absent with exactly its "
            "subtree, wherever it stands, siblings kept (C20_subtree_absent, C20_unresolved_subtrees_absent); a form exists whenever the root resolves "
            "(C20_form_exists); losing the attached map of a child as a whole moves the cells of its following siblings (C20_attached_loss_moves_siblings_refuted, "
            "the mechanism of F15). Decision on the real code: two runs of the real pipeline in omit mode per fault position -- form(document with fault) vs "
            "form(document without the faulty binding / subtree), compared as element trees after the erasure fixed in props/C20.v (generated names of anonymous "
            "objects abstracted); errors must be reported; 10 fault kinds at random objects of generated documents.",
    "technique": "Coq proof over a model of the recovery mechanisms + two-run relational check of the real preview form for every planted fault",
    "design_ref": "5 C20",
    "note": "Trusted: the erasure implemented in vlib/c20.py as stated in props/C20.v; faults that are syntax errors (tree-sitter recovery) are outside (C07 covers totality). "
            "The theorems are about the mechanism; the relation on real forms is decided per fault by the two-run comparison.",
}

CHECKS["C15"] = {
    "text": "Proofs (closed under the global context) over model/FsModel.v (camino component lists; join / with_file_name; the component filter of generate_ui; the "
            "compare-then-write and temp-file + rename sequence of generate_ui_file / with_output_file as an operation list over a finite-map file system): with an output "
            "directory both outputs of every accepted source are STRICTLY BELOW it (C15_confined) and absolute or parent-escaping sources are refused "
            "(C15_unsafe_source_refused); names follow the file name rule next to the source (C15_names); re-running on unchanged inputs requests no operation "
            "(C15_rerun_is_silent); for EVERY prefix of the operation sequence of a run (= every crash point) each output path holds its complete old or complete new "
            "content (C15_atomic) and no other path changes (C15_only_outputs_touched). Tie: the real command in scratch trees on source-path shapes x output "
            "directories x options: accepted/refused and the set of created files vs the model (evaluated in Coq on the same component lists). On the real command: "
            "inode+mtime unchanged on re-run; edit/regenerate sequences rewrite exactly the outputs whose bytes change; strace -- output paths are only rename targets, "
            "no write-type system call outside the output location; kill by fault injection at system-call index N -- outputs old or new, never torn.",
    "technique": "Coq proof over a path/file-operation model (all crash points = all prefixes) + command-level differential check + strace observation and kill-point injection",
    "design_ref": "5 C15",
    "note": "Trusted: POSIX rename atomicity, the tempfile crate, strace. The theorem is about the operations the code requests; the kill test samples system-call "
            "boundaries of the real process (all of them in the thorough tier). cmake/QmluicMacros.cmake is not exercised (no cmake project build here).",
}

CHECKS["C18"] = {
    "text": "Proofs (closed under the global context) over model/Modules.v (the directory work-list of qmldir.rs populate_directories with its visited check; the custom "
            "widget collection of uigen/form.rs): the directories registered are EXACTLY the import-reachability closure of the sources' directories "
            "(C18_discovery_exact: soundness by induction over the work-list, completeness by the closed-up-to-pending invariant), hence the same for every order and "
            "multiplicity of the source arguments (C18_discovery_order_independent); each directory is registered once (C18_discovery_registers_each_directory_once) and what is discovered for sources named together is exactly the union of what each discovers alone (C18_discovery_of_sources_named_together); discovery terminates on every layout, mutually importing directories included "
            "-- the fuel |dirs|*(maxout+2)+|sources|+1 always suffices (C18_discovery_terminates, measure: unvisited*(maxout+2)+|pending|); each custom class "
            "instantiated in a document is listed exactly once when its super class resolves (C18_customwidgets_once). Tie: the set of directory modules the real "
            "populate_directories registers vs the model on the import graph of generated layouts. On the real pipeline: normal termination on cyclic imports and "
            "mutually inheriting components; per source, identical .ui and diagnostics for every order of the source arguments; <customwidgets> = each "
            "instantiated component once with class, extends = class of its own root object, header by the file-name rule; instances accept base-class properties; "
            "unresolvable/cyclic super classes are diagnosed.",
    "technique": "Coq proof of exactness, order-independence and termination of the directory work-list + differential check of the visited set + multi-order runs of the real pipeline",
    "design_ref": "5 C18",
    "note": "Trusted: harness `vh project`; read_dir order and case-insensitive file systems are not explored; component names are kept globally unique by the generator. "
            "Property lookup through the component's base class is C17's subject (class graph).",
}

CHECKS["C16"] = {
    "text": "Proofs (closed under the global context) over model/Header.v: the function-name suffixes of all bindings, gadget members and callbacks of a document come from "
            "one UniqueNameGenerator and are pairwise distinct whatever the object ids and property names (C16_suffixes_distinct/_total, reusing C10's generator "
            "lemmas), hence setupX/updateX/evalX are each defined once (C16_function_names_distinct); each binding has its own index, its guard word index>>5 lies inside "
            "bindingGuard_[ceil(n/32)], the array is never zero-sized, two bindings never share a guard bit (C16_indices_distinct, C16_guard_covers, C16_guard_nonempty, "
            "C16_guard_bits_distinct); for EVERY source string the literal written into the header is read by a C++17 lexer (model of [lex.ccon]) as exactly that string "
            "(C16_literal_denotes_source, after the repair of F9; observer slots: the observations inserted by the dependency analysis use exactly the handles "
            "c_nobs(before)..c_nobs(after)-1, each once (C16_observer_slots), so the declared array covers every observed[k]; the previous Rust-Debug spelling is refuted: C16_rust_debug_refuted). Decision of 'valid C++' on the "
            "real output: every emitted header is compiled with g++ -std=c++17 -fsyntax-only against API declarations generated from the same class table, and scanned "
            "(functions defined once and every call resolves, index/guard/observer array sizes, includes, literals decoded and compared with the source strings); the "
            "speller of the model is compared with the literals of the real headers.",
    "technique": "Coq proofs of the self-consistency clauses and of the literal speller/lexer round trip + g++ -fsyntax-only of every emitted header against generated API declarations + token scan",
    "design_ref": "5 C16",
    "note": "g++ 12 decides 'valid C++'; the API declarations come from vlib/e0.py (the table the metatypes are generated from) over the hand-written runtime cxxrt/qtmock.h. "
            "Observer-array bounds are scanned per header, not proved (no theorem about propdep's counter yet). F9 repaired by a fix: commit; F7/F8 see known findings.",
}

CHECKS["C01"] = {
    "text": "The property itself is decided per program and world, on the real output: the evaluation function emitted by uigen for a generated binding program is compiled "
            "(g++ -std=c++17 with -fsanitize=address,undefined) against the API model and executed in worlds of the referenced objects; its value is compared with the "
            "value model/Sem.v (a big-step evaluator of the AST in an object world, written from docs/language.md: 32-bit int with undefined overflow, wrapping uint, "
            "truncating / and %, IEEE-754 doubles (SpecFloat: total + - * /, unordered NaN, truncating casts), lazy && || ?:, if/else, switch with fall-through / break / "
            "default anywhere, let/const scoping, return; integer literal sub-expressions in Z) gives to the source program in the same world, whenever that value is defined. Proofs (closed under the global context) fix the reference semantics "
            "on the points the statement names: int arithmetic is exact and in range or undefined, uint wraps, division by zero / INT_MIN % -1 / bad shifts / null "
            "dereference are undefined, && || ?: are lazy, translation-time folding agrees with the run-time meaning on literals (+ - * / % & | ^); let/const scoping -- "
            "after any statement that is not a declaration exactly the variables visible before are visible again (C01_partial_semantics_scope), and in the model of "
            "the translator (typedexpr.rs walk_stmt) the name table after such a statement is the one before it (C01_partial_translator_scope; finding F21 was the "
            "code violating it for switch clauses); evaluating an expression changes no property of any object (C01_partial_evaluation_changes_no_property). NOT proved: the general statement "
            "(compile correctness for all programs and worlds) -- an open obligation; every theorem of this property is named C01_partial_*.",
    "technique": "executable Coq reference semantics with partial proofs + differential execution of the real emitted C++ (g++, ASan/UBSan) against it over generated programs and worlds",
    "design_ref": "5 C01",
    "note": "PARTIAL: the unbounded claim (all programs x all worlds) is not a theorem. Trusted: g++, the API model (cxxrt/qtmock.h + vlib/cxx.py), Sem.v as the reading of "
            "docs/language.md; programs are generated inside the fragment Sem.v covers (bool/int/uint/double/QString/VObj*: doubles are IEEE-754 binary64 through Coq's SpecFloat, with NaN, infinities and signed zeros in the worlds; no enum, list, variant arithmetic -- those "
            "types are exercised for validity under C16 and for typing under C05). IR equality model/implementation is established by C05/C06/C07's K legs.",
}

CHECKS["C13"] = {
    "text": "The property itself is decided per handler, argument values and world, on the real output: the support header emitted for generated on<Signal> handlers is "
            "compiled against the API model; after setup() the signal is EMITTED on the declaring object and the trace of property writes, method calls and log calls "
            "(with argument values, in order) plus the final state of all objects is compared with model/Sem.v's run of the handler's source in the same world with the "
            "declared parameters bound to the leading signal arguments, whenever that run is defined. Also checked on the header: exactly one connection per handler, "
            "to that signal of the declaring object, the default-argument variants collapsing to the overload carrying the most arguments; and the rejections "
            "(overloaded signal, non-signal, too many / ill-typed parameters, unknown signal). Proofs (closed under the global context) fix the reference semantics: "
            "effects are recorded in source order and nothing else (for EVERY statement the trace only grows, and in a block the effects of the first statement lie "
            "below those of the following ones: C13_partial_trace_only_grows, C13_partial_block_effects_in_source_order), the k-th declared parameter is the k-th "
            "argument of the emission for any number of parameters and arguments (C13_partial_parameters_general), an early return stops the handler. WHICH signal is connected "
            "is proved for every set of metatype entries of one name over model/Overload.v (uigen/objcode.rs uniquify_methods): a connection is made only to a signal of which every "
            "other entry is a default-argument variant, it is the entry carrying the most arguments, a set holding two entries neither of which extends the other is refused "
            "however many entries it has, and nothing else is refused as ambiguous (C13_connected_signal_is_the_declared_one, C13_connected_variant_carries_most_arguments, "
            "C13_ambiguous_overloads_are_rejected, C13_default_argument_variants_collapse); the model is compared with the real code on generated entry sets (1-5 entries of the "
            "three kinds, in every order) declared through a generated metatypes file, with an independent S oracle on the QOverload<> of the header. The two other steps of the "
            "wiring are modelled in model/Callback.v and proved for all inputs: the handler NAME denotes exactly the signal <small><rest> for on<Capital><rest> and nothing otherwise, "
            "injectively, every small-letter signal having its handler (C13_handler_name_denotes_one_signal, C13_handler_names_are_injective, C13_every_small_signal_has_its_handler; "
            "K on the public function qtname::callback_to_signal_name over byte strings of every shape); the declared PARAMETERS are accepted exactly when there are no more of them "
            "than signal arguments and the k-th argument is assignable to the k-th parameter in the sense of spec/Typing.v (C13_parameters_accepted_iff_leading_arguments_fit, "
            "C13_too_many_parameters_are_refused; K and an independent S rule on handlers over a generated class whose signals carry argument lists over 15 types). NOT proved: the general "
            "statement about the EFFECTS for all handlers -- an open obligation; those theorems are named C13_partial_*.",
    "technique": "executable Coq reference semantics with partial proofs + execution of the real emitted C++ (signal emission against the API model) compared with it + header scan for the wiring",
    "design_ref": "5 C13",
    "note": "PARTIAL: decided per generated handler. Trusted: g++, the API model, Sem.v. Evaluation order (receiver before arguments, target before value) follows ECMAScript in "
            "Sem.v; see known findings for F16.",
}

CHECKS["C02"] = {
    "text": "Proof (closed under the global context), over an abstract world of (object, property) keys: a binding whose evaluation depends only on the keys it reads (frame) "
            "and which, after evaluating, is connected to every key it read (coverage: static connections plus re-connected observer slots) equals the value of its "
            "expression after setup() and after EVERY finite history of changes with notify -- re-pointing and nulling of intermediate pointers included, since they only "
            "change the read set (C02_stays_current, invariant Current /\\ nothing-read-changed-unobserved by induction over the history); without coverage a binding goes stale "
            "(C02_stale_without_coverage_refuted). COVERAGE is proved at the level of the IR for the model of tir/propdep.rs (model/Passes.v, tied to the implementation "
            "token by token by the K legs of C05/C06/C07): after the dependency analysis, in every block every read of a non-constant property through a pointer is a "
            "static dependency or is immediately preceded by the observation of that local with that notify signal (C02_dependency_complete_ir); the 'unobservable property' diagnostic is raised exactly when some block reads through a pointer a non-constant property without notify signal (C02_unobservable_reads_are_diagnosed); the same coverage "
            "predicate runs as a checker on the implementation's own analysed IR of generated programs, and that checker is proved to decide the predicate "
            "(signals up to class, name and argument types: C02_ir_checker_sound). That the real generated C++ has frame and coverage is NOT proved: the property itself is decided on the real output "
            "per binding and history -- the support header is compiled against the API model (setters emit notify on change, connect/disconnect dispatch), setup() is "
            "run, a random history of changes (boundary values, re-pointing incl. cycles, nulling, no-op changes) is applied through the setters and after setup and "
            "after every step each target is compared with model/Sem.v's value of the source expression in the current world. Reads of non-constant properties without "
            "notify must be rejected ('unobservable property'), constant ones accepted.",
    "technique": "Coq proof of the currency invariant for all histories from frame + coverage (abstract signal model) + execution of real support headers on random histories against the reference semantics",
    "design_ref": "5 C02",
    "note": "PARTIAL with respect to the real code: frame and coverage of the generated code are tested, not proved (a model of propdep.rs exists in model/Passes.v and is tied "
            "to the implementation by the K legs of C05-C07, but no theorem links it to Signals.v yet). Object deletion, queued connections and method results depending "
            "on unobserved state are outside the property.",
}

NOT_YET = {
}

"""Per-property MANIFEST metadata (tools/gen_manifest.py turns this into MANIFEST.json)."""

CHECKS = {
    "C19": {
        "text": "Proof: for EVERY byte string the model of Color::from_str + the <color> gadget conversion equals an independent "
                "specification of Qt's reading (digit-level #rgb/#argb/#rrggbb/#aarrggbb, independent SVG 1.1 table, case-insensitivity, "
                "alpha 255 for opaque colours, rejection otherwise) -- C19_color_refines and 5 corollaries, closed under the global context. "
                "The keyword table inside the model is re-translated from color.rs on every run; the code of from_str/parse_hex_color is tied by "
                "differential execution (exhaustive 3-digit, thorough: 4-digit; sampled 6/8-digit; all keywords in 4 letter cases; near misses).",
        "technique": "Coq proof of model = Qt-reading spec for all strings; table regenerated from source; model/code tie by differential execution in vm_compute",
        "design_ref": "5 C19",
        "note": "Trusted: Coq kernel + vm_compute; spec/SvgColors.v (typed in independently) and the reading of the hex forms taken from the property; "
                "tools/gen_tables.py anchor patterns; the harness calling Color::from_str; parse_color_value's use of it in the pipeline is covered by the uigen-level checks.",
    },
}

NOT_YET = {
}

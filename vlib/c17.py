"""C17 -- Type lookups agree with the class graph and always terminate.

P: props/C17.v (termination with an explicit fuel bound; soundness; exactness unless a reachable class lists an
   unresolvable super name; own-declaration precedence; common base; variants; method table = stable filter).
K: the real typemap (TypeMap/ModuleData/Class queries) vs model/ClassGraph.v on generated class graphs
   (diamonds, cycles, self-inheritance, dangling names, non-class names, private bases, aliases), every query
   under a process timeout.
S: implementation answers vs an independent reachability oracle (this file); failures inside the listed F13 class
   are KNOWN-FINDING, anything else is a VIOLATION.
"""
import json
from . import common as C

TARGETS = ["props/C17.vo"]
PINS = "pins/C17.v"
HEADER = "From QV Require Import model.Base model.ClassGraph."
TRUSTED = ["the reachability oracle in vlib/c17.py (search leg only)", "harness/src/typemap.rs: builds TypeMap via ModuleData::extend/push_alias, queries through the public Class API"]

NP, NM, NE, NV = 4, 3, 3, 10       # variants v0..v9: enums of 0..10 variants (sizes around 8 included: a table / a set may switch representation there)


def num(name):
    k = int(name[1:])
    return {"K": 0, "D": 100, "O": 200, "A": 300}[name[0]] + k


def gen_graph(rng, ctx):
    n = rng.choice([1, 2, 2, 3, 3, 4, 4, 5, 6, 8])
    style = rng.choice(["dag", "dag", "any", "any", "dangling", "dangling", "chain"])
    ctx.dist("graph-" + style)
    others = ["O%d" % j for j in range(rng.choice([0, 0, 1, 2]))]
    classes = []
    for i in range(n):
        sup = []
        k = rng.choice([0, 1, 1, 2, 2, 3])
        for _ in range(k):
            if style == "dag":
                cand = ["K%d" % j for j in range(i)]
            elif style == "chain":
                cand = ["K%d" % (i + 1)] if i + 1 < n else []
            else:
                cand = ["K%d" % j for j in range(n)]
            r = rng.random()
            if style == "dangling" and r < 0.3:
                nm = "D%d" % rng.randrange(3)
            elif others and r < 0.4 and style != "dag":
                nm = rng.choice(others)
            elif rng.random() < 0.15:
                nm = "A%d" % rng.randrange(2)
            elif cand:
                nm = rng.choice(cand)
            else:
                continue
            sup.append((nm, rng.random() < 0.88))
        props = [p for p in range(NP) if rng.random() < 0.3]
        meths = {"signals": [], "slots": [], "methods": []}
        used = set()
        for kind in ("signals", "slots", "methods"):
            for _ in range(rng.choice([0, 0, 1, 2, 3])):
                nm = rng.randrange(NM)
                ar = rng.randrange(5)
                if (nm, ar) in used:
                    continue
                used.add((nm, ar))
                meths[kind].append((nm, rng.random() < 0.85, ar))
        enums = []
        for _ in range(rng.choice([0, 0, 1, 2, 3])):
            enums.append((rng.randrange(NE), rng.random() < 0.35, sorted(set(rng.randrange(NV) for _ in range(rng.choice([0, 1, 2, 3, 3, 9, 12, 16, 30]))))))
        classes.append({"supers": sup, "props": props, "meths": meths, "enums": enums})
    aliases = []
    for j in range(2):
        if rng.random() < 0.5:
            old = rng.choice(["K%d" % rng.randrange(n), "D0", "A0"] + others)
            aliases.append(("A%d" % j, old))
    return {"classes": classes, "others": others, "aliases": aliases}


def to_meta(g):
    out = []
    for i, c in enumerate(g["classes"]):
        def meth(m):
            return {"name": "m%d" % m[0], "access": "public" if m[1] else "private", "returnType": "void",
                    "arguments": [{"type": "int"} for _ in range(m[2])]}
        out.append({
            "className": "K%d" % i, "qualifiedClassName": "K%d" % i, "object": True,
            "superClasses": [{"name": s, "access": "public" if pub else "private"} for s, pub in c["supers"]],
            "properties": [{"name": "p%d" % p, "type": "int", "read": "p%d" % p, "designable": True, "scriptable": True, "stored": True,
                            "user": False, "constant": False, "final": False, "required": False, "index": None} for p in c["props"]],
            "signals": [meth(m) for m in c["meths"]["signals"]],
            "slots": [meth(m) for m in c["meths"]["slots"]],
            "methods": [meth(m) for m in c["meths"]["methods"]],
            "enums": [{"name": "E%d" % e[0], "isClass": e[1], "isFlag": False, "values": ["v%d" % v for v in e[2]]} for e in c["enums"]],
        })
    return out


def deep_chain(rng, ctx):
    """a long single-inheritance chain K0 : K1 : ... : K(n-1) (33..90 levels -- deeper than any walk bound one might hard-code), members only near
    the top, optionally one fork or a cycle at the top"""
    n = rng.choice([34, 35, 40, 48, 64, 65, 90])
    ctx.dist("graph-deep-chain")
    classes = []
    for i in range(n):
        sup = [("K%d" % (i + 1), True)] if i + 1 < n else ([("K%d" % rng.randrange(n), True)] if rng.random() < 0.2 else [])
        top = i >= n - 2
        classes.append({"supers": sup, "props": [p for p in range(NP) if top and rng.random() < 0.6],
                        "meths": {"signals": [], "slots": [], "methods": [(m, True, 0) for m in range(NM) if top and rng.random() < 0.4]},
                        "enums": [(0, False, [1])] if top else []})
    return {"classes": classes, "others": [], "aliases": []}


def queries(g, rng):
    n = len(g["classes"])
    names = ["K%d" % i for i in range(n)] + [a for a, _ in g["aliases"]]
    if n > 12:
        names = sorted(set(["K0", "K1", "K%d" % (n - 1), "K%d" % (n - 2), "K%d" % (n - 33), "K%d" % (n - 34), "K%d" % (n // 2)] + rng.sample(names, 3)), key=num)
    qs = []
    for a in names:
        for b in names:
            qs.append(["derives", a, b])
    for a in names:
        for b in rng.sample(names, min(3, len(names))):
            qs.append(["common", a, b])
        for p in range(NP):
            qs.append(["prop", a, "p%d" % p])
        for m in range(NM):
            qs.append(["method", a, "m%d" % m])
        for e in range(NE):
            qs.append(["type", a, "E%d" % e])
        for v in range(NV):
            qs.append(["variant", a, "v%d" % v])
    return qs


def enum_queries(g, rng):
    """Class.Enum.Variant: a variant looked up inside an enum type (decided on the implementation's answers by the oracle alone)"""
    n = len(g["classes"])
    names = ["K%d" % i for i in range(n)]
    if n > 12:
        names = rng.sample(names, 4)
    return [["evariant", a, "E%d.v%d" % (e, v)] for a in names for e in range(NE) for v in range(NV)]


def coq_case(g, qs):
    def cd(c):
        def ml(l):
            return C.coq_list(["{| m_name := %d; m_kind := KMethod; m_public := %s; m_arity := %d |}" % (m[0], "true" if m[1] else "false", m[2]) for m in l])
        return ("{| c_supers := %s; c_props := %s; c_signals := %s; c_slots := %s; c_methods := %s; c_enums := %s |}" % (
            C.coq_list(["(%d, %s)" % (num(s), "true" if p else "false") for s, p in c["supers"]]),
            C.coq_list([str(p) for p in c["props"]]),
            ml(c["meths"]["signals"]), ml(c["meths"]["slots"]), ml(c["meths"]["methods"]),
            C.coq_list(["{| e_name := %d; e_scoped := %s; e_variants := %s |}" % (e[0], "true" if e[1] else "false", C.coq_list([str(v) for v in e[2]])) for e in c["enums"]])))
    classes = C.coq_list(["(%d, %s)" % (i, cd(c)) for i, c in enumerate(g["classes"])])
    others = C.coq_list([str(num(o)) for o in g["others"]])
    aliases = C.coq_list(["(%d, %d)" % (num(a), num(b)) for a, b in g["aliases"]])
    qk = {"derives": "QDerives", "common": "QCommon", "prop": "QProp", "method": "QMethod", "type": "QType", "variant": "QVariant"}

    def qa(q):
        b = q[2]
        bn = num(b) if q[0] in ("derives", "common") else int(b[1:])
        return "%s %d %d" % (qk[q[0]], num(q[1]), bn)
    return "(%s, %s, %s, %s)" % (classes, others, aliases, C.coq_list([qa(q) for q in qs]))


def expected_term(q, r):
    if r == "noclass":
        return "RNoClass"
    if r is None:
        return "RNone"
    if r == "err":
        return "RErr"
    if isinstance(r, bool):
        return "RBool %s" % ("true" if r else "false")
    if q[0] in ("common", "prop") and isinstance(r, str) and r[0] == "K":
        return "RCls %d" % int(r[1:])
    if q[0] == "method" and isinstance(r, list):
        return "RMeth %d %s" % (int(r[0][1:]), C.coq_list(["(%d, %d)" % (k, a) for k, a in r[1]]))
    if q[0] in ("type", "variant") and isinstance(r, list) and r[0]:
        return "REnum %d %d" % (int(r[0][1:]), int(r[1][1:]))
    return None


# ---------- independent oracle (search leg): reflexive-transitive public inheritance over resolvable names
def oracle(g):
    n = len(g["classes"])
    nm = {}
    for o in g["others"]:
        nm[o] = None
    for i in range(n):
        nm["K%d" % i] = i
    for a, b in g["aliases"]:
        if b in nm:
            nm[a] = nm[b]
    succ = {i: [] for i in range(n)}
    dangling_direct = {i: False for i in range(n)}
    for i, c in enumerate(g["classes"]):
        for s, pub in c["supers"]:
            if not pub:
                continue
            t = nm.get(s)
            if t is None:
                dangling_direct[i] = True
            else:
                succ[i].append(t)
    reach = {}
    for i in range(n):
        seen = {i}
        todo = [i]
        while todo:
            x = todo.pop()
            for y in succ[x]:
                if y not in seen:
                    seen.add(y); todo.append(y)
        reach[i] = seen
    has_dangling = {i: any(dangling_direct[j] for j in reach[i]) for i in range(n)}
    return nm, reach, has_dangling


def judge(g, q, r, nm, reach, has_dangling):
    """Return None if the implementation's answer satisfies the property, 'known' if it fails inside the F13 class,
    else a description of the violation."""
    c = nm.get(q[1])
    if c is None:
        return None
    cls = g["classes"]
    dang = has_dangling[c]
    bad = None
    if q[0] == "derives":
        b = nm.get(q[2])
        if b is None:
            return None
        want = b in reach[c]
        if r != want:
            bad = "is_derived_from(%s,%s)=%r but reflexive-transitive public inheritance says %r" % (q[1], q[2], r, want)
    elif q[0] == "prop":
        p = int(q[2][1:])
        decl = {d for d in reach[c] if p in cls[d]["props"]}
        if r is None or r == "err":
            if decl:
                bad = "get_property(%s,%s)=%r but %s declare(s) it" % (q[1], q[2], r, sorted(decl))
        else:
            d = int(r[1:])
            if d not in decl or (c in decl and d != c):
                bad = "get_property(%s,%s) found in K%d; declaring ancestors-or-self %s" % (q[1], q[2], d, sorted(decl))
    elif q[0] == "common":
        b = nm.get(q[2])
        if b is None:
            return None
        commons = reach[c] & reach[b]
        dang = dang or has_dangling[b]
        if r is None or r == "err":
            if commons:
                bad = "common_base_class(%s,%s)=%r but common ancestors-or-self exist: %s" % (q[1], q[2], r, sorted(commons))
        else:
            d = int(r[1:])
            if d not in commons:
                bad = "common_base_class(%s,%s)=K%d is not an ancestor-or-self of both" % (q[1], q[2], d)
    elif q[0] == "method":
        m = int(q[2][1:])

        def pub(d):
            out = []
            for k, kind in enumerate(("signals", "slots", "methods")):
                out += [[k, x[2]] for x in cls[d]["meths"][kind] if x[0] == m and x[1]]
            return out
        decl = {d for d in reach[c] if pub(d)}
        if r is None or r == "err":
            if decl:
                bad = "get_public_method(%s,%s)=%r but %s declare(s) it" % (q[1], q[2], r, sorted(decl))
        else:
            d = int(r[0][1:])
            if d not in decl or (c in decl and d != c) or r[1] != pub(d):
                bad = "get_public_method(%s,%s)=%r; expected overloads of K%d: %r" % (q[1], q[2], r, d, pub(d) if d < len(cls) else None)
    elif q[0] in ("type", "variant"):
        k = int(q[2][1:])

        def has(d):
            if q[0] == "type":
                return any(e[0] == k for e in cls[d]["enums"])
            return any((not e[1]) and k in e[2] for e in cls[d]["enums"])
        decl = {d for d in reach[c] if has(d)}
        if r is None or r == "err":
            if decl:
                bad = "%s(%s,%s)=%r but %s declare(s) it" % (q[0], q[1], q[2], r, sorted(decl))
        else:
            d = int(r[0][1:])
            e = int(r[1][1:])
            ok = d in decl and not (c in decl and d != c)
            if ok and q[0] == "variant":
                ok = any(x[0] == e and (not x[1]) and k in x[2] for x in cls[d]["enums"])
            if ok and q[0] == "type":
                ok = e == k
            if not ok:
                bad = "%s(%s,%s)=%r; declaring ancestors-or-self %s" % (q[0], q[1], q[2], r, sorted(decl))
    elif q[0] == "evariant":
        en, vn = q[2].split(".")
        k, v = int(en[1:]), int(vn[1:])
        decl = [d for d in reach[c] if any(e[0] == k for e in cls[d]["enums"])]
        if r == "noenum":
            if decl:
                bad = "get_type(%s,%s) finds no enum but %s declare(s) it" % (q[1], en, sorted(decl))
        else:
            # the enum the type lookup gives (own declaration first); the variant answers iff that enum is scoped and lists it.  Which declaring ancestor is
            # taken is judged by the `type` query: here every candidate enum of that name is asked
            cands = [e for d in decl for e in cls[d]["enums"] if e[0] == k]
            yes = [e for e in cands if e[1] and v in e[2]]
            if r is None or r == "err":
                if cands and len(yes) == len(cands):
                    bad = "%s.%s.%s: every enum of that name is scoped and lists the variant, but the lookup says %r" % (q[1], en, vn, r)
            elif not yes:
                bad = "%s.%s.%s resolves to %r although no enum of that name is scoped and lists the variant" % (q[1], en, vn, r)
    if bad is None:
        return None
    if dang and (r is False or r is None or r == "err" or r == "noenum"):
        return "known"   # F13 class: a class reachable from the start lists an unresolvable super name; answer 'not found'
    return bad


def cross_module(ctx, vh, rng):
    """inheritance chains that cross module boundaries: the names of a class's super classes are resolved where THAT class is declared (its own module, then the
    modules it imports -- imports are not transitive), not where the walk started.  Every module may hold a class of the same name as an unrelated one elsewhere."""
    n = 400 if ctx.tier == "thorough" else 60
    cases, metas = [], []
    for _ in range(n):
        k = rng.choice([2, 3, 3, 4])
        mods = ["m%d" % i for i in range(k)]
        imports = {}
        for i, m in enumerate(mods):
            imports[m] = [x for j, x in enumerate(mods) if j != i and (j == i + 1 or rng.random() < 0.2)]      # a chain m0 -> m1 -> m2 ... plus a few others
        names = {m: rng.sample(["A", "B", "C", "D", "R"], rng.choice([1, 2, 2, 3])) for m in mods}
        scope = {m: [m] + imports[m] for m in mods}
        supers = {}
        for m in mods:
            for x in names[m]:
                cand = []
                for m2 in scope[m]:
                    for y in names[m2]:
                        if (m2, y) != (m, x) and sum(1 for m3 in scope[m] if y in names[m3]) == 1:
                            cand.append((m2, y))
                supers[(m, x)] = rng.sample(cand, min(len(cand), rng.choice([0, 1, 1, 1, 2])))
        reach = {}
        for nd in supers:
            seen, todo = [nd], [nd]
            while todo:
                for s2 in supers[todo.pop()]:
                    if s2 not in seen:
                        seen.append(s2)
                        todo.append(s2)
            reach[nd] = seen
        mj = []
        ghosts = []
        for m in mods:
            cl = []
            for x in names[m]:
                cl.append({"className": x, "qualifiedClassName": x, "object": True, "superClasses": [{"name": y, "access": "public"} for (_, y) in supers[(m, x)]],
                           "properties": [{"name": "p_%s_%s" % (m, x), "type": "int", "read": "p", "designable": True, "scriptable": True, "stored": True, "user": False, "constant": False,
                                           "final": False, "required": False, "index": None}],
                           "methods": [{"name": "f_%s_%s" % (m, x), "access": "public", "returnType": "void", "arguments": []}], "signals": [], "slots": [], "enums": []})
            # the same class described twice in one module (metatypes passed twice, a later file re-describing a class): the LAST description is the class, for every
            # lookup and for every class that names it as a super class, whether it was loaded before or after
            if cl and rng.random() < 0.35:
                k = rng.randrange(len(cl))
                ghost = json.loads(json.dumps(cl[k]))
                ghost["properties"][0]["name"] = "ghost_" + ghost["properties"][0]["name"]
                ghost["methods"][0]["name"] = "ghost_" + ghost["methods"][0]["name"]
                ghost["superClasses"] = []
                cl.insert(rng.randrange(0, k + 1), ghost)
                ghosts.append((m, cl[k + 1]["className"]))
            mj.append({"name": m, "imports": imports[m], "classes": cl})
        qs, want = [], []
        nodes = list(supers)
        for a in nodes:
            for b in nodes:
                qs.append(["derives", a[0], a[1], b[0], b[1]])
                want.append(b in reach[a])
            for d in nodes:
                qs.append(["prop", a[0], a[1], "", "p_%s_%s" % d])
                want.append(d[1] if d in reach[a] else None)
                qs.append(["method", a[0], a[1], "", "f_%s_%s" % d])
                want.append(d[1] if d in reach[a] else None)
        for a in nodes:
            for (gm, gx) in ghosts:
                qs.append(["prop", a[0], a[1], "", "ghost_p_%s_%s" % (gm, gx)])
                want.append(None)
        cases.append({"modules": mj, "queries": qs})
        metas.append((mj, qs, want, max(len(reach[a]) for a in nodes)))
        ctx.dist("cross-module-graph-%d-modules" % k)
    out = C.harness_run(vh, "typemap_multi", cases, timeout=300)
    nq = 0
    for (mj, qs, want, depth), r in zip(metas, out):
        ctx.count(("cross-module", json.dumps(mj, sort_keys=True)), depth >= 3)
        if not isinstance(r, dict) or "results" not in r:
            ctx.violation("lookups across modules do not terminate normally: %s" % str(r)[:300], {"modules": mj, "impl_output": str(r)[:600]})
            continue
        for q, w, g in zip(qs, want, r["results"]):
            nq += 1
            if g != w:
                what = ("%s.%s is_derived_from %s.%s" % (q[1], q[2], q[3], q[4])) if q[0] == "derives" else ("%s.%s %s %s" % (q[1], q[2], "get_property" if q[0] == "prop" else "get_public_method", q[4]))
                ctx.violation("%s answers %r; by the class graph (super-class names resolved in the module that declares the class) it is %r" % (what, g, w),
                              {"modules": mj, "query": q, "impl_output": g, "oracle_output": w, "theorem_or_correspondence": "S: closure oracle across modules"})
                break
    ctx.coverage["cross_module_queries"] = nq


def run(ctx):
    ctx.proof_leg(TARGETS, PINS, k_targets=["model/ClassGraph.vo"])
    vh = ctx.need_harness()
    rng = ctx.rng
    if not ctx.replay:
        cross_module(ctx, vh, rng)
    ngraphs = 7500 if ctx.tier == "thorough" else 400
    graphs = []
    corpus = [
        # F13 witness: dangling name before a valid base
        {"classes": [{"supers": [("D0", True), ("K1", True)], "props": [], "meths": {"signals": [], "slots": [], "methods": []}, "enums": []},
                     {"supers": [], "props": [1], "meths": {"signals": [], "slots": [], "methods": [(0, True, 1)]}, "enums": [(0, False, [1])]}],
         "others": [], "aliases": []},
        # cycles and self inheritance
        {"classes": [{"supers": [("K1", True)], "props": [], "meths": {"signals": [], "slots": [], "methods": []}, "enums": []},
                     {"supers": [("K0", True), ("K2", True), ("K1", True)], "props": [2], "meths": {"signals": [], "slots": [], "methods": []}, "enums": []},
                     {"supers": [("K2", True)], "props": [3], "meths": {"signals": [(1, True, 0), (1, True, 2)], "slots": [(1, True, 1)], "methods": []}, "enums": []}],
         "others": [], "aliases": []},
    ]
    if ctx.replay:
        graphs = [ctx.replay["case"]["graph"]]
    else:
        graphs = corpus + [deep_chain(rng, ctx) for _ in range(40 if ctx.tier == "thorough" else 4)] + [gen_graph(rng, ctx) for _ in range(ngraphs)]
    cases = []
    for g in graphs:
        qs = queries(g, rng)
        cases.append({"classes": to_meta(g), "others": g["others"], "aliases": [list(a) for a in g["aliases"]], "queries": qs + enum_queries(g, rng), "nmodel": len(qs)})
    impl = C.harness_run(vh, "typemap", cases, timeout=20 if ctx.tier == "quick" else 60)
    terms = []
    idx = []
    nq = 0
    known_n = 0
    for gi, (g, case, res) in enumerate(zip(graphs, cases, impl)):
        nontrivial = any(c["supers"] for c in g["classes"])
        ctx.count(json.dumps(g, sort_keys=True), nontrivial)
        if isinstance(res, dict) and res.get("crash") == "not-run":
            continue
        if not isinstance(res, list):
            what = "do not terminate (no answer within the time limit)" if isinstance(res, dict) and "hang" in res else "crash/panic"
            ctx.violation("typemap queries %s on a class graph: %r" % (what, res), {"case": {"graph": g}, "impl_output": res,
                          "theorem_or_correspondence": "C17_terminates / K"})
            continue
        nq += len(res)
        # S: oracle judgement of every answer
        nm, reach, has_dangling = oracle(g)
        for q, r in zip(case["queries"], res):
            v = judge(g, q, r, nm, reach, has_dangling)
            if v == "known":
                known_n += 1
            elif v is not None and len(ctx.violations) < 5:
                ctx.violation(v, {"case": {"graph": g, "query": q}, "impl_output": r, "theorem_or_correspondence": "S: typemap answers vs reachability oracle"})
        nmod = case.get("nmodel", len(case["queries"]))
        exp = [expected_term(q, r) for q, r in zip(case["queries"][:nmod], res[:nmod])]
        if any(e is None for e in exp):
            ctx.violation("unexpected answer shape from the implementation", {"case": {"graph": g}, "impl_output": res})
            continue
        terms.append((coq_case(g, case["queries"][:nmod]), C.coq_list(exp)))
        idx.append(gi)
    ctx.coverage["queries"] = nq
    ctx.coverage["answers_in_known_class"] = known_n
    if graphs:
        ctx.sample({"graph": graphs[min(2, len(graphs) - 1)], "queries": cases[min(2, len(graphs) - 1)]["queries"][:6], "impl": impl[min(2, len(graphs) - 1)][:6] if isinstance(impl[min(2, len(graphs) - 1)], list) else impl[min(2, len(graphs) - 1)]})
    ctx.coverage["rule"] = ("random class graphs (1..8 classes; styles dag/any/dangling/chain, plus single-inheritance chains 34..90 levels deep; private bases, aliases, non-class names) with all derives pairs and "
                            "property/method/enum/variant lookups per class; non-trivial = at least one super-class reference; distinct by graph")
    kc = ctx.known_classes()
    if known_n:
        if "lookup_stops_at_unresolvable_super" in kc:
            ctx.known_finding("lookup_stops_at_unresolvable_super", kc["lookup_stops_at_unresolvable_super"]["what_fails"] + " (%d answers in this run)" % known_n)
        else:
            ctx.violation("is_derived_from / lookups answer 'not found' although a public ancestor qualifies (dangling super name listed first)",
                          {"case": {"graph": corpus[0], "query": ["derives", "K0", "K1"]}})
    if not ctx.model_ok:
        return
    eqf = "(fun (a b : list qr) => list_eqb qr_eqb a b)"
    ty = "(list (nat * cdata) * list nat * list (nat * nat) * list query) * list qr"
    bad = C.coq_eval_mismatches("c17", HEADER, terms, eqf, "(fun c => let '(cl, o, al, qs) := c in run_case cl o al qs)", ty, shard_size=60, scope="nat_scope")
    ctx.coverage["disagreements_model"] = len(bad)
    if bad and not ctx.violations:
        j = bad[0]
        mo = C.coq_eval_terms("c17_model", HEADER, ["let '(cl, o, al, qs) := %s in run_case cl o al qs" % terms[j][0]], scope="nat_scope")
        ctx.broke("K", "typemap vs model/ClassGraph.v",
                  "model and implementation differ on %d graphs (first: %s; model says %s; implementation %s) but every implementation answer satisfies the oracle"
                  % (len(bad), json.dumps(graphs[idx[j]]), mo[0][:1500], json.dumps(impl[idx[j]])[:1500]))

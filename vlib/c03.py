"""C03 -- Values embedded in the .ui equal the value of their source expression.

P: props/C03.v (folding exact or rejected; integer literal = mathematical value; escape tables; classification).
K: literal spellings (numbers by the ES grammar incl. radix prefixes, separators, legacy octal, exponents; string bodies over
   every escape form) and constant expressions through the real parser + tir::build + evaluate_code vs model/Literal.v,
   model/Ceval.v; decimal->binary64 by SpecFloat rounding on exact rationals vs Rust's parser (bit patterns).
S: independent oracle (Python big integers / ES tables) for every accepted constant; and the whole pipeline: constant
   bindings in documents -> value elements of the real .ui read back with an XML parser.
"""
import json
import re
import struct
from . import common as C
from . import prog, tircheck, tirtok, qml, e0

TARGETS = ["props/C03.vo"]
PINS = "pins/C03.v"
TRUSTED = ["decimal->binary64 correct rounding: SpecFloat.binary_round_aux (Flocq's definition, proved correct there; not re-proved here) and Rust's dec2flt, compared bit for bit",
           "Rust's Display for f64 (number text in the .ui) is only checked by reading the text back", "tree-sitter's number/string token rules (covered by K only)"]
I64_MAX = 2 ** 63 - 1
I64_MIN = -2 ** 63


# ---------------------------------------------------------------- literal spellings
def number_spellings(rng, n_random):
    out = []
    dec = ["0", "1", "7", "9", "10", "42", "123", "007", "010", "0777", "08", "089", "0789", "00", "2147483647", "2147483648", "4294967295", "4294967296",
           "9007199254740992", "9007199254740993", "9223372036854775807", "9223372036854775808", "18446744073709551615", "18446744073709551616",
           "99999999999999999999999", "1_000", "1_0_0", "1__0", "_1", "1_", "0_7"]
    pre = []
    for p, digs in (("0x", "0123456789abcdefABCDEF"), ("0X", "0123456789abcdef"), ("0o", "01234567"), ("0O", "01234567"), ("0b", "01"), ("0B", "01")):
        pre += [p + "0", p + "1", p + digs[-1], p + digs[1] + digs[-1] * 3, p, p + "_1", p + "1_0", p + "g", p + "8", p + "2",
                p + digs[-1] * (16 if p.lower() == "0x" else 22 if p.lower() == "0o" else 64), p + "1" + "0" * (16 if p.lower() == "0x" else 22 if p.lower() == "0o" else 64)]
    flt = ["0.0", "0.5", "1.5", ".5", "5.", "0.1", "0.2", "0.3", "1e3", "1E3", "1e+3", "1e-3", "1.5e2", "1.e2", ".5e1", "1e", "1e+", "e1", ".", "1.5.2", "1e3.5",
           "0e0", "0e-1", "1e308", "1.7976931348623157e308", "1.7976931348623159e308", "1e309", "5e-324", "2.4e-324", "2.5e-324", "1e-400", "4.9406564584124654e-324",
           "9007199254740993.0", "9007199254740992.5", "0.30000000000000004", "123456789012345678901234567890.0", "1_0.5", "1.5_5", "1e1_0", "0.1e1", "00.5", "09.5", "0x1.8", "0x1e3", "1e1000000000000", "1e-1000000000000",
           "3.141592653589793", "2.718281828459045", "6.02214076e23", "1.602176634e-19", "100e-2", "0.000001", "1000000.0", "1n", "0n", "1.5n"]
    for s in dec:
        out.append((s, "dec"))
    for s in pre:
        out.append((s, "radix"))
    for s in flt:
        out.append((s, "float"))
    for _ in range(n_random):
        r = rng.random()
        if r < 0.3:
            out.append((str(rng.randrange(0, 2 ** rng.randrange(1, 66))), "dec-random"))
        elif r < 0.45:
            out.append((hex(rng.randrange(0, 2 ** rng.randrange(1, 66))), "radix-random"))
        elif r < 0.55:
            out.append(("0" + "".join(rng.choice("01234567") for _ in range(rng.randrange(1, 8))), "legacy-octal-random"))
        else:
            m = "".join(rng.choice("0123456789") for _ in range(rng.randrange(1, 20)))
            f = "".join(rng.choice("0123456789") for _ in range(rng.randrange(0, 20)))
            e = rng.choice(["", "", "e%d" % rng.randrange(-330, 320), "e+%d" % rng.randrange(0, 40), "e-%d" % rng.randrange(0, 40)])
            s = m + ("." + f if f or rng.random() < 0.3 else "") + e
            if "." in s or "e" in s:
                out.append((s, "float-random"))
    return out


def string_bodies(rng, n_random):
    out = []
    singles = [chr(c) for c in range(0x20, 0x7f) if chr(c) not in "\"\\"]
    for ch in singles:
        out.append(("\\" + ch, "single-escape"))
    out += [("\\\\", "single-escape"), ('\\"', "single-escape"), ("\\'", "single-escape")]
    for s in ["\\x41", "\\x7f", "\\x00", "\\xff", "\\xFF", "\\x4", "\\x4g", "\\xg1", "\\x", "\\u0041", "\\u300f", "\\uD800", "\\udfff", "\\uffff", "\\u004", "\\u", "\\ug000",
              "\\u{41}", "\\u{0}", "\\u{1f600}", "\\u{10FFFF}", "\\u{110000}", "\\u{d800}", "\\u{}", "\\u{g}", "\\u{41", "\\u{000000041}", "\\u{ffffffff}", "\\u{100000000}",
              "\\0", "\\00", "\\01", "\\07", "\\08", "\\1", "\\7", "\\12", "\\123", "\\377", "\\400", "\\8", "\\9", "\\\n", "\\\r\n",
              "a\\nb", "\\x001", "\\0a", "é", "\U0001f600", "a b", "", "'", "\\x41\\x42\\u0043",
              "\\é", "caf\\é", "\\あ", "\\\U0001f600", "\\\u2028", "\\ÿ", "\\\x7f", "\\\x01", "x\\é\\n"]:
        out.append((s, "escape-form"))
    alphabet = ["a", "Z", " ", "é", "あ", "\U0001f600", "\\n", "\\t", "\\\\", '\\"', "\\x41", "\\u0041", "\\u{1f600}", "\\0", "\\q", "\\x4", "\\u12", "'", "%1", "\\é", "\\あ", "\\\U0001f600"]
    for _ in range(n_random):
        out.append(("".join(rng.choice(alphabet) for _ in range(rng.randrange(0, 8))), "string-random"))
    return out


ES_SINGLE = {"'": "'", '"': '"', "\\": "\\", "b": "\b", "f": "\f", "n": "\n", "r": "\r", "t": "\t", "v": "\v", "0": "\0"}


def oracle_number(s):
    """ES MV of the spellings qmluic documents as supported; None = outside the supported grammar (must be rejected)"""
    m = re.fullmatch(r"0[xX]([0-9a-fA-F]+(?:_[0-9a-fA-F]+)*)", s)
    if m:
        return ("int", int(m.group(1).replace("_", ""), 16))
    m = re.fullmatch(r"0[oO]([0-7]+(?:_[0-7]+)*)", s)
    if m:
        return ("int", int(m.group(1).replace("_", ""), 8))
    m = re.fullmatch(r"0[bB]([01]+(?:_[01]+)*)", s)
    if m:
        return ("int", int(m.group(1).replace("_", ""), 2))
    if re.fullmatch(r"0[0-7]+", s):
        return ("int", int(s, 8))
    if re.fullmatch(r"[0-9]+(?:_[0-9]+)*", s):
        return ("int", int(s.replace("_", "")))
    if re.fullmatch(r"(?:[0-9]+\.[0-9]*|\.[0-9]+|[0-9]+)(?:e[+-]?[0-9]+)?", s) and ("." in s or "e" in s):
        return ("float", struct.unpack("<Q", struct.pack("<d", float(s)))[0])
    return None


def run(ctx):
    ctx.proof_leg(TARGETS, PINS, k_targets=tircheck.K_TARGETS)
    e0.write_files()
    vh = ctx.need_harness()
    rng = ctx.rng
    thorough = ctx.tier == "thorough"
    # ---------------- 1. literal spellings
    nums = number_spellings(rng, 4000 if thorough else 600)
    strs = string_bodies(rng, 3000 if thorough else 400)
    cases = [{"source": s} for s, _ in nums] + [{"source": '"%s"' % b} for b, _ in strs]
    impl = C.harness_run(vh, "tir", cases, timeout=120)
    nterms, sterms = [], []
    for (s, kind), r in zip(nums, impl[:len(nums)]):
        ctx.dist("number-" + kind)
        ctx.count(("num", s), True)
        got = classify_literal(r)
        want = oracle_number(s)
        if got[0] in ("int", "float"):
            if want is None or want != got:
                ctx.violation("number literal %r is read as %r; its ECMAScript value is %r" % (s, got, want),
                              {"case": s, "impl_output": r, "oracle_output": want, "theorem_or_correspondence": "S: literal value oracle"})
        if got[0] == "crash":
            ctx.violation("number literal %r crashes the parser: %r" % (s, r), {"case": s, "impl_output": r})
        if all(ord(ch) < 128 for ch in s) and got[0] != "crash":
            exp = {"int": lambda: [1, got[1]], "float": lambda: [2, got[1]], "conv": lambda: None, "rej": lambda: [0], "lexrej": lambda: [0]}[got[0]]()
            if exp is not None and (got[0] != "rej" or want is not None or True):
                # K in both directions for everything the lexer handed to the parser; spellings the lexer refuses are rejections
                nterms.append(("(%s)%%N" % C.coq_bytes(s), C.coq_list(["(%d)" % x for x in exp]), s, got))
    for (b, kind), r in zip(strs, impl[len(nums):]):
        ctx.dist("string-" + kind)
        ctx.count(("str", b), "\\" in b)
        got = classify_literal(r)
        if got[0] == "crash":
            ctx.violation("string literal %r crashes the parser: %r" % (b, r), {"case": b, "impl_output": r})
            continue
        exp = [1, len(got[1])] + got[1] if got[0] == "string" else [0]
        sterms.append(("(%s)%%N" % C.coq_list([str(ord(ch)) for ch in b]), C.coq_list(["(%d)" % x for x in exp]), b, got))
        # S: independent reading of the simple escape forms
        if got[0] == "string":
            want = oracle_string(b)
            if want is not None and [ord(c) for c in want] != got[1]:
                ctx.violation("string literal body %r is read as %r; its ECMAScript value is %r" % (b, got[1], want), {"case": b, "impl_output": r, "oracle_output": want})
    if ctx.model_ok:
        lex_rejected = 0
        kn = [(a, e) for a, e, s, got in nterms]
        badn = C.coq_eval_mismatches("c03n", tircheck.HEADER, kn, "zl_eqb", "number_case", "list N * list Z", shard_size=400, scope="Z_scope")
        real = []
        for j in badn:
            s, got = nterms[j][2], nterms[j][3]
            if got[0] == "lexrej":
                lex_rejected += 1      # rejected before parse_number_str is reached (lexer) -- a rejection is always safe for C03
                continue
            real.append(j)
        ks = [(a, e) for a, e, b, got in sterms]
        bads = C.coq_eval_mismatches("c03s", tircheck.HEADER, ks, "zl_eqb", "string_case", "list N * list Z", shard_size=400, scope="Z_scope")
        reals = [j for j in bads if sterms[j][3][0] != "lexrej"]
        lex_rejected += len(bads) - len(reals)
        ctx.coverage["literal_disagreements_model"] = len(real) + len(reals)
        ctx.coverage["literals_rejected_before_the_modelled_parser"] = lex_rejected
        if (real or reals) and not ctx.violations:
            what = ("number %r: implementation %r" % (nterms[real[0]][2], nterms[real[0]][3])) if real else ("string body %r: implementation %r" % (sterms[reals[0]][2], sterms[reals[0]][3]))
            ctx.broke("K", "qmlast/astutil.rs literal parsing vs model/Literal.v", "model and implementation differ on %d literals; first: %s" % (len(real) + len(reals), what))
    # ---------------- 2. constant expressions: boundary matrix + generated constants
    mags = [0, 1, 2, 3, 31, 32, 63, 64, 2 ** 31 - 1, 2 ** 31, 2 ** 32, 2 ** 53, 2 ** 62, 2 ** 63 - 1]
    # the last five are operators the translator has no lowering for (opcode.rs TryFrom<BinaryOperator>): they stay in the matrix with their ECMAScript
    # meaning, so that a lowering added later onto a neighbouring operator (`>>>` as `>>`, `**` as `*`, `??` as `||`, `===` as `==` on mixed types) is measured too
    ops = ["+", "-", "*", "/", "%", "&", "|", "^", "<<", ">>", "==", "!=", "<", "<=", ">", ">=", ">>>", "**", "??", "===", "!=="]
    pool = tircheck.Pool(ctx)
    mat = []
    sel = mags if thorough else [0, 1, 3, 63, 64, 2 ** 31, 2 ** 53, 2 ** 62, 2 ** 63 - 1]
    for op in ops:
        for a in sel:
            for b in sel:
                for sa in (1, -1):
                    for sb in (1, -1):
                        l = ("int", a) if sa > 0 else ("unary", "-", ("int", a))
                        r = ("int", b) if sb > 0 else ("unary", "-", ("int", b))
                        mat.append((("binding_expr", ("binary", op, l, r)), "matrix:%s" % op))
                        pool_meta.append((op, sa * a, sb * b))
    # the most negative value cannot be written as a literal; computed (-max - 1, ~max) it is an operand like any other: x / -1, x % -1, x * -1, -x, x - 1 ...
    imin = [("binary", "-", ("unary", "-", ("int", 2 ** 63 - 1)), ("int", 1)), ("unary", "~", ("int", 2 ** 63 - 1))]
    for op in ops:
        for k, l in enumerate(imin):
            for b in (0, 1, 2, 63, 64, 2 ** 63 - 1):
                for sb in (1, -1):
                    r = ("int", b) if sb > 0 else ("unary", "-", ("int", b))
                    mat.append((("binding_expr", ("binary", op, l, r)), "matrix-min:%s" % op))
                    pool_meta.append((op, I64_MIN, sb * b))
                    if k == 0:
                        mat.append((("binding_expr", ("binary", op, r, l)), "matrix-min:%s" % op))
                        pool_meta.append((op, sb * b, I64_MIN))
        mat.append((("binding_expr", ("binary", op, imin[0], imin[1])), "matrix-min:%s" % op))
        pool_meta.append((op, I64_MIN, I64_MIN))
    pool.add(mat)
    pool.run()
    for i, (meta, e) in enumerate(zip(pool_meta, pool.expected)):
        op, a, b = meta
        ctx.count(("fold", op, a, b), True)
        want = oracle_fold(op, a, b)
        r = pool.impl[i]
        if e is None:
            ctx.violation("constant expression crashes the builder: %r" % (r,), {"case": pool.sources[i], "impl_output": r})
            continue
        if isinstance(e, list) and e[0] == 1:
            ev = r.get("eval")
            got = ev.get("int") if isinstance(ev, dict) and "int" in ev else (ev.get("bool") if isinstance(ev, dict) else None)
            if want is None or got != want:
                ctx.violation("constant %s folds to %r; the mathematical value is %r%s" % (pool.sources[i], got, want, " (undefined: must be rejected)" if want is None else ""),
                              {"case": pool.sources[i], "impl_output": ev, "oracle_output": want, "theorem_or_correspondence": "S: big-integer oracle / C03_fold_*"})
    pool_meta.clear()
    # ---------------- 2a. unary operators on a constant of every type: + - on numbers, ~ on integers, ! on booleans have a value; there is no conversion of a string, a boolean, null,
    # a list or an enumerator to a number, so every other combination has no constant value (folding it to the operand, as `+x` might, is a wrong value: ES gives NaN / 1 / 0)
    uatoms = [(("int", 0), 0), (("int", 7), 7), (("unary", "-", ("int", 7)), -7), (("int", 2 ** 63 - 1), 2 ** 63 - 1), (("binary", "-", ("unary", "-", ("int", 2 ** 63 - 1)), ("int", 1)), I64_MIN),
              (("float", "2.5"), 2.5), (("unary", "-", ("float", "0.0")), -0.0), (("str", "abc"), "abc"), (("str", "12"), "12"), (("str", ""), ""), (("bool", True), True), (("bool", False), False),
              (("null",), None), (("array", []), []), (("array", [("int", 1)]), [1]), (("member", ("ident", "VObj"), "ModeB"), "enum"), (("binary", "+", ("str", "a"), ("str", "b")), "ab")]
    upool = tircheck.Pool(ctx)
    umeta = []
    for op in ("+", "-", "~", "!"):
        for (ua, uv) in uatoms:
            for wrap in (False, True):
                e1 = ("unary", op, ua)
                upool.add([(("binding_expr", ("unary", "+", e1) if wrap else e1), "unary-matrix:%s" % op)])
                umeta.append((op, uv, wrap))
    upool.run()
    for i, ((op, v, wrap), e) in enumerate(zip(umeta, upool.expected)):
        ctx.count(("ufold", op, repr(v), wrap), True)
        r = upool.impl[i]
        if e is None:
            ctx.violation("constant expression crashes the builder: %r" % (r,), {"case": upool.sources[i], "impl_output": r})
            continue
        ev = r.get("eval") if isinstance(r, dict) else None
        if not isinstance(ev, dict) or not ev:
            continue                      # no constant value / rejected: safe
        isint = isinstance(v, int) and not isinstance(v, bool)
        isflt = isinstance(v, float)
        want = None
        if op == "+" and (isint or isflt):
            want = v
        elif op == "-" and isint:
            want = -v if -v <= I64_MAX else None
        elif op == "-" and isflt:
            want = -v
        elif op == "~" and isint:
            want = ~v
        elif op == "!" and isinstance(v, bool):
            want = (not v)
        if wrap and isinstance(want, bool):
            want = None                   # +(!b): no number from a boolean
        if want is None:
            ctx.violation("constant %s is given the value %r; the operator has no value on this operand (no conversion to a number exists): it must be refused" % (upool.sources[i], ev),
                          {"case": upool.sources[i], "impl_output": ev, "oracle_output": "rejected", "theorem_or_correspondence": "S: unary operators on constants"})
            continue
        if isinstance(want, bool):
            ok = ev.get("bool") == want
        elif isinstance(want, float):
            ok = ev.get("float") == struct.unpack("<Q", struct.pack("<d", want))[0]
        else:
            ok = ev.get("int") == want
        if not ok:
            ctx.violation("constant %s folds to %r; its value is %r" % (upool.sources[i], ev, want), {"case": upool.sources[i], "impl_output": ev, "oracle_output": repr(want),
                                                                                                   "theorem_or_correspondence": "S: unary operators on constants"})
    # ---------------- 2b. float constants: every operator on the IEEE corner values (signed zero, denormal, huge, infinities and NaN obtained by folding)
    F = lambda t: ("float", t)
    fatoms = [(F("0.0"), 0.0), (("unary", "-", F("0.0")), -0.0), (F("1.0"), 1.0), (F("2.5"), 2.5), (("unary", "-", F("2.5")), -2.5), (F("1e308"), 1e308), (F("5e-324"), 5e-324),
              (("binary", "*", F("1e308"), F("10.0")), float("inf")), (("binary", "*", ("unary", "-", F("1e308")), F("10.0")), float("-inf")),
              (("binary", "/", F("0.0"), F("0.0")), float("nan"))]
    fops = ["+", "-", "*", "/", "%", "==", "!=", "<", "<=", ">", ">=", "max", "min"]
    fpool = tircheck.Pool(ctx)
    fmeta = []
    for op in fops:
        for (la, lv) in fatoms:
            for (ra, rv) in fatoms:
                if not thorough and rng.random() < 0.4:
                    continue
                fe = ("call", ("member", ("ident", "Math"), op), [la, ra]) if op in ("max", "min") else ("binary", op, la, ra)
                fpool.add([(("binding_expr", fe), "float-matrix:%s" % op)])
                fmeta.append((op, lv, rv))
    fpool.run()
    for i, ((op, a, b), e) in enumerate(zip(fmeta, fpool.expected)):
        ctx.count(("ffold", op, repr(a), repr(b)), True)
        r = fpool.impl[i]
        if e is None:
            ctx.violation("constant expression crashes the builder: %r" % (r,), {"case": fpool.sources[i], "impl_output": r})
            continue
        ev = r.get("eval") if isinstance(r, dict) else None
        if not isinstance(ev, dict):
            continue                      # rejected: always safe for C03
        want = oracle_float(op, a, b)
        if isinstance(want, bool):
            got = ev.get("bool")
            ok = got == want
        else:
            got = ev.get("float")
            wb = struct.unpack("<Q", struct.pack("<d", want))[0]
            ok = got is not None and (got == wb or (want != want and (got & 0x7ff0000000000000) == 0x7ff0000000000000 and (got & 0xfffffffffffff) != 0))
        if not ok:
            ctx.violation("constant %s folds to %r; its IEEE-754 / ECMAScript value is %r" % (fpool.sources[i], ev, want),
                          {"case": fpool.sources[i], "impl_output": ev, "oracle_output": repr(want), "theorem_or_correspondence": "S: IEEE-754 oracle"})
    fbad = fpool.compare_model() if ctx.model_ok else []
    ctx.coverage["float_fold_disagreements_model"] = len(fbad)
    if fbad and not ctx.violations:
        ctx.broke("K", "tir/ceval.rs (floats) vs model/Ceval.v + Floats.v", "model and implementation differ on %d float constants; first:\n%s" % (len(fbad), fpool.describe_mismatch(fbad[0])))
    bad = pool.compare_model() if ctx.model_ok else []
    ctx.coverage["fold_disagreements_model"] = len(bad)
    if bad and not ctx.violations:
        ctx.broke("K", "tir/ceval.rs vs model/Ceval.v", "model and implementation differ on %d constant expressions; first:\n%s" % (len(bad), pool.describe_mismatch(bad[0])))
    # ---------------- 2b'. casts of constants and cast chains: whatever is evaluated statically must be the value static_cast gives
    cpool = tircheck.Pool(ctx)
    cmeta = []
    catoms = [("int", v) for v in (0, 1, 2, 100, 2 ** 31 - 1, 2 ** 31, 3000000000, 2 ** 32 - 1, 2 ** 32, 2 ** 40 + 5)] + \
             [("unary", "-", ("int", v)) for v in (1, 2, 2 ** 31, 2 ** 31 + 1, 2 ** 32)] + \
             [("float", t) for t in ("0.0", "2.9", "1e10", "4294967295.5")] + [("unary", "-", ("float", "2.9")), ("bool", True), ("bool", False)]
    ctypes = [["int"], ["uint"], ["double"], ["bool"]]
    for a in catoms:
        for t1 in ctypes:
            cpool.add([(("binding_expr", ("as", a, t1)), "const-cast")])
            cmeta.append((a, [t1[0]]))
            for t2 in ctypes:
                if thorough or rng.random() < 0.5:
                    cpool.add([(("binding_expr", ("as", ("as", a, t1), t2)), "const-cast-chain")])
                    cmeta.append((a, [t1[0], t2[0]]))
    cpool.run()
    for i, ((a, chain), e) in enumerate(zip(cmeta, cpool.expected)):
        ctx.count(("ccast", cpool.sources[i]), True)
        r = cpool.impl[i]
        if e is None:
            ctx.violation("constant cast crashes the builder: %r" % (r,), {"case": cpool.sources[i], "impl_output": r})
            continue
        ev = r.get("eval") if isinstance(r, dict) else None
        if not isinstance(ev, dict):
            continue
        want = oracle_cast_chain(a, chain)
        got = ev.get("int") if "int" in ev else (ev.get("bool") if "bool" in ev else (struct.unpack("<d", struct.pack("<Q", ev["float"]))[0] if "float" in ev else ev))
        if len(chain) == 1 and chain[0] in ("int", "uint") and isinstance(got, int) and not isinstance(got, bool) and oracle_cast_chain(a, []) == got:
            continue      # an integer literal copied into an int / uint: the number is written as spelled and narrowed by the C++ compiler exactly as the cast would
        if len(chain) == 2 and chain[0] in ("int", "uint") and chain[1] == chain[0] and isinstance(got, int) and not isinstance(got, bool) and oracle_cast_chain(a, []) == got:
            continue
        if want is UNDEF or got != want or isinstance(got, bool) != isinstance(want, bool):
            ctx.violation("the constant %s is evaluated statically to %r; static_cast gives %s" % (cpool.sources[i], got, "no defined value" if want is UNDEF else repr(want)),
                          {"case": cpool.sources[i], "impl_output": ev, "oracle_output": None if want is UNDEF else want, "theorem_or_correspondence": "S: C++ conversion rules on constants"})
    cbad = cpool.compare_model() if ctx.model_ok else []
    ctx.coverage["constant_cast_disagreements_model"] = len(cbad)
    if cbad and not ctx.violations:
        ctx.broke("K", "tir/interpret.rs + builder vs model on constant casts", "model and implementation differ on %d constant casts; first:\n%s" % (len(cbad), cpool.describe_mismatch(cbad[0])))
    # ---------------- 2c. block-bodied constant bindings: let/const, reassignment, element writes, nested blocks, early return
    bpool = tircheck.Pool(ctx)
    bmeta = []
    for i in range(900 if thorough else 220):
        stmts, val = block_program(rng, fixed=i, dyn=(i % 3 == 2))
        bpool.add([(("binding_block", stmts), "const-block" + ("-with-run-time-reads" if i % 3 == 2 else ""))])
        bmeta.append(val)
    bpool.run()
    static = 0
    for i, (want, e) in enumerate(zip(bmeta, bpool.expected)):
        ctx.count(("cblock", bpool.sources[i]), True)
        r = bpool.impl[i]
        if e is None:
            ctx.violation("constant block crashes the builder: %r" % (r,), {"case": bpool.sources[i], "impl_output": r})
            continue
        ev = r.get("eval") if isinstance(r, dict) else None
        if ev is None:
            continue                      # not evaluated statically (or rejected): always safe for C03
        static += 1
        if want is DYN:
            ctx.violation("the block %s is evaluated statically to %r although the value it returns is computed from a property read at run time" % (bpool.sources[i], ev),
                          {"case": bpool.sources[i], "impl_output": ev, "oracle_output": "not a constant", "theorem_or_correspondence": "S: statement-level reference evaluator (taint)"})
            continue
        if ev == "emptylist":
            got = []
        elif "int" in ev:
            got = ev["int"]
        elif "bool" in ev:
            got = ev["bool"]
        elif "string" in ev:
            got = "".join(chr(c) for c in ev["string"][0])
        elif "string_list" in ev:
            got = ["".join(chr(c) for c in x[0]) for x in ev["string_list"]]
        else:
            got = ev
        if want is UNDEF or got != want:
            ctx.violation("the block %s is evaluated statically to %r; the value it denotes is %s" % (bpool.sources[i], got, "undefined" if want is UNDEF else repr(want)),
                          {"case": bpool.sources[i], "impl_output": ev, "oracle_output": None if want is UNDEF else want,
                           "theorem_or_correspondence": "S: statement-level reference evaluator"})
    ctx.coverage["constant_blocks_evaluated_statically"] = static
    bbad = bpool.compare_model() if ctx.model_ok else []
    ctx.coverage["constant_block_disagreements_model"] = len(bbad)
    if bbad and not ctx.violations:
        ctx.broke("K", "tir/interpret.rs evaluate_code + builder vs model/Passes.v", "model and implementation differ on %d constant blocks; first:\n%s" % (len(bbad), bpool.describe_mismatch(bbad[0])))
    # ---------------- 3. whole pipeline: constants in documents -> .ui value elements
    pipeline(ctx, vh, rng, 600 if thorough else 120)
    ctx.sample({"number_literal": nums[40][0], "impl": classify_literal(impl[40])})
    ctx.sample({"constant": pool.sources[100], "impl_eval": pool.impl[100].get("eval") if isinstance(pool.impl[100], dict) else None})
    ctx.coverage["rule"] = ("number spellings by the ES grammar (fixed list + random), string bodies over every escape form, the operator x sign x magnitude matrix "
                            "of constant integer expressions, and constant bindings in documents; non-trivial: all numbers, strings with a backslash, all matrix cells; distinct by text")


pool_meta = []
UNDEF = object()

FIXED_BLOCKS = [
    # (statements, value)
    ([("decl", "let", [("a", None, ("array", [("str", "x"), ("str", "y")]))]), ("expr", ("assign", ("sub", ("ident", "a"), ("int", 0)), ("str", "z"))), ("return", ("ident", "a"))], ["z", "y"]),
    ([("decl", "let", [("a", None, ("array", [("str", "x"), ("str", "y")]))]), ("expr", ("assign", ("sub", ("ident", "a"), ("int", 1)), ("str", "z"))), ("return", ("ident", "a"))], ["x", "z"]),
    ([("decl", "let", [("a", None, ("array", [("str", "x")]))]), ("decl", "let", [("b", None, ("ident", "a"))]), ("expr", ("assign", ("sub", ("ident", "b"), ("int", 0)), ("str", "q"))), ("return", ("ident", "a"))], ["x"]),
    ([("decl", "let", [("a", None, ("array", [("str", "x")]))]), ("decl", "let", [("b", None, ("ident", "a"))]), ("expr", ("assign", ("sub", ("ident", "b"), ("int", 0)), ("str", "q"))), ("return", ("ident", "b"))], ["q"]),
    ([("decl", "let", [("s", None, ("str", "a"))]), ("expr", ("assign", ("ident", "s"), ("str", "b"))), ("return", ("ident", "s"))], "b"),
    ([("decl", "let", [("n", None, ("int", 1))]), ("block", [("expr", ("assign", ("ident", "n"), ("int", 2)))]), ("return", ("ident", "n"))], 2),
    ([("decl", "let", [("n", None, ("int", 1))]), ("block", [("decl", "let", [("n", None, ("int", 5))]), ("expr", ("assign", ("ident", "n"), ("int", 2)))]), ("return", ("ident", "n"))], 1),
    ([("decl", "let", [("a", None, ("array", [("str", "x"), ("str", "y")]))]), ("expr", ("assign", ("sub", ("ident", "a"), ("int", 5)), ("str", "z"))), ("return", ("ident", "a"))], UNDEF),
]


def oracle_cast_chain(atom, chain):
    """value of ((atom as T1) as T2 ...) under the C++ conversions the generated code performs (two's complement narrowing, truncation toward zero;
    a floating value outside the target range has no defined result)"""
    def lit(a):
        if a[0] == "int":
            return ("lit", a[1])
        if a[0] == "float":
            return ("double", float(a[1]))
        if a[0] == "bool":
            return ("bool", a[1])
        if a[0] == "unary":
            k, v = lit(a[2])
            return (k, -v)
    k, v = lit(atom)
    for t in chain:
        if t == "bool":
            if k != "bool":
                return UNDEF          # not a documented cast: must not be evaluated at all
            continue
        if t == "double":
            v = float(int(v)) if k != "double" else v
            k = "double"
        else:
            if k == "double":
                tv = int(v)           # truncation toward zero
                lo, hi = (-2 ** 31, 2 ** 31 - 1) if t == "int" else (0, 2 ** 32 - 1)
                if not lo <= tv <= hi:
                    return UNDEF
                v = tv
            else:
                v = int(v) % 2 ** 32
                if t == "int" and v >= 2 ** 31:
                    v -= 2 ** 32
            k = t
    return v


DYN = object()


def block_program(rng, fixed=None, dyn=False):
    """a block over constants with let/const of int / string / string-list type, reassignments, element writes, nested blocks and a return;
    returns (statements, value) where value is what the block denotes (Python reference evaluation) or UNDEF (out-of-range element write)"""
    if fixed is not None and fixed < len(FIXED_BLOCKS):
        return FIXED_BLOCKS[fixed]
    scopes = [{}]              # name -> [kind, value, is_let]
    cnt = [0]
    undefined = [False]

    def visible(kind=None, let=False):
        out = {}
        for sc in scopes:
            out.update(sc)
        return [n for n, v in out.items() if (kind is None or v[0] == kind) and (not let or v[2])]

    def lookup(n):
        for sc in reversed(scopes):
            if n in sc:
                return sc[n]

    def expr(kind):
        names = visible(kind)
        if names and rng.random() < 0.5:
            n = rng.choice(names)
            v = lookup(n)[1]
            return ("ident", n), (list(v) if (kind == "list" and v is not DYN) else v)
        if dyn and rng.random() < 0.15:
            # a value read from an object at run time: whatever it flows into is no constant (DYN), however constant the variable was before
            e = {"int": ("member", ("ident", "a"), "i"), "str": ("member", ("ident", "a"), "s"), "list": ("member", ("ident", "a"), "names")}[kind]
            if kind != "list" and names and rng.random() < 0.6:
                n = rng.choice(names)
                e = ("binary", "+", ("ident", n), e)
            return e, DYN
        if kind == "int":
            v = rng.choice([0, 1, 2, 7, 100, 2 ** 31])
            return ("int", v), v
        if kind == "str":
            v = rng.choice(["", "a", "b c", "é", "x\"y"])
            return ("str", v), v
        vs = [rng.choice(["p", "q", "r s", ""]) for _ in range(rng.randrange(1, 4))]
        return ("array", [("str", x) for x in vs]), vs

    def stmts(depth, n):
        out = []
        for _ in range(n):
            c = rng.random()
            if c < 0.35 or not visible():
                kind = rng.choice(["int", "str", "list", "list"])
                e, v = expr(kind)
                name = "v%d" % cnt[0] if rng.random() < 0.8 or not visible() else rng.choice(visible())
                cnt[0] += 1
                if name in scopes[-1]:
                    name = "v%d" % cnt[0]
                    cnt[0] += 1
                let = rng.random() < 0.7
                scopes[-1][name] = [kind, v, let]
                out.append(("decl", "let" if let else "const", [(name, None, e)]))
            elif c < 0.55 and visible(let=True):
                n_ = rng.choice(visible(let=True))
                ent = lookup(n_)
                e, v = expr(ent[0])
                ent[1] = v
                out.append(("expr", ("assign", ("ident", n_), e)))
            elif c < 0.85 and visible("list", let=True):
                n_ = rng.choice(visible("list", let=True))
                ent = lookup(n_)
                i = rng.choice([0, 0, 1, 2, (len(ent[1]) - 1) if ent[1] is not DYN else 0])
                e, v = expr("str")
                if ent[1] is DYN:
                    pass
                elif v is DYN:
                    ent[1] = DYN
                elif 0 <= i < len(ent[1]):
                    ent[1] = ent[1][:i] + [v] + ent[1][i + 1:]
                else:
                    undefined[0] = True
                out.append(("expr", ("assign", ("sub", ("ident", n_), ("int", i)), e)))
            elif depth < 2:
                scopes.append({})
                inner = stmts(depth + 1, rng.randrange(1, 4))
                scopes.pop()
                out.append(("block", inner))
        return out

    body = stmts(0, rng.randrange(2, 7))
    names = visible()
    if not names:
        return block_program(rng, dyn=dyn)
    n_ = rng.choice(names)
    val = lookup(n_)[1]
    body.append(("return", ("ident", n_)))
    return body, (UNDEF if undefined[0] else val)


def classify_literal(r):
    if not isinstance(r, dict) or "panic" in r or "crash" in r or "hang" in r:
        return ("crash",)
    if r.get("syntax_error"):
        return ("lexrej",)      # refused by the tree-sitter grammar before the modelled parser is reached
    if not r.get("ok"):
        if r.get("diags") and any(d["msg"].startswith("integer conversion failed") for d in r["diags"]):
            return ("conv",)
        if r.get("diags") and all(d["msg"] == "syntax error" for d in r["diags"]):
            return ("rej",)         # the token reached parse_number / parse_string and was refused there (ParseErrorKind::InvalidSyntax)
        return ("lexrej",)          # not lexed as one literal token at all (e.g. `_1` is an identifier)
    ev = r.get("eval")
    if isinstance(ev, dict) and "int" in ev:
        return ("int", ev["int"])
    if isinstance(ev, dict) and "float" in ev:
        b = ev["float"]
        return ("float", b)
    if isinstance(ev, dict) and "string" in ev:
        return ("string", ev["string"][0])
    return ("rej",)


def oracle_string(body):
    """ES string value (sloppy mode, Annex B) of a literal body: single escapes, \\xHH, \\uHHHH, \\u{...}, legacy octal, line continuations,
    identity escapes; None = the body is no ECMAScript literal (malformed \\x / \\u, lone surrogate): not judged"""
    out = []
    i = 0
    while i < len(body):
        ch = body[i]
        if ch != "\\":
            out.append(ch); i += 1
            continue
        if i + 1 >= len(body):
            return None
        n = body[i + 1]
        if n in ES_SINGLE and not (n == "0" and i + 2 < len(body) and body[i + 2].isdigit()):
            out.append(ES_SINGLE[n]); i += 2
        elif n == "x" and re.match(r"[0-9a-fA-F]{2}", body[i + 2:i + 4]):
            out.append(chr(int(body[i + 2:i + 4], 16))); i += 4
        elif n == "u" and re.match(r"[0-9a-fA-F]{4}", body[i + 2:i + 6]) and not (0xd800 <= int(body[i + 2:i + 6], 16) <= 0xdfff):
            out.append(chr(int(body[i + 2:i + 6], 16))); i += 6
        elif n in "xu":
            m = re.match(r"u\{([0-9a-fA-F]+)\}", body[i + 1:])
            if m and int(m.group(1), 16) <= 0x10ffff and not (0xd800 <= int(m.group(1), 16) <= 0xdfff):
                out.append(chr(int(m.group(1), 16))); i += 1 + len(m.group(0))
            else:
                return None
        elif n in "01234567":
            # legacy octal escape (ECMAScript Annex B): up to three digits, value at most 0o377
            m = re.match(r"[0-3][0-7]{0,2}|[4-7][0-7]?", body[i + 1:])
            out.append(chr(int(m.group(0), 8))); i += 1 + len(m.group(0))
        elif n == "\r" and body[i + 2:i + 3] == "\n":
            i += 3                                  # line continuation: contributes nothing
        elif n in "\n\r\u2028\u2029":
            i += 2
        else:
            out.append(n); i += 2                   # any other character stands for itself (8 and 9 included)
    return "".join(out)


def oracle_float(op, a, b):
    """IEEE-754 binary64 / ECMAScript value of `a op b` on doubles (Python floats are binary64; the cases Python refuses are spelled out)"""
    import math
    nan, inf = float("nan"), float("inf")
    if op in ("max", "min"):
        # what the run-time code computes (std::max / std::min, model/Sem.v): the FIRST operand unless the comparison says otherwise -- a NaN first operand stays
        return (b if a < b else a) if op == "max" else (b if b < a else a)
    if op in ("==", "!=", "<", "<=", ">", ">="):
        if a != a or b != b:
            return op == "!="
        return {"==": a == b, "!=": a != b, "<": a < b, "<=": a <= b, ">": a > b, ">=": a >= b}[op]
    if a != a or b != b:
        return nan
    if op == "+":
        return a + b
    if op == "-":
        return a - b
    if op == "*":
        return a * b
    if op == "/":
        if b == 0.0:
            if a == 0.0:
                return nan
            neg = (math.copysign(1.0, a) < 0) != (math.copysign(1.0, b) < 0)
            return -inf if neg else inf
        return a / b
    if op == "%":
        if math.isinf(a) or b == 0.0:
            return nan
        if math.isinf(b):
            return a
        return math.fmod(a, b)
    raise KeyError(op)


def oracle_fold(op, a, b):
    """mathematical value of the constant integer expression, None when undefined (must be rejected)"""
    def rng(x):
        return x if I64_MIN <= x <= I64_MAX else None
    # the operands themselves: -(2^63) is not expressible as a literal (the literal 2^63 is rejected first)
    if not (I64_MIN <= a <= I64_MAX and I64_MIN <= b <= I64_MAX):
        return None
    if op == "+":
        return rng(a + b)
    if op == "-":
        return rng(a - b)
    if op == "*":
        return rng(a * b)
    if op == "/":
        return None if b == 0 else rng(abs(a) // abs(b) * (1 if (a < 0) == (b < 0) else -1))
    if op == "%":
        return None if b == 0 else rng((abs(a) % abs(b)) * (-1 if a < 0 else 1))
    if op == "&":
        return a & b
    if op == "|":
        return a | b
    if op == "^":
        return a ^ b
    if op == "<<":
        return None if b < 0 or b >= 64 else rng(a << b)
    if op == ">>":
        return None if b < 0 or b >= 64 else a >> b
    if op == ">>>":
        # ECMAScript: ToUint32(a) >>> (ToUint32(b) & 31); exact only while both operands are safe integers
        return None if b < 0 or b >= 64 or abs(a) > 2 ** 53 else (a % 2 ** 32) >> (b % 32)
    if op == "**":
        return None if b < 0 or (b > 64 and abs(a) > 1) else rng(a ** b)
    if op == "??":
        return a
    return {"==": a == b, "!=": a != b, "<": a < b, "<=": a <= b, ">": a > b, ">=": a >= b, "===": a == b, "!==": a != b}[op]


# ---------------------------------------------------------------- pipeline
def const_int(rng, d=0):
    if d > 2 or rng.random() < 0.4:
        return rng.choice([0, 1, 2, 7, 10, 100, 255, 1000, 65535]), None
    op = rng.choice(["+", "-", "*", "/", "%", "&", "|", "<<", ">>"])
    (a, ea), (b, eb) = const_int(rng, d + 1), const_int(rng, d + 1)
    return None, (op, (a, ea), (b, eb))


def render_int(t):
    v, e = t
    if e is None:
        return str(v), v
    op, l, r = e
    ls, lv = render_int(l)
    rs, rv = render_int(r)
    val = None if lv is None or rv is None else oracle_fold(op, lv, rv)
    return "(%s %s %s)" % (ls, op, rs), val


def pipeline(ctx, vh, rng, n):
    import os
    os.environ["VERIF_EXTRA_METATYPES"] = ""
    docs = []
    metas = []
    strings = ["", "a", "x y", " lead", "trail ", "é", "あい", "a\"b", "<&>'", "\U0001f600", "line\nbreak", "tab\tx", "%1 of %2", "]]>", "&amp;",
               # control characters NEXT TO characters that need escaping (the two are handled by different layers of the writer)
               "Tom & Jerry\rline two", "a\r<b>", "x\r\"y\"", "\r&", "it's\r\nhere", "<\r>", "\r", "a\rb"]
    for _ in range(n):
        istr, ival = render_int(const_int(rng))
        s1, s2 = rng.choice(strings), rng.choice(strings)
        tr = rng.random() < 0.4
        bexp, bval = rng.choice([("true", True), ("false", False), ("!false", True), ("1 < 2", True), ("true && false", False), ("\"a\" < \"b\"", True), ("2 == 2.0", None)])
        al = rng.sample(["Qt.AlignLeft", "Qt.AlignTop", "Qt.AlignRight", "Qt.AlignBottom", "Qt.AlignHCenter"], rng.randrange(1, 4))
        items = [rng.choice(strings) for _ in range(rng.randrange(0, 4))]
        text = prog.qml_str(s1) + " + " + prog.qml_str(s2) if not tr else "qsTr(%s)" % prog.qml_str(s1)
        doc = ("import qmluic.QtWidgets\nQWidget {\n  QSpinBox { id: sb; maximum: %s }\n  QLabel { id: lb; text: %s; alignment: %s; buddy: sb }\n"
               "  QCheckBox { id: cb; checked: %s }\n  QComboBox { id: co; model: [%s] }\n  QDoubleSpinBox { id: ds; maximum: 2.5e2 + 0.5 }\n}\n"
               % (istr, text, " | ".join(al), bexp, ", ".join(prog.qml_str(x) for x in items)))
        docs.append(doc)
        metas.append({"int": ival, "text": s1 if tr else s1 + s2, "tr": tr, "bool": bval, "align": al, "items": items})
    res = qml.run_docs(vh, docs, mode="generate")
    checked = 0
    for doc, m, r in zip(docs, metas, res):
        ctx.count(("doc", doc), True)
        if not isinstance(r, dict) or "panic" in r or "crash" in r:
            ctx.violation("pipeline crashes on a document with constant bindings", {"case": doc, "impl_output": r})
            continue
        msgs = [d["msg"] for d in r["diags"]]
        if r.get("ui") is None:
            continue
        root = qml.parse_ui(r["ui"])
        w = {e.get("name"): e for e in root.iter("widget")}

        def prop(wn, pn):
            for p in w[wn].findall("property"):
                if p.get("name") == pn:
                    return p[0]
            return None
        mx = prop("sb", "maximum")
        if m["int"] is None:
            if mx is not None:
                ctx.violation("an undefined constant integer expression is embedded in the .ui as %r" % mx.text, {"case": doc, "impl_output": mx.text})
        elif mx is None:
            if not msgs:
                ctx.violation("constant integer binding neither embedded nor diagnosed", {"case": doc, "impl_output": r["ui"]})
        elif float(mx.text) != m["int"]:
            ctx.violation("constant integer %d is embedded as %r" % (m["int"], mx.text), {"case": doc, "impl_output": mx.text, "oracle_output": m["int"]})
        t = prop("lb", "text")
        if t is not None:
            got = t.text or ""
            if got != m["text"] or (t.get("notr") == "true") == m["tr"]:
                ctx.violation("string constant embedded as %r (notr=%r); source value %r, translatable=%r" % (got, t.get("notr"), m["text"], m["tr"]),
                              {"case": doc, "impl_output": got, "oracle_output": m["text"]})
        a = prop("lb", "alignment")
        if a is not None and a.text.split("|") != [x.replace("Qt.", "Qt::") for x in m["align"]]:
            ctx.violation("flag set embedded as %r; source %r" % (a.text, m["align"]), {"case": doc, "impl_output": a.text})
        bd = prop("lb", "buddy")
        if bd is not None and bd.text != "sb":
            ctx.violation("object reference embedded as %r; source sb" % bd.text, {"case": doc})
        c = prop("cb", "checked")
        if c is not None and m["bool"] is not None and c.text != ("true" if m["bool"] else "false"):
            ctx.violation("bool constant embedded as %r; source value %r" % (c.text, m["bool"]), {"case": doc})
        if m["bool"] is None and c is not None:
            ctx.violation("ill-typed constant (2 == 2.0) embedded as %r" % c.text, {"case": doc})
        its = [i.find("property").find("string").text or "" for i in w["co"].findall("item")]
        if its != [x for x in m["items"]] and not msgs:
            ctx.violation("string list embedded as %r; source %r" % (its, m["items"]), {"case": doc})
        d = prop("ds", "maximum")
        if d is not None and float(d.text) != 250.5:
            ctx.violation("double constant 2.5e2 + 0.5 embedded as %r" % d.text, {"case": doc})
        checked += 1
    ctx.coverage["pipeline_documents_checked"] = checked
    enum_places(ctx, vh, rng)
    menu_actions(ctx, vh, rng, max(12, n // 4))


ENUM_PLACES = [  # (class, binding name, qualifier, variants, how the value is found in the .ui)
    ("QLabel", "alignment", "Qt", ["AlignLeft", "AlignTop", "AlignRight", "AlignBottom", "AlignHCenter"], r"<set>(.*?)</set>"),
    ("QLabel", "textFormat", "Qt", ["RichText", "PlainText", "AutoText"], r"<enum>(.*?)</enum>"),
    ("QLabel", "font.styleStrategy", "QFont", ["PreferAntialias", "NoSubpixelAntialias", "PreferQuality", "ForceOutline", "NoAntialias"], r"<stylestrategy>(.*?)</stylestrategy>"),
    ("QLabel", "cursor", "Qt", ["WaitCursor", "BusyCursor", "ArrowCursor", "IBeamCursor"], r"<cursorShape>(.*?)</cursorShape>"),
    ("QLabel", "sizePolicy.horizontalPolicy", "QSizePolicy", ["Expanding", "Fixed", "Minimum", "Preferred"], r'hsizetype="(.*?)"'),
    ("QLabel", "sizePolicy.verticalPolicy", "QSizePolicy", ["Expanding", "Fixed", "Minimum"], r'vsizetype="(.*?)"'),
    ("QLabel", "palette.window.style", "Qt", ["SolidPattern", "Dense4Pattern", "NoBrush", "CrossPattern"], r'brushstyle="(.*?)"'),
    ("QGraphicsView", "backgroundBrush.style", "Qt", ["SolidPattern", "Dense4Pattern", "HorPattern"], r'brushstyle="(.*?)"'),
    ("QToolButton", "toolButtonStyle", "Qt", ["ToolButtonIconOnly", "ToolButtonTextOnly"], r"<enum>(.*?)</enum>"),
]


def enum_places(ctx, vh, rng):
    """enumerators and OR-ed enumerators in every place of the .ui that takes one (set, enum, members of font / size policy / brush, cursor shape): the embedded text
    names exactly the enumerators of the source, in order, whatever qualifier each of them carries"""
    docs, metas = [], []
    for cls, name, q, vs, rx in ENUM_PLACES:
        for k in (1, 1, 2, 2, 3):
            sel = rng.sample(vs, min(k, len(vs)))
            docs.append("import qmluic.QtWidgets\nQWidget {\n  %s {\n    id: w\n    %s: %s\n  }\n}\n" % (cls, name, " | ".join("%s.%s" % (q, v) for v in sel)))
            metas.append((name, sel, rx))
    res = qml.run_docs(vh, docs, mode="generate")
    emb = 0
    for doc, (name, sel, rx), r in zip(docs, metas, res):
        ctx.count(("enum-place", doc), True)
        ctx.dist("enum-place-%d-enumerators" % len(sel))
        if not isinstance(r, dict) or "diags" not in r:
            ctx.violation("pipeline crashes on an enumerator constant", {"case": doc, "impl_output": str(r)[:300]})
            continue
        if r.get("ui") is None or any(d["kind"] == "error" for d in r["diags"]):
            continue                 # refused: safe
        m = re.search(rx, r["ui"], re.S)
        if m is None:
            ctx.violation("%s: the constant %s is accepted without diagnostic and appears nowhere in the .ui" % (name, " | ".join(sel)), {"case": doc, "impl_output": r["ui"]})
            continue
        emb += 1
        got = [x.strip().split("::")[-1] for x in m.group(1).split("|")]
        if got != sel:
            ctx.violation("%s: the enumerators %s are embedded as %r, which names %s" % (name, " | ".join(sel), m.group(1), got),
                          {"case": doc, "impl_output": m.group(1), "oracle_output": "|".join(sel), "theorem_or_correspondence": "S: enumerator constants in every value place"})
    ctx.coverage["enum_places_embedded"] = emb


MENU_ELEMS = [("m1.menuAction()", "m1"), ("m2.menuAction()", "m2"), ("m3.menuAction()", "m3"), ("act", "act"),
              # calls that are not QMenu::menuAction(): their value is only known at run time, so no constant may be embedded for them
              ("m2.otherAction()", None), ("m2.actionFor(1)", None), ("bar.menuAction()", None)]


def menu_actions(ctx, vh, rng, n):
    """object references written as X.menuAction(): the one call the static evaluator folds.  The emitted <addaction> names must
    be exactly the menus named in the source, and a list holding any other call (another method returning QAction*, a method with
    arguments, menuAction() of a class that is not QMenu; classes from data/c03_menu_metatypes.json) is not a constant at all."""
    import os
    os.environ["VERIF_EXTRA_METATYPES"] = C.VERIF + "/data/c03_menu_metatypes.json"
    docs, metas = [], []
    singles = [[e] for e in MENU_ELEMS]
    for i in range(n):
        els = singles[i] if i < len(singles) else [rng.choice(MENU_ELEMS[:4] if rng.random() < 0.6 else MENU_ELEMS) for _ in range(rng.randrange(1, 5))]
        doc = ("import qmluic.QtWidgets\nQMainWindow {\n  QAction { id: act }\n  QMenuBar {\n    id: mb\n    QMenu { id: m1 }\n    MyMenu { id: m2 }\n"
               "    QMenu { id: m3; title: \"T\" }\n    MyBar { id: bar }\n    actions: [%s]\n  }\n}\n" % ", ".join(e[0] for e in els))
        docs.append(doc)
        metas.append(els)
    res = qml.run_docs(vh, docs, mode="generate")
    os.environ["VERIF_EXTRA_METATYPES"] = ""
    ok = 0
    for doc, els, r in zip(docs, metas, res):
        ctx.count(("menu", doc), True)
        ctx.dist("menu-static" if all(e[1] for e in els) else "menu-runtime-call")
        if not isinstance(r, dict) or "panic" in r or "crash" in r:
            ctx.violation("pipeline crashes on a document with menuAction() references", {"case": doc, "impl_output": r})
            continue
        if r.get("ui") is None:
            if all(e[1] for e in els) and not r["diags"]:
                ctx.violation("no form and no diagnostic for a constant action list", {"case": doc})
            continue
        root = qml.parse_ui(r["ui"])
        mb = [e for e in root.iter("widget") if e.get("name") == "mb"]
        got = [a.get("name") for a in mb[0].findall("addaction")] if mb else []
        # the menus themselves are children of the bar: uigen adds nothing for them unless the binding says so
        if all(e[1] for e in els):
            want = [e[1] for e in els]
            if got != want and not r["diags"]:
                ctx.violation("object references embedded as %r; the source list denotes %r" % (got, want), {"case": doc, "impl_output": got, "oracle_output": want})
            else:
                ok += 1
        elif got:
            ctx.violation("a list holding a call whose value is only known at run time is embedded as the constant %r" % got,
                          {"case": doc, "impl_output": got, "oracle_output": []})
        else:
            ok += 1
    ctx.coverage["menu_action_documents_checked"] = ok

"""C09 -- The .ui is well-formed, grammar-conformant XML that preserves strings.

P: props/C09.v (round trip of the text writer for every string of XML characters; character legality).
K: the bytes between <string ...> and </string> of the real .ui vs model/Xml.v escape_text, over strings of all character classes.
S (validation of real outputs): every .ui of generated documents, of the repository's example/test documents and of their
   mutants parses with expat, has root <ui version="4.0">, one <class>, one root <widget>, stays inside the Designer form
   grammar table below (nesting, exactly one value element per property, no duplicate property names per element), and
   every string read back equals the source value; a string with a character XML 1.0 cannot carry is diagnosed, not written.
"""
import json
import os
import re
import xml.etree.ElementTree as ET
from . import common as C
from . import docs, gdoc, prog, qml

TARGETS = ["props/C09.vo"]
PINS = "pins/C09.v"
K_TARGETS = ["model/Xml.vo"]
HEADER = "From QV Require Import model.Base model.Lang model.Xml.\nFixpoint nl_eqb (a b : list N) : bool := match a, b with [] , [] => true | x :: r, y :: s => N.eqb x y && nl_eqb r s | _, _ => false end."
TRUSTED = ["expat (xml.etree) as the XML 1.0 processor; the Designer form grammar table in vlib/c09.py (from Qt's ui4 format, the subset qmluic writes)",
           "the element structure is validated per output, not proved"]

VALUE_TAGS = {"bool", "number", "string", "cstring", "enum", "set", "cursorShape", "pixmap", "color", "brush", "font", "iconset", "palette", "rect", "size",
              "sizepolicy", "stringlist", "margins"}
CHILDREN = {
    "ui": {"class", "widget", "customwidgets"},
    "widget": {"attribute", "property", "addaction", "item", "widget", "layout", "action"},
    "layout": {"property", "item"},
    "spacer": {"property"},
    "action": {"property"},
    "customwidgets": {"customwidget"},
    "customwidget": {"class", "extends", "header"},
    "stringlist": {"string"},
    "font": {"family", "pointsize", "weight", "italic", "bold", "underline", "strikeout", "kerning", "stylestrategy", "antialiasing"},
    "rect": {"x", "y", "width", "height"}, "size": {"width", "height"}, "sizepolicy": {"horstretch", "verstretch"},
    "color": {"red", "green", "blue"}, "brush": {"color"}, "iconset": {"normaloff", "normalon", "disabledoff", "disabledon", "activeoff", "activeon", "selectedoff", "selectedon"},
    "palette": {"active", "inactive", "disabled"}, "active": {"colorrole"}, "inactive": {"colorrole"}, "disabled": {"colorrole"}, "colorrole": {"brush"},
    "margins": {"left", "top", "right", "bottom"},
}


def grammar_errors(root, type_name):
    errs = []
    if root.tag != "ui" or root.get("version") != "4.0":
        errs.append("root is not <ui version=\"4.0\">")
    cls = root.findall("class")
    if len(cls) != 1 or cls[0].text != type_name:
        errs.append("not exactly one <class> equal to the type name: %r" % [c.text for c in cls])
    if len(root.findall("widget")) != 1:
        errs.append("not exactly one root <widget>")

    def visit(el, parent):
        allowed = CHILDREN.get(el.tag)
        names = []
        for ch in el:
            if el.tag in ("property", "attribute"):
                continue
            if el.tag == "item":
                continue
            if allowed is not None and ch.tag not in allowed:
                errs.append("<%s> inside <%s>" % (ch.tag, el.tag))
        if el.tag in ("property", "attribute"):
            if len(el) != 1 or el[0].tag not in VALUE_TAGS:
                errs.append("<%s name=%r> has %d value elements %s" % (el.tag, el.get("name"), len(el), [c.tag for c in el]))
            if el.get("name") is None:
                errs.append("<%s> without name" % el.tag)
        if el.tag == "item":
            if parent is not None and parent.tag == "layout":
                kinds = [c.tag for c in el]
                if len(kinds) != 1 or kinds[0] not in ("widget", "layout", "spacer"):
                    errs.append("layout <item> contains %s" % kinds)
            else:
                if any(c.tag != "property" for c in el):
                    errs.append("model <item> contains %s" % [c.tag for c in el])
        if el.tag in ("widget", "layout", "spacer", "action", "item"):
            for tag in ("property", "attribute"):
                ns = [c.get("name") for c in el.findall(tag)]
                if len(ns) != len(set(ns)):
                    errs.append("duplicate <%s> names in <%s name=%r>: %s" % (tag, el.tag, el.get("name"), ns))
        if el.tag in ("widget", "layout") and (el.get("class") is None or el.get("name") is None):
            errs.append("<%s> without class/name" % el.tag)
        if el.tag in ("spacer", "action", "addaction") and el.get("name") is None:
            errs.append("<%s> without name" % el.tag)
        for ch in el:
            visit(ch, el)
    visit(root, None)
    return errs


CLASSES = {
    "ascii": [chr(c) for c in range(0x20, 0x7f)],
    "markup": list("<>&\"'"),
    "white": ["\t", "\n", "\r", " ", "\r\n"],
    "latin": list("éüß¿"), "bmp": list("あ日本€ �퟿"), "astral": ["\U0001f600", "\U00010000", "\U0010ffff"],
    "nonxml": ["\x00", "\x01", "\x08", "\x0b", "\x0c", "\x1f", "￾", "￿"],
}


def gen_string(rng):
    n = rng.randrange(0, 10)
    kinds = rng.choice([["ascii"], ["ascii", "markup"], ["ascii", "markup", "white"], ["latin", "bmp", "astral", "ascii"], ["ascii", "white"], ["ascii", "nonxml", "markup"],
                        list(CLASSES)])
    return "".join(rng.choice(CLASSES[rng.choice(kinds)]) for _ in range(n))


def is_xml_char(ch):
    o = ord(ch)
    return o in (9, 10, 13) or 0x20 <= o <= 0xd7ff or 0xe000 <= o <= 0xfffd or 0x10000 <= o <= 0x10ffff


def regenerated_files(ctx):
    """the .ui as it sits ON DISK after the command regenerated it over an older, longer or shorter one: still one well-formed document holding the strings of the
    current source"""
    import os
    import shutil
    import subprocess
    from . import c07
    cli = c07.build_cli()
    work = os.path.join(C.BUILD, "c09regen")
    shutil.rmtree(work, ignore_errors=True)
    os.makedirs(work)
    doc = lambda n, t: "import qmluic.QtWidgets\nQWidget {\n" + "".join("  QLabel { text: \"%s %d\" }\n" % (t, i) for i in range(n)) + "}\n"
    seq = [(6, "long <&> one"), (2, "short"), (9, "longer \u00e9"), (1, "x"), (1, "x"), (4, "mid]]>")]
    for k, (n, t) in enumerate(seq):
        open(os.path.join(work, "Form.qml"), "w").write(doc(n, t))
        pr = subprocess.run([cli, "generate-ui", "--foreign-types", os.path.join(C.REPO, "contrib", "metatypes"), "Form.qml"], cwd=work, capture_output=True, text=True, timeout=120)
        ctx.count(("regenerated", k), True)
        ctx.dist("regenerated-over-existing-output")
        if pr.returncode != 0:
            ctx.violation("generate-ui fails on a valid document: %s" % pr.stderr[-300:], {"history": seq[:k + 1], "impl_output": pr.stderr[-600:]})
            break
        for out in ("form.ui", "uisupport_form.h"):
            data = open(os.path.join(work, out), "rb").read()
            if out.endswith(".ui"):
                try:
                    root = ET.fromstring(data)
                except ET.ParseError as e:
                    ctx.violation("after regenerating (%d labels over %d) the .ui on disk is not well-formed XML: %s" % (n, seq[k - 1][0] if k else 0, e),
                                  {"history": [list(x) for x in seq[:k + 1]], "impl_output": data.decode("utf-8", "replace")[-600:], "theorem_or_correspondence": "S: expat on the file as written"})
                    shutil.rmtree(work, ignore_errors=True)
                    return
                got = [p.find("string").text for w in root.iter("widget") for p in w.findall("property") if p.get("name") == "text"]
                if got != ["%s %d" % (t, i) for i in range(n)]:
                    ctx.violation("after regenerating, the .ui on disk holds the strings %r, the source has %d labels '%s i'" % (got[:3], n, t), {"history": [list(x) for x in seq[:k + 1]]})
            elif data.count(b"#pragma once") != 1 or not data.rstrip().endswith(b"} // namespace UiSupport"):
                ctx.violation("after regenerating, the support header on disk is not one complete header", {"history": [list(x) for x in seq[:k + 1]], "impl_output": data.decode("utf-8", "replace")[-400:]})
    shutil.rmtree(work, ignore_errors=True)


def run(ctx):
    ctx.proof_leg(TARGETS, PINS, k_targets=K_TARGETS)
    vh = ctx.need_harness()
    if not ctx.replay:
        regenerated_files(ctx)
    rng = ctx.rng
    os.environ["VERIF_EXTRA_METATYPES"] = ""
    thorough = ctx.tier == "thorough"
    # ---------------- K + S on single strings
    strs = ["", "a", "<&>\"'", "a\rb", "a\r\nb", "\r", "\n", "\t", " x ", "]]>", "&amp;", "&#13;", "\x01", "a\x0bb", "￿", "é", "\U0001f600",
            "Vendor::Mono 12", "::", "a::", "::b", "Qt::AlignLeft", "a|b", "x.y", "QFont::Bold|QFont::Light"] + \
           [gen_string(rng) for _ in range(9000 if thorough else 500)]
    # every place a source string is written into the .ui: element text (plain, translatable, item, string list, pixmap, icon file, key sequence, tab
    # attributes) and attribute values (icon theme)
    SDOC = ("import qmluic.QtWidgets\nQWidget {\n  windowIcon.name: %(s)s\n  QLabel { id: x; text: %(s)s }\n  QComboBox { id: y; model: [%(s)s, \"z\"] }\n"
            "  QLabel { id: p; pixmap: %(s)s }\n  QLabel { id: t; text: qsTr(%(s)s) }\n  QTextBrowser { id: sl; searchPaths: [%(s)s, \"z\"] }\n"
            "  QToolButton { id: ic; icon.name: %(s)s; shortcut: %(s)s; icon.normalOff: %(s)s }\n  QLabel { id: ff; font.family: %(s)s }\n"
            "  QTabWidget { QWidget { id: pg; QTabWidget.title: %(s)s; QTabWidget.toolTip: %(s)s; QTabWidget.icon.name: %(s)s } }\n}\n")
    NPLACES = 13
    sdocs = [SDOC % {"s": prog.qml_str(s)} for s in strs]
    res = qml.run_docs(vh, sdocs)
    terms, aterms = [], []
    for s, d, r in zip(strs, sdocs, res):
        ok_chars = all(is_xml_char(c) for c in s)
        ctx.count(("str", s), len(s) > 0)
        ctx.dist("string-" + ("xml" if ok_chars else "nonxml"))
        if not isinstance(r, dict) or "panic" in r or "crash" in r:
            ctx.violation("pipeline crashes on a string", {"case": s, "qml": d, "impl_output": r})
            continue
        if not ok_chars:
            if r.get("ui") is not None and not any(x["kind"] == "error" for x in r["diags"]):
                ctx.violation("a string with a character XML 1.0 cannot carry (%r) is written without diagnostic" % [hex(ord(c)) for c in s if not is_xml_char(c)][:3],
                              {"case": s, "qml": d, "impl_output": r.get("ui"), "theorem_or_correspondence": "C09_non_xml_char_ill_formed / S"})
            continue
        if r.get("ui") is None:
            ctx.violation("a string of XML characters is rejected: %s" % [x["msg"] for x in r["diags"]], {"case": s, "qml": d})
            continue
        try:
            root = ET.fromstring(r["ui"].encode("utf-8"))
        except ET.ParseError as e:
            ctx.violation("the .ui is not well-formed XML: %s" % e, {"case": s, "qml": d, "impl_output": r["ui"], "theorem_or_correspondence": "S: expat"})
            continue
        lab = [w for w in root.iter("widget") if w.get("name") == "x"][0]
        got = lab.find("property").find("string").text or ""
        if got != s:
            ctx.violation("string read back by an XML parser differs from the source: %r != %r" % (got, s),
                          {"case": s, "qml": d, "impl_output": got, "theorem_or_correspondence": "C09_roundtrip / S"})
        combo = [w for w in root.iter("widget") if w.get("name") == "y"][0]
        got2 = combo.find("item").find("property").find("string").text or ""
        if got2 != s:
            ctx.violation("item string read back differs from the source: %r != %r" % (got2, s), {"case": s, "qml": d, "impl_output": got2})
        # every other place
        places = [(el.tag, el.text or "") for el in root.iter() if el.tag in ("string", "pixmap", "normaloff", "family")] + [("@theme", el.get("theme")) for el in root.iter("iconset") if el.get("theme") is not None]
        places = [pv for pv in places if pv[1] != "z" or s == "z"]
        wrong = [pv for pv in places if pv[1] != s]
        if wrong:
            ctx.violation("a string read back from the .ui (%s) differs from the source: %r != %r" % (wrong[0][0], wrong[0][1], s),
                          {"case": s, "qml": d, "impl_output": r["ui"], "theorem_or_correspondence": "C09_roundtrip / S"})
        elif len(places) < NPLACES:
            ctx.violation("the string appears in %d of the %d places it was bound to" % (len(places), NPLACES), {"case": s, "qml": d, "impl_output": r["ui"]})
        m = re.search(r'<widget class="QLabel" name="x">\s*<property name="text">\s*<string notr="true">(.*?)</string>', r["ui"], re.S)
        if m:
            terms.append(("(%s)%%N" % C.coq_list([str(ord(c)) for c in s]), "(%s)%%N" % C.coq_list([str(ord(c)) for c in m.group(1)])))
        m = re.search(r'<iconset theme="([^"]*)">', r["ui"])
        if m:
            aterms.append(("(%s)%%N" % C.coq_list([str(ord(c)) for c in s]), "(%s)%%N" % C.coq_list([str(ord(c)) for c in m.group(1)])))
    # the one string of the .ui that does not come from the document text: the form's class = the type name of the document (the stem of the file name, which
    # may hold any character a file name can)
    tnames = ["MyType", "R&D", "P&lt;Q", "a<b", "x>y", "q\"uote", "it's", "\u00e9t\u00e9", "]]>", "a b", "&", "<", "A&amp;B", "x&#10;y", "tab\tname", "--", "<!--x-->", "<class>"] + \
             ["".join(rng.choice("ab<>&\"' ;#x]") for _ in range(rng.randrange(1, 8))) for _ in range(200 if thorough else 40)]
    tdoc = "import qmluic.QtWidgets\nQWidget { QLabel { text: \"t\" } }\n"
    tres = qml.run_docs(vh, [{"source": tdoc, "mode": "generate", "type_name": tn} for tn in tnames])
    for tn, r in zip(tnames, tres):
        ctx.count(("type-name", tn), tn != "MyType")
        ctx.dist("type-name")
        if not isinstance(r, dict) or "diags" not in r:
            ctx.violation("pipeline crashes on a document type name", {"case": tn, "impl_output": str(r)[:300]})
            continue
        if r.get("ui") is None:
            continue
        try:
            troot = ET.fromstring(r["ui"].encode("utf-8"))
        except ET.ParseError as e:
            ctx.violation("the .ui of a document whose type name is %r is not well-formed XML: %s" % (tn, e), {"case": tn, "qml": tdoc, "type_name": tn, "impl_output": r["ui"], "theorem_or_correspondence": "S: expat"})
            continue
        got = troot.find("class").text or ""
        if got != tn:
            ctx.violation("the form's class read back by an XML parser is %r; the document's type name is %r" % (got, tn), {"case": tn, "qml": tdoc, "type_name": tn, "impl_output": r["ui"],
                                                                                                                  "theorem_or_correspondence": "C09_roundtrip / S"})
    # a string XML cannot carry must be diagnosed in EVERY place, one place per document (in the all-places document one diagnosed place hides the others)
    ONE = ["  windowIcon.name: %s\n", "  QLabel { text: %s }\n", "  QComboBox { model: [%s, \"z\"] }\n", "  QLabel { pixmap: %s }\n", "  QLabel { text: qsTr(%s) }\n",
           "  QTextBrowser { searchPaths: [%s, \"z\"] }\n", "  QToolButton { icon.name: %s }\n", "  QToolButton { shortcut: %s }\n", "  QToolButton { icon.normalOff: %s }\n",
           "  QToolButton { icon.disabledOn: %s }\n", "  QLabel { font.family: %s }\n", "  QTabWidget { QWidget { QTabWidget.title: %s } }\n", "  QTabWidget { QWidget { QTabWidget.toolTip: %s } }\n",
           "  QTabWidget { QWidget { QTabWidget.icon.name: %s } }\n", "  QTabWidget { QWidget { QTabWidget.icon.normalOn: %s } }\n", "  windowIcon.selectedOff: %s\n"]
    bads = [x for x in strs if x and not all(is_xml_char(c) for c in x)]
    bads = bads[:400 if thorough else 40]
    odocs = [("import qmluic.QtWidgets\nQWidget {\n" + t % prog.qml_str(x) + "}\n", x, t) for x in bads for t in ONE]
    ores = qml.run_docs(vh, [d for d, _, _ in odocs])
    for (d, x, t), r in zip(odocs, ores):
        ctx.count(("nonxml-place", x, t), True)
        if isinstance(r, dict) and r.get("ui") is not None and not any(y["kind"] == "error" for y in r["diags"]):
            ctx.violation("a string with a character XML 1.0 cannot carry (%r) is written without diagnostic by %s" % ([hex(ord(c)) for c in x if not is_xml_char(c)][:3], t.strip()),
                          {"case": x, "qml": d, "impl_output": r.get("ui"), "theorem_or_correspondence": "C09_non_xml_char_ill_formed / S"})
    ctx.coverage["non_xml_strings_x_places"] = len(odocs)
    if ctx.model_ok and terms:
        bad = C.coq_eval_mismatches("c09k", HEADER, terms, "nl_eqb", "escape_text", "list N * list N", shard_size=400)
        ctx.coverage["disagreements_model"] = len(bad)
        if bad and not ctx.violations:
            ctx.broke("K", "text writing (xmlutil.rs escaped_text) vs model/Xml.v escape_text", "written bytes differ from the model on %d strings, e.g. %s" % (len(bad), terms[bad[0]]))
        bad = C.coq_eval_mismatches("c09a", HEADER, aterms, "nl_eqb", "escape_attr", "list N * list N", shard_size=400)
        ctx.coverage["disagreements_model_attribute"] = len(bad)
        ctx.coverage["attribute_values_compared"] = len(aterms)
        if bad and not ctx.violations:
            ctx.broke("K", "attribute writing (xmlutil.rs escaped_attribute) vs model/Xml.v escape_attr", "written bytes differ from the model on %d strings, e.g. %s" % (len(bad), aterms[bad[0]]))
    # ---------------- S on whole documents
    g = gdoc.DocGen(rng)
    documents = [gdoc.to_qml(g.document()) for _ in range(4000 if thorough else 250)]
    base = docs.corpus()
    documents += base
    for d in base:
        for _ in range(6 if thorough else 1):
            documents.append(docs.mutate(rng, d))
    res = qml.run_docs(vh, documents)
    nui = 0
    for d, r in zip(documents, res):
        if not isinstance(r, dict) or r.get("ui") is None:
            ctx.count(("doc", d), False)
            continue
        nui += 1
        ctx.count(("doc", d), True)
        try:
            root = ET.fromstring(r["ui"].encode("utf-8"))
        except ET.ParseError as e:
            ctx.violation("the .ui is not well-formed XML: %s" % e, {"case": d, "impl_output": r["ui"], "theorem_or_correspondence": "S: expat"})
            continue
        errs = grammar_errors(root, "MyType")
        if errs:
            ctx.violation("the .ui leaves the Designer form grammar: %s" % errs[:3], {"case": d, "impl_output": r["ui"], "theorem_or_correspondence": "S: form grammar table"})
    ctx.coverage["ui_files_validated"] = nui
    ctx.sample({"string": strs[25], "document": documents[0][:300]})
    ctx.coverage["rule"] = ("strings over character classes (ASCII, markup, white space incl. CR, Latin-1, BMP, astral, non-XML) as label text and combo-box item; generated documents, "
                            "the repository's example/test documents and mutants; non-trivial = non-empty string / document that yields a .ui; distinct by text")

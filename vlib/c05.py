"""C05 -- Static typing discipline: ill-typed programs are rejected, valid ones accepted.

P: props/C05.v -- every typing DECISION of the builder equals the declarative table (binary / unary operators, assignment,
   casts, common type) and the constant-folding path admits operand types exactly when the run-time path does.
K: real tir::build* vs the model on the EXHAUSTIVE operator table (every operator x 28 operand representatives (const and
   dynamic) pairs, unary, casts, Math.max/min, ternary, conditions, declarations, assignments, call arguments,
   subscripts, arrays) and on generated programs with single-edit mutants.  Quick tier: a seeded third of the table.
S: the specification's verdict (spec/TypingCase.v) vs the implementation's accept / reject on every table program.
"""
import json
from . import common as C
from . import prog, tircheck

TARGETS = ["props/C05.vo"]
PINS = "pins/C05.v"
TRUSTED = ["harness `vh tir` over the synthetic environment E0; vlib/tirtok.py", "the whole-program statement (accepted iff well typed) is decided per program, not proved in general"]


PLACES = {  # type of the place -> [(name of the place, QML text with %s for the bound expression)]; the FIRST of each list is a plain property: the reference
    "int": [("QSpinBox.value", "QSpinBox { value: %s }"), ("font.pointSize", "QLabel { font.pointSize: %s }"), ("font { pointSize }", "QLabel { font {\n bold: true\n pointSize: %s\n } }"),
            ("geometry.x", "QLabel { geometry.x: %s }"), ("minimumSize.width", "QLabel { minimumSize {\n width: %s\n height: 3\n } }"), ("sizePolicy.horizontalStretch", "QLabel { sizePolicy {\n horizontalPolicy: QSizePolicy.Expanding\n verticalPolicy: QSizePolicy.Fixed\n horizontalStretch: %s\n } }"),
            ("QSlider.maximum", "QSlider { maximum: %s }"), ("contentsMargins.left", "QVBoxLayout { contentsMargins.left: %s }")],
    "bool": [("QLabel.wordWrap", "QLabel { wordWrap: %s }"), ("font.bold", "QLabel { font.bold: %s }"), ("font { italic }", "QLabel { font {\n pointSize: 9\n italic: %s\n } }"),
             ("QCheckBox.checked", "QCheckBox { checked: %s }")],
    "QString": [("QLabel.text", "QLabel { text: %s }"), ("font.family", "QLabel { font.family: %s }"), ("font { family }", "QLabel { font {\n family: %s\n bold: false\n } }"),
                ("QWidget.toolTip", "QPushButton { toolTip: %s }"), ("icon.name", "QPushButton { icon.name: %s }"), ("windowIcon.name", "QWidget { windowIcon.name: %s }")],
}
PLACE_EXPRS = [("srcS.text", "QString, read at run time"), ("srcB.checked", "bool, read at run time"), ("srcI.value", "int, read at run time"), ("srcD.value", "double, read at run time"),
               ("srcS.text + \"!\"", "QString, computed"), ("srcI.value + 1", "int, computed"), ("!srcB.checked", "bool, computed"), ("srcI.value > 1 ? srcS.text : \"-\"", "QString, chosen"),
               ("{ if (srcB.checked) { return srcI.value } return 0 }", "int, block"), ("{ return srcS.text }", "QString, block"),
               ("\"s\"", "string constant"), ("true", "bool constant"), ("1", "integer constant"), ("1.5", "number constant"), ("1 + 2", "integer constant, folded"), ("\"a\" + \"b\"", "string constant, folded")]


def result_type_places(ctx):
    """result type vs property type (uigen/expr.rs verify_code_return_type): the verdict 'the value does not fit the type of the place' is a matter of the two TYPES --
    the same expression bound to a plain property, to a member of a grouped value (dotted or braced) or to another property of the same type gets the same verdict,
    whether it is a constant or computed at run time"""
    from . import qml
    vh = ctx.need_harness()
    docs, meta = [], []
    for ty, places in PLACES.items():
        for pname, tmpl in places:
            for e, what in PLACE_EXPRS:
                docs.append("import qmluic.QtWidgets\nQWidget {\n  QLineEdit { id: srcS }\n  QCheckBox { id: srcB }\n  QSpinBox { id: srcI }\n  QDoubleSpinBox { id: srcD }\n  "
                            "QVBoxLayout {\n    " + (tmpl % e if not tmpl.startswith("QVBoxLayout") else "QLabel { }") + "\n  }\n" + ("  " + tmpl % e + "\n" if tmpl.startswith("QVBoxLayout") else "") + "}\n")
                meta.append((ty, pname, e, what))
    import os
    os.environ["VERIF_EXTRA_METATYPES"] = ""
    res = qml.run_docs(vh, docs, mode="generate")
    verdict = {}
    for (ty, pname, e, what), d, r in zip(meta, docs, res):
        ctx.count(("result-type-place", pname, e), True)
        if not isinstance(r, dict) or "diags" not in r:
            ctx.violation("no result for a binding of %s to %s" % (e, pname), {"qml": d, "impl_output": str(r)[:300]})
            continue
        errs = [x["msg"] for x in r["diags"] if x["kind"] == "error"]
        if r.get("syntax_error"):
            errs = ["syntax error"]
        verdict[(ty, pname, e)] = ("fits" if not errs else "mismatch" if any("type mismatch" in m or "cannot deduce" in m for m in errs) else "other:" + errs[0][:60], d, errs)
    # object references: the class of the referenced object against the class the property takes, whether the reference is a constant (written into the .ui) or chosen
    # at run time (set by the support code)
    objs = [("edit", "QLineEdit"), ("act", "QAction"), ("lay", "QVBoxLayout"), ("sp", "QSpacerItem"), ("menu", "QMenu"), ("inner", "QLabel")]
    rdoc = lambda b: ("import qmluic.QtWidgets\nQWidget {\n  QCheckBox { id: srcB }\n  QLineEdit { id: edit }\n  QAction { id: act }\n  QMenu { id: menu }\n"
                      "  QVBoxLayout { id: lay; QLabel { id: inner } QSpacerItem { id: sp } }\n  QLabel { id: lbl; buddy: %s }\n}\n" % b)
    rdocs = []
    for o, c in objs:
        rdocs += [rdoc(o), rdoc("{ if (srcB.checked) { return %s } return %s }" % (o, o)), rdoc("srcB.checked ? %s : %s" % (o, o))]
    rres = qml.run_docs(vh, rdocs, mode="generate")
    for k, (o, c) in enumerate(objs):
        vs = []
        for r in rres[3 * k:3 * k + 3]:
            errs = [x["msg"] for x in r.get("diags", []) if x["kind"] == "error"] if isinstance(r, dict) else ["no result"]
            vs.append("fits" if not errs else "refused")
        ctx.count(("result-type-place", "buddy", o), True)
        ctx.dist("result-type-place-object-reference")
        if len(set(vs)) != 1:
            ctx.violation("QLabel.buddy: a reference to `%s` (%s) is %s as a constant, %s as the result of a block and %s as the result of a conditional expression: the class of the object "
                          "against the class of the property is one question" % (o, c, vs[0], vs[1], vs[2]),
                          {"qml": rdocs[3 * k], "impl_output": vs, "theorem_or_correspondence": "S: result type vs property type in every place"})
    for ty, places in PLACES.items():
        ref = places[0][0]
        for pname, _ in places[1:]:
            for e, what in PLACE_EXPRS:
                a, b = verdict.get((ty, ref, e)), verdict.get((ty, pname, e))
                if a is None or b is None or a[0].startswith("other") or b[0].startswith("other"):
                    ctx.dist("result-type-place-not-judged")
                    continue
                ctx.dist("result-type-place-%s" % a[0])
                if a[0] != b[0]:
                    ctx.violation("%s (%s) bound to %s, a place of type %s: %s; bound to the plain property %s of the same type: %s" % (e, what, pname, ty, b[0], ref, a[0]),
                                  {"qml": b[1], "impl_output": b[2], "oracle_output": a[2], "reference_qml": a[1], "theorem_or_correspondence": "S: result type vs property type in every place"})


def run(ctx):
    ctx.proof_leg(TARGETS, PINS, k_targets=tircheck.K_TARGETS + ["spec/TypingCase.vo"])
    rng = ctx.rng
    if not ctx.replay:
        result_type_places(ctx)
    table = tircheck.enum_operator_table()
    if ctx.replay:
        table = [(ctx.replay["case"]["program"], "replay")]
    elif ctx.tier != "thorough":
        # the typing rules are per operator CLASS: one operator of every class (comparison, bitwise, arithmetic with and without string +, shift,
        # logical) is kept for EVERY operand pair, the other operators are sampled
        per_class = {"==", "<", "&", "+", "-", "<<", "&&"}
        keep = [x for x in table if x[1].split(":")[0] not in ("binary", "math") or (x[1].split(":")[0] == "binary" and x[1].split(":")[1] in per_class)]
        rest = [x for x in table if x not in keep] if False else [x for x in table if x[1].split(":")[0] == "math" or (x[1].split(":")[0] == "binary" and x[1].split(":")[1] not in per_class)]
        rng.shuffle(rest)
        table = keep + rest[:2500]
    pool = tircheck.Pool(ctx)
    pool.add(table)
    ntable = len(table)
    # bodies with three return points: the return type is the ONE common type of all of them
    names = ["int", "uint", "double", "bool", "string", "vobj", "vsub", "strlist", "intlist", "mode", "omode", "cint0", "cint", "cnull", "cempty", "cstring", "cdouble"]
    triples = [(x, y, z) for x in names for y in names for z in names]
    if ctx.tier != "thorough":
        rng.shuffle(triples)
        triples = triples[:700]
    ret3 = []
    for (x, y, z) in triples:
        R = tircheck.REPS
        p3 = ("binding_block", [("switch", tircheck.DYN["int"], [(("int", 1), [("return", R[x])]), (("int", 2), [("return", R[y])])], (2, [("return", R[z])]))])
        ret3.append((len(pool.programs), (x, y, z)))
        pool.add([(p3, "returns3")])
    # assignment after / inside a nested scope that re-declares the name with either keyword: `const` of the declaration in force forbids it, nothing else does
    scope_kind = []
    if not ctx.replay:
        for p, tag, accepted in tircheck.scope_kind_programs():
            scope_kind.append((len(pool.programs), accepted))
            pool.add([(p, tag)])
        pool.add_generated(6000 if ctx.tier == "thorough" else 800, mutate_every=2, mutate=0.08, max_depth=4)
    pool.run()
    for i, accepted in scope_kind:
        e = pool.expected[i]
        if isinstance(e, list) and (e[0] == 1) != accepted:
            ctx.violation("%s program is %s: %s" % ("an assignment to a const variable" if not accepted else "a well-typed", "accepted" if e[0] == 1 else "rejected (%s)" % [d["msg"] for d in pool.impl[i]["diags"]][:1],
                                                    pool.sources[i]),
                          {"case": {"program": pool.programs[i][0]}, "qml": pool.sources[i], "impl_output": {"accepted": e[0] == 1, "diags": [d["msg"] for d in pool.impl[i]["diags"]]},
                           "oracle_output": "accepted" if accepted else "rejected: assignment to const", "theorem_or_correspondence": "S: let / const of the declaration in force"})
    acc = rej = 0
    for i, e in enumerate(pool.expected):
        if e is None:
            ctx.violation("tir::build* panics on a typing test program: %r" % (pool.impl[i],), {"case": {"program": pool.programs[i][0]}, "qml": pool.sources[i]})
        ok = isinstance(e, list) and e[0] == 1
        acc += ok
        rej += isinstance(e, list) and e[0] == 0
        ctx.count(pool.sources[i], isinstance(e, list))
        if isinstance(e, list) and e[0] == 0 and not pool.impl[i]["diags"]:
            ctx.violation("program rejected without any diagnostic", {"case": {"program": pool.programs[i][0]}, "qml": pool.sources[i]})
    ctx.coverage["accepted"] = acc
    ctx.coverage["rejected"] = rej
    ctx.coverage["exhaustive"] = ctx.tier == "thorough"
    ctx.coverage["exhaustive_subspaces"] = ["unary x operand", "cast target x operand", "ternary branch pairs", "conditions", "declarations", "assignments", "call arguments", "subscripts", "array pairs"] + (["binary operator x operand pairs", "Math.max/min x operand pairs"] if ctx.tier == "thorough" else [])
    ctx.sample({"source": pool.sources[17], "accepted": pool.expected[17][0] == 1 if isinstance(pool.expected[17], list) else None,
                "diags": [d["msg"] for d in pool.impl[17].get("diags", [])] if isinstance(pool.impl[17], dict) else None})
    ctx.coverage["rule"] = ("operator table: 25 binary operators x 28 x 28 operand representatives (17 dynamic types incl. void, 11 constants), 7 unary, 16 cast targets, "
                            "Math.max/min, ternary, conditions, declarations (with/without annotation), assignments to 17 properties, call arguments, subscripts, arrays; "
                            "plus generated programs (1/2 single-edit mutants); non-trivial = parsed by the grammar (accepted or rejected with a diagnostic); distinct by text")
    if not ctx.model_ok:
        return
    bad = pool.compare_model()
    ctx.coverage["disagreements_model"] = len(bad)
    # S: the specification's verdict on the table programs
    hdr = tircheck.HEADER.replace("gen.GenE0.", "gen.GenE0 spec.Typing spec.TypingCase.")
    terms = []
    for i in range(ntable):
        e = pool.expected[i]
        if isinstance(e, list):
            terms.append((prog.coq_program(pool.programs[i][0]), "%d%%Z" % (1 if e[0] == 1 else 0), i))
    sb = C.coq_eval_mismatches("c05s", hdr, [(a, b) for a, b, _ in terms], "(fun v e => Z.eqb v 2 || Z.eqb v e)", "(spec_verdict E0)", "callback * Z", shard_size=400, scope="Z_scope")
    ctx.coverage["spec_verdict_disagreements"] = len(sb)
    for j in sb[:5]:
        i = terms[j][2]
        v = C.coq_eval_terms("c05v", hdr, ["spec_verdict E0 %s" % terms[j][0]], scope="Z_scope")[0]
        accepted = pool.expected[i][0] == 1
        ctx.violation("%s program is %s: %s" % ("ill-typed" if accepted else "well-typed", "accepted" if accepted else "rejected (%s)" % [d["msg"] for d in pool.impl[i]["diags"]][:1], pool.sources[i]),
                      {"case": {"program": pool.programs[i][0]}, "qml": pool.sources[i], "impl_output": {"accepted": accepted, "diags": [d["msg"] for d in pool.impl[i]["diags"]]},
                       "oracle_output": "spec_verdict = %s" % v, "theorem_or_correspondence": "S: spec/TypingCase.v verdict vs tir::build"})
    # S: the return type of a body with three return points exists exactly when the three operands have ONE common type
    rterms = []
    for (i, (x, y, z)) in ret3:
        if not isinstance(pool.impl[i], dict) or not pool.impl[i].get("ok"):
            continue
        ops = [prog.coq_expr(tircheck.REPS[n]) for n in (x, y, z)]
        rterms.append(("(%s, %s, %s)" % tuple(ops), "%d%%Z" % (1 if pool.impl[i].get("ret") is not None else 0), i))
    rfun = ("(fun t : expr * expr * expr => let '(x, y, z) := t in match operand_of E0 x, operand_of E0 y, operand_of E0 z with "
            "| Some a, Some b, Some c => match common E0 (td a) (td b) with Some d => (match common E0 d (td c) with Some _ => 1 | None => 0 end) | None => 0 end "
            "| _, _, _ => 2 end)%Z")
    rb = C.coq_eval_mismatches("c05r", hdr, [(a, b) for a, b, _ in rterms], "(fun v e => Z.eqb v 2 || Z.eqb v e)", rfun, "(expr * expr * expr) * Z", shard_size=200, scope="Z_scope")
    ctx.coverage["return_type_family"] = len(rterms)
    ctx.coverage["return_type_disagreements"] = len(rb)
    for j in rb[:5]:
        i = rterms[j][2]
        got = pool.impl[i].get("ret")
        ctx.violation("a body whose return points have %s common type is given %s: %s" % ("no" if got is not None else "a", "the return type %s" % json.dumps(got) if got is not None else "no return type", pool.sources[i]),
                      {"case": {"program": pool.programs[i][0]}, "qml": pool.sources[i], "impl_output": {"ret": got}, "theorem_or_correspondence": "S: spec/Typing.v common (C05_common_type) vs resolve_return_type"})
    if bad and not ctx.violations:
        ctx.broke("K", "tir::build* vs model", "model and implementation differ on %d programs; first:\n%s" % (len(bad), pool.describe_mismatch(bad[0])))

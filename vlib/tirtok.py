"""Python mirror of model/Tir.v's token stream (tk_code etc.) working from the JSON dump of harness/src/tirdump.rs."""
import re
from . import e0

DIAG_PATTERNS = [
    (r"^integer conversion failed", 1), (r"^integer overflow$", 2), (r"^incompatible array element types", 3),
    (r"^index must be of integer type", 4), (r"^invalid argument", 5), (r"^operation '.*' on incompatible types", 6),
    (r"^operation '.*' on undetermined type", 7), (r"^operation '.*' on unsupported type:", 8), (r"^operation '.*' on unsupported types:", 9),
    (r"^not a readable property$", 10), (r"^not a writable property$", 11), (r"^undetermined type:", 12),
    (r"^const declaration must have initializer$", 13), (r"^variable declaration must have type annotation or initializer$", 14),
    (r"^condition must be of bool type", 15), (r"^labeled break is not supported$", 16), (r"^break not in loop or switch statement$", 17),
    (r"^named function isn't allowed$", 18), (r"^redefinition of parameter", 19), (r"^function parameter must have type annotation$", 20),
    (r"^return type is ignored", 21), (r"^bare function reference$", 22), (r"^bare type reference$", 23), (r"^undefined reference$", 24),
    (r"^unsupported expression$", 25), (r"^function has no property/method$", 26), (r"^not callable$", 27),
    (r"^cannot assign to const variable$", 28), (r"^rvalue gadget property is not assignable$", 29), (r"^rvalue subscript is not assignable$", 30),
    (r"^not assignable$", 31), (r"^unsupported operation '", 32), (r"^property/method named '.*' not found in '", 33),
    (r"^property/method named '.*' not found in type '", 34), (r"^undefined type$", 35),
]
DIAG_RE = [(re.compile(p, re.S), c) for p, c in DIAG_PATTERNS]


def diag_code(msg):
    # 34 must be tested before 33 (both start alike)
    if DIAG_RE[33][0].match(msg):
        return 34
    for r, c in DIAG_RE:
        if r.match(msg):
            return c
    return 90


def t_str(s):
    b = s.encode("utf-8")
    return [len(b)] + list(b)


def t_text(cps):
    return [len(cps)] + list(cps)


def t_named(n):
    if "class" in n:
        return [0, e0.CLASS_IX[n["class"]]]
    if "enum" in n:
        return [1, e0.ENUM_IX[(n["enum"][0], n["enum"][1])]]
    if "prim" in n:
        return [2, e0.PRIMS[n["prim"]]]
    raise KeyError(n)


def t_type(t):
    if t["k"] == "list":
        return [2] + t_type(t["inner"])
    return [0 if t["k"] == "just" else 1] + t_named(t["n"])


def t_const(c):
    if c == "null":
        return [5]
    if c == "emptylist":
        return [6]
    if "bool" in c:
        return [0, 1 if c["bool"] else 0]
    if "int" in c:
        return [1, c["int"]]
    if "float" in c:
        b = c["float"]
        if (b >> 52) & 0x7ff == 0x7ff and (b & ((1 << 52) - 1)):
            b = 0x7ff8000000000000          # NaN payloads are not modelled
        return [2, b]
    if "cstr" in c:
        return [3] + t_text(c["cstr"])
    if "qstr" in c:
        return [4] + t_text(c["qstr"])
    raise KeyError(c)


def t_operand(a):
    if a == "void":
        return [14]
    if "const" in a:
        return [10] + t_const(a["const"])
    if "enum" in a:
        en = a["enum"][0]["enum"]
        return [11, e0.ENUM_IX[(en[0], en[1])]] + t_str(a["enum"][1])
    if "local" in a:
        return [12, a["local"][0]] + t_type(a["local"][1])
    if "named" in a:
        return [13, class_ix(a["named"][1])] + t_str(a["named"][0])
    raise KeyError(a)


def class_ix(name):
    if name == "QString":
        return 1000
    if name.startswith("QList") or name == "QStringList":
        return 1001
    return e0.CLASS_IX[name]


def t_mref(m):
    out = [class_ix(m["class"])] + t_str(m["name"]) + [m["kind"], len(m["args"])]
    for a in m["args"]:
        out += t_type(a)
    return out + t_type(m["ret"])


def t_operands(l):
    out = [len(l)]
    for a in l:
        out += t_operand(a)
    return out


def t_rvalue(r):
    (k, v), = r.items()
    if k == "copy":
        return [20] + t_operand(v)
    if k == "unary":
        return [21, v[0]] + t_operand(v[1])
    if k == "binary":
        return [22, v[0]] + t_operand(v[1]) + t_operand(v[2])
    if k == "static_cast":
        return [23] + t_type(v[0]) + t_operand(v[1])
    if k == "variant_cast":
        return [24] + t_type(v[0]) + t_operand(v[1])
    if k == "builtin":
        return [25] + list(v[0]) + t_operands(v[1])
    if k == "call":
        return [26] + t_operand(v[0]) + t_mref(v[1]) + t_operands(v[2])
    if k == "read_prop":
        return [27] + t_operand(v[0]) + [class_ix(v[1])] + t_str(v[2])
    if k == "write_prop":
        return [28] + t_operand(v[0]) + [class_ix(v[1])] + t_str(v[2]) + t_operand(v[3])
    if k == "read_sub":
        return [29] + t_operand(v[0]) + t_operand(v[1])
    if k == "write_sub":
        return [30] + t_operand(v[0]) + t_operand(v[1]) + t_operand(v[2])
    if k == "make_list":
        return [31] + t_type(v[0]) + t_operands(v[1])
    raise KeyError(k)


def t_stmt(s):
    (k, v), = s.items()
    if k == "assign":
        return [40, v[0]] + t_rvalue(v[1])
    if k == "exec":
        return [41] + t_rvalue(v)
    if k == "observe":
        return [42, v[0], v[1]] + t_mref(v[2])
    raise KeyError(k)


def t_term(t):
    if t == "unreachable":
        return [53]
    (k, v), = t.items()
    if k == "br":
        return [50, v]
    if k == "br_cond":
        return [51] + t_operand(v[0]) + [v[1], v[2]]
    if k == "return":
        return [52] + t_operand(v)
    raise KeyError(k)


def t_code(c):
    out = [70, len(c["locals"])]
    for t in c["locals"]:
        out += t_type(t)
    out += [c["nparams"], len(c["blocks"])]
    for b in c["blocks"]:
        out += [60, len(b["stmts"])]
        for s in b["stmts"]:
            out += t_stmt(s)
        out += t_term(b["term"])
    out.append(len(c["sdeps"]))
    for o, m in c["sdeps"]:
        out += t_str(o) + t_mref(m)
    out.append(c["nobs"])
    return out


def t_tdesc(t):
    if t == "integer":
        return [0]
    if t == "string":
        return [1]
    if t == "nullptr":
        return [2]
    if t == "emptylist":
        return [3]
    return [4] + t_type(t)


def t_evalue(v):
    if v == "emptylist":
        return [8]
    (k, x), = v.items()
    if k == "bool":
        return [0, 1 if x else 0]
    if k == "int":
        return [1, x]
    if k == "float":
        if (x >> 52) & 0x7ff == 0x7ff and (x & ((1 << 52) - 1)):
            x = 0x7ff8000000000000          # NaN sign and payload are the platform's, not modelled
        return [2, x]
    if k == "string":
        return [3] + t_text(x[0]) + [x[1]]
    if k == "string_list":
        out = [4, len(x)]
        for s, kk in x:
            out += t_text(s) + [kk]
        return out
    if k == "enum_set":
        out = [5, len(x)]
        for name in x:               # qualified C++ variant name, e.g. VObj::ModeA or VObj::Level::Low
            parts = name.split("::")
            variant = parts[-1]
            cls = parts[0]
            cands = [i for i, (cn, e) in enumerate(e0.ENUMS) if cn == cls and variant in e["values"]
                     and (len(parts) == 2 and not e["scoped"] or len(parts) == 3 and e["scoped"] and e["name"] == parts[1])]
            out += [cands[-1] if cands else -1] + t_str(variant)
        return out
    if k == "object_ref":
        return [6] + t_str(x)
    if k == "object_ref_list":
        out = [7, len(x)]
        for s in x:
            out += t_str(s)
        return out
    raise KeyError(k)


def expected_stream(res):
    """the implementation's answer as the token stream of model/TirCase.v's tir_case"""
    if "panic" in res or "crash" in res or "hang" in res:
        return None
    if res.get("syntax_error"):
        return "syntax"
    ds = [len(res["diags"])] + [diag_code(d["msg"]) for d in res["diags"]]
    if not res["ok"]:
        return [0] + ds
    out = [1] + ds + t_code(res["code"])
    out += [0] if res["ret"] is None else [1] + t_tdesc(res["ret"])
    out += [0] if res["eval"] is None else [1] + t_evalue(res["eval"])
    out += [1] + t_code(res["dep_code"]) + [len(res["dep_diags"])] + [0 if m.startswith("unobservable property") else 1 for m in res["dep_diags"]]
    return out


# ---------------------------------------------------------------- JSON dump -> Coq `code` term (for running verified
# checkers directly on the implementation's IR)
def q_named(n):
    if "class" in n:
        return "(NClass %d)" % class_ix(n["class"])
    if "enum" in n:
        return "(NEnum %d)" % e0.ENUM_IX[(n["enum"][0], n["enum"][1])]
    return "(NPrim %s)" % e0.PRIM_COQ[n["prim"]]


def q_type(t):
    if t["k"] == "list":
        return "(TList %s)" % q_type(t["inner"])
    return "(%s %s)" % ("TJust" if t["k"] == "just" else "TPointer", q_named(t["n"]))


def q_text(cps):
    return "([%s])%%N" % "; ".join(str(x) for x in cps)


def q_str(s):
    return '"%s"%%string' % s.replace('"', '""')


def q_operand(a):
    if a == "void":
        return "OVoid"
    if "const" in a:
        c = a["const"]
        if c == "null":
            return "(OConst CNull)"
        if c == "emptylist":
            return "(OConst CEmptyList)"
        if "bool" in c:
            return "(OConst (CBool %s))" % ("true" if c["bool"] else "false")
        if "int" in c:
            return "(OConst (CInt (%d)%%Z))" % c["int"]
        if "float" in c:
            return "(OConst (CFloat %d%%N))" % c["float"]
        if "cstr" in c:
            return "(OConst (CCString %s))" % q_text(c["cstr"])
        return "(OConst (CQString %s))" % q_text(c["qstr"])
    if "enum" in a:
        en = a["enum"][0]["enum"]
        return "(OEnum %d %s)" % (e0.ENUM_IX[(en[0], en[1])], q_str(a["enum"][1]))
    if "local" in a:
        return "(OLocal %d %s)" % (a["local"][0], q_type(a["local"][1]))
    return "(ONamed %s %d)" % (q_str(a["named"][0]), class_ix(a["named"][1]))


def q_list(xs):
    return "[" + "; ".join(xs) + "]"


def q_mref(m):
    return ("{| mr_class := %d; mr_info := {| mi_name := %s; mi_kind := %s; mi_args := %s; mi_ret := %s |} |}"
            % (class_ix(m["class"]), q_str(m["name"]), ["MSignal", "MSlot", "MMethod"][m["kind"]], q_list([q_type(t) for t in m["args"]]), q_type(m["ret"])))


def q_pref(cls, name):
    # the checkers only look at the identity of a property
    return ("{| pr_class := %d; pr_info := {| pi_name := %s; pi_type := T_VOID; pi_readable := true; pi_writable := true; pi_notify := None; pi_constant := false |} |}"
            % (class_ix(cls), q_str(name)))


UN = ["UoArithMinus", "UoArithPlus", "UoBitNot", "UoLogNot"]
BIN = ["BoAdd", "BoSub", "BoMul", "BoDiv", "BoRem", "BoAnd", "BoXor", "BoOr", "BoShr", "BoShl", "BoLAnd", "BoLOr", "BoEq", "BoNe", "BoLt", "BoLe", "BoGt", "BoGe"]


def q_builtin(f):
    if f[0] == 0:
        return "(BfConsole %s)" % ["LLog", "LDebug", "LInfo", "LWarn", "LError"][f[1]]
    return ["", "BfMax", "BfMin", "BfTr"][f[0]]


def q_rvalue(r):
    (k, v), = r.items()
    if k == "copy":
        return "(RCopy %s)" % q_operand(v)
    if k == "unary":
        return "(RUnary %s %s)" % (UN[v[0]], q_operand(v[1]))
    if k == "binary":
        return "(RBinary %s %s %s)" % (BIN[v[0]], q_operand(v[1]), q_operand(v[2]))
    if k == "static_cast":
        return "(RStaticCast %s %s)" % (q_type(v[0]), q_operand(v[1]))
    if k == "variant_cast":
        return "(RVariantCast %s %s)" % (q_type(v[0]), q_operand(v[1]))
    if k == "builtin":
        return "(RBuiltin %s %s)" % (q_builtin(v[0]), q_list([q_operand(a) for a in v[1]]))
    if k == "call":
        return "(RCallMethod %s %s %s)" % (q_operand(v[0]), q_mref(v[1]), q_list([q_operand(a) for a in v[2]]))
    if k == "read_prop":
        return "(RReadProp %s %s)" % (q_operand(v[0]), q_pref(v[1], v[2]))
    if k == "write_prop":
        return "(RWriteProp %s %s %s)" % (q_operand(v[0]), q_pref(v[1], v[2]), q_operand(v[3]))
    if k == "read_sub":
        return "(RReadSub %s %s)" % (q_operand(v[0]), q_operand(v[1]))
    if k == "write_sub":
        return "(RWriteSub %s %s %s)" % (q_operand(v[0]), q_operand(v[1]), q_operand(v[2]))
    return "(RMakeList %s %s)" % (q_type(v[0]), q_list([q_operand(a) for a in v[1]]))


def q_stmt(s):
    (k, v), = s.items()
    if k == "assign":
        return "(TAssign %d %s)" % (v[0], q_rvalue(v[1]))
    if k == "exec":
        return "(TExec %s)" % q_rvalue(v)
    return "(TObserve %d %d %s)" % (v[0], v[1], q_mref(v[2]))


def q_term(t):
    if t == "unreachable":
        return "(Some TmUnreachable)"
    (k, v), = t.items()
    if k == "br":
        return "(Some (TmBr %d))" % v
    if k == "br_cond":
        return "(Some (TmBrCond %s %d %d))" % (q_operand(v[0]), v[1], v[2])
    return "(Some (TmReturn %s))" % q_operand(v)


def q_code(c):
    blocks = q_list(["{| b_stmts := %s; b_compl := None; b_term := %s |}" % (q_list([q_stmt(s) for s in b["stmts"]]), q_term(b["term"])) for b in c["blocks"]])
    return ("{| c_blocks := %s; c_locals := %s; c_nparams := %d; c_sdeps := %s; c_nobs := %d |}"
            % (blocks, q_list([q_type(t) for t in c["locals"]]), c["nparams"],
               q_list(["(%s, %s)" % (q_str(o), q_mref(m)) for o, m in c["sdeps"]]), c["nobs"]))

"""C06 -- Generated function bodies have sound control flow and define before use.

P: props/C06.v -- the checker cfg_ok is SOUND for the all-paths statement (C06_checker_sound, C06_returns).
K: real tir::build_callback vs the model (token stream equality) on statement skeletons (all switch shapes with <= 2
   (thorough 3) clauses x default position x bodies; if/else x tails) and generated programs.
S: cfg_ok evaluated (vm_compute) on the IR of every accepted program of the pool -- since K establishes that the model's
   IR equals the implementation's, this is per-program translation validation of the real output.
"""
import json
from . import common as C
from . import prog, tircheck

TARGETS = ["props/C06.vo"]
PINS = "pins/C06.v"
TRUSTED = ["harness `vh tir` (own Context with ObjectContext's resolution order over the synthetic environment E0) and its JSON dump; vlib/tirtok.py token mirror",
           "the general theorem 'every accepted program passes cfg_ok' (C06_builder_ok_full) is NOT proved; cfg_ok is evaluated per program instead"]


def incomplete_bodies(ctx):
    """whole pipeline: a value binding -- of a property, of a member of a grouped value (font.bold, font.pointSize) -- whose body has a reachable path without a value is
    not accepted; if it were, its evaluation function would run into a bare `return;`"""
    import os
    from . import cxx, qml
    vh = ctx.need_harness()
    os.environ["VERIF_EXTRA_METATYPES"] = cxx.write_e0w()
    bodies = ["{ if (a.b) return %(v)s; }", "{ switch (a.i) { case 0: break; default: return %(v)s; } }", "{ if (a.b) { return %(v)s } else { } }",
              "{ switch (a.i) { case 1: return %(v)s; } }", "{ if (a.b) { return %(v)s } a.act(1); }", "{ return %(v)s }"]
    targets = [("b", "a.b"), ("i", "a.i"), ("s", "a.s"), ("font.bold", "a.b"), ("font.pointSize", "a.i"), ("font.family", "a.s")]
    docs, meta = [], []
    for tname, val in targets:
        for k, b in enumerate(bodies):
            src = b % {"v": val}
            docs.append(cxx.document([("tgt", tname, src)]))
            meta.append((tname, src, k == len(bodies) - 1))
    # targets of every other type (a QVariant takes a value of any type -- but not NO value), and bodies that yield no value on ANY path
    for tname, val in [("data", "a.data"), ("data", "a.i"), ("d", "a.d"), ("next", "a.next"), ("e", "a.e"), ("names", "a.names"), ("u", "a.u")]:
        for b in bodies[:-1] + ["{ if (a.b) a.act(1); }", "{ a.act(1) }", "{ }", "{ if (a.b) { a.act(1) } else { a.act(2) } }", "{ switch (a.i) { case 0: a.act(1); break; default: a.act(2) } }",
                                "a.act(1)"]:
            src = b % {"v": val} if "%(v)s" in b else b
            docs.append(cxx.document([("tgt", tname, src)]))
            meta.append((tname, src, None))
    res = qml.run_docs(vh, docs)
    for (tname, src, complete), doc, r in zip(meta, docs, res):
        ctx.count(("incomplete-body", tname, src), True)
        if not isinstance(r, dict) or "diags" not in r:
            ctx.violation("pipeline gives no result on a block-bodied binding", {"qml": doc, "impl_output": str(r)[:500]})
            continue
        accepted = bool(r.get("header")) and not r["has_error"]
        if accepted and complete is None:
            ctx.violation("%s: %s has a reachable path without a value (or no value at all) and is accepted" % (tname, src),
                          {"qml": doc, "impl_output": r.get("header"), "theorem_or_correspondence": "S: a value-returning body returns a value on every reachable path"})
        elif complete is None:
            pass
        elif accepted and not complete:
            ctx.violation("%s: %s has a reachable path without a value and is accepted" % (tname, src),
                          {"qml": doc, "impl_output": r.get("header"), "theorem_or_correspondence": "S: a value-returning body returns a value on every reachable path"})
        elif complete and not accepted:
            ctx.violation("%s: %s returns a value on every path and is rejected: %s" % (tname, src, [d["msg"] for d in r["diags"]][:1]), {"qml": doc, "impl_output": r["diags"]})
    ctx.coverage["incomplete_bodies"] = len(meta)


def emitted_bodies(ctx):
    """the function bodies as EMITTED (uigen/binding.rs): every temporary the C++ text of an eval / handler function mentions is declared in that function -- shapes where a
    temporary has one use only (an element-write index, a discarded result, a value used in one arm)"""
    from . import cxx, qml
    import os
    os.environ["VERIF_EXTRA_METATYPES"] = cxx.write_e0w()
    vh = ctx.need_harness()
    hs = ['{ let names = ["-", "-"]; names[a.i & 1] = a.s; b.s = names[0] + names[1] }', '{ let l = [1, 2]; l[a.b ? 1 : 0] = a.i; b.i = l[0] + l[1] }',
          '{ let k = a.i & 1; let l = ["x", "y"]; l[k] = a.s; b.s = l[0] }', '{ a.compute(1); a.label(); let unused = a.i + 1; b.i = 2 }', '{ let l = ["a"]; l[0] = a.s; }',
          '{ if (a.b) { let t = a.i; b.i = t } else { b.i = a.compute(2) } }', '{ switch (a.i) { case 1: b.s = a.label(); break; default: a.act(a.b ? 1 : 2) } }']
    bs = [('{ let l = ["x", "y"]; l[a.b ? 1 : 0] = a.s; return l[0] }', "s"), ('{ let l = [1, 2]; l[a.i & 1] = a.i; return l[0] + l[1] }', "i"), ("a.b ? a.i : b.i + a.compute(1)", "i")]
    docs = [cxx.document([], [("a", "onFired", h)]) for h in hs] + [cxx.document([("tgt", t, b)]) for b, t in bs]
    for d, r in zip(docs, qml.run_docs(vh, docs)):
        ctx.count(("emitted-body", d), True)
        ctx.dist("emitted-body")
        if not isinstance(r, dict) or not r.get("header") or r.get("has_error"):
            continue
        und = cxx.undeclared_temporaries(r["header"])
        if und:
            ctx.violation("the emitted function %s() reads or writes the temporary %s, which it neither declares nor assigns" % und[0],
                          {"qml": d, "impl_output": r["header"], "theorem_or_correspondence": "S: every temporary is assigned before it is read -- in the emitted text"})


def run(ctx):
    ctx.proof_leg(TARGETS, PINS, k_targets=tircheck.K_TARGETS)
    pool = tircheck.Pool(ctx)
    if ctx.replay:
        pool.add([(ctx.replay["case"]["program"], "replay")])
    else:
        pool.add(tircheck.skeleton_statements(3 if ctx.tier == "thorough" else 2))
        pool.add(tircheck.expression_nestings())
        pool.add(tircheck.repeated_subexpressions())
        emitted_bodies(ctx)
        pool.add_generated(12000 if ctx.tier == "thorough" else 1500, max_depth=4)
    pool.run()
    acc = 0
    for i, ((p, tag), e) in enumerate(zip(pool.programs, pool.expected)):
        ok = isinstance(e, list) and e[0] == 1
        acc += ok
        nblocks = len(pool.impl[i]["code"]["blocks"]) if ok else 0
        ctx.count(pool.sources[i], ok and nblocks >= 3)
    ctx.coverage["accepted_programs"] = acc
    ctx.coverage["rule"] = ("statement skeletons (every switch with <= %d clauses x default position x 8 clause bodies x tail; if/else arms x tails) + "
                            "type-directed generated bindings/callbacks (depth <= 4, 1/3 with single-edit mutants); non-trivial = accepted with >= 3 basic blocks; "
                            "distinct by source text" % (3 if ctx.tier == "thorough" else 2))
    ctx.sample({"source": pool.sources[5], "impl_blocks": pool.impl[5].get("code", {}).get("blocks") if isinstance(pool.impl[5], dict) else None})
    incomplete_bodies(ctx)
    if not ctx.model_ok:
        return
    bad = pool.compare_model()
    ctx.coverage["disagreements_model"] = len(bad)
    # S: the checker on every program
    terms = [(prog.coq_program(p), "1%Z") for p, _ in pool.programs]
    fails = C.coq_eval_mismatches("c06s", tircheck.HEADER, terms, "(fun a b => negb (Z.eqb a 0))", "(cfg_case E0)", "callback * Z", shard_size=250, scope="Z_scope")
    ctx.coverage["cfg_ok_failures"] = len(fails)
    for i in fails:
        if i in bad:
            continue
        det = C.coq_eval_terms("c06d", tircheck.HEADER, ["cfg_detail E0 %s" % terms[i][0]], scope="Z_scope")[0]
        ctx.violation("accepted program whose generated body fails the control-flow / define-before-use check [reach_ok; ins_ok; returns]=%s" % det,
                      {"case": {"program": pool.programs[i][0]}, "qml": pool.sources[i], "impl_output": pool.impl[i].get("code"),
                       "theorem_or_correspondence": "S: cfg_ok on the IR (sound by C06_checker_sound)"})
    # where model and implementation differ, the checker runs on the implementation's own IR
    from . import tirtok
    hdr = tircheck.HEADER.replace("model.TirCase gen.GenE0.", "model.TirCase model.CfgCheck gen.GenE0.") + "\nOpen Scope nat_scope."
    for i in [j for j in bad if isinstance(pool.expected[j], list) and pool.expected[j][0] == 1][:40]:
        code = tirtok.q_code(pool.impl[i]["code"])
        ex = "(bu_exempt (build_callback E0 %s))" % prog.coq_program(pool.programs[i][0])
        r = C.coq_eval_terms("c06i", hdr, ["(cfg_ok %s %s, resolve_return_type E0 %s)" % (code, ex, code)], scope="nat_scope")[0]
        if r.startswith("(false, Some") or (r.startswith("(false") and "reach" in r):
            ctx.violation("accepted program whose generated body (implementation's IR) fails the control-flow / define-before-use check",
                          {"case": {"program": pool.programs[i][0]}, "qml": pool.sources[i], "impl_output": pool.impl[i].get("code"), "oracle_output": r,
                           "theorem_or_correspondence": "S: cfg_ok on the implementation's IR (sound by C06_checker_sound)"})
        elif r.startswith("(false") and pool.impl[i].get("ret") is not None and C.coq_eval_terms(
                "c06r", hdr, ["let c := %s in returns_consistent (c_blocks c) (reach_candidate (c_blocks c))" % code], scope="nat_scope")[0].strip() == "false":
            ctx.violation("the implementation resolves the return type %s although a reachable path of the generated body returns nothing (void and value returns mixed)" % json.dumps(pool.impl[i]["ret"]),
                          {"case": {"program": pool.programs[i][0]}, "qml": pool.sources[i], "impl_output": pool.impl[i].get("code"), "oracle_output": r,
                           "theorem_or_correspondence": "S: returns_consistent on the implementation's IR (C06_checker_sound)"})
        elif r.startswith("(false"):
            det = C.coq_eval_terms("c06j", hdr, ["let c := %s in let r := reach_candidate (c_blocks c) in let have := (seq 0 (c_nparams c) ++ %s)%%list in (reach_ok (c_blocks c) r, ins_ok (c_blocks c) r have (in_candidate (c_blocks c) have))" % (code, ex)], scope="nat_scope")[0]
            if "false" in det:
                ctx.violation("accepted program whose generated body (implementation's IR) fails the structural control-flow check %s" % det,
                              {"case": {"program": pool.programs[i][0]}, "qml": pool.sources[i], "impl_output": pool.impl[i].get("code"), "oracle_output": det,
                               "theorem_or_correspondence": "S: cfg_ok on the implementation's IR (sound by C06_checker_sound)"})
    for i in [e for e, x in enumerate(pool.expected) if x is None]:
        ctx.violation("tir::build panics/crashes: %r" % (pool.impl[i],), {"case": {"program": pool.programs[i][0]}, "qml": pool.sources[i], "impl_output": pool.impl[i]})
    if bad and not ctx.violations:
        ctx.broke("K", "tir::build* vs model/Builder.v+Passes.v", "model and implementation differ on %d programs; first:\n%s" % (len(bad), pool.describe_mismatch(bad[0])))

"""C01 -- Generated binding code computes the value of its source expression.

P: props/C01.v (the reference semantics model/Sem.v: determinism is by construction -- it is a function; theorems on the operator
   layer: int results are in range or undefined, uint wraps, short-circuit, folding agrees with the run-time meaning on literals).
S = the property itself, decided per program and world: the emitted C++ evaluation function (real uigen output, compiled with
   g++ -fsanitize=address,undefined against the API model) is executed in worlds of the referenced objects and its value is
   compared with model/Sem.v's value of the source AST in the same world, whenever that value is defined.
K: (shared with C05/C06) the IR of the model's builder equals the implementation's; here the model that is tied is Sem.v itself,
   through the comparison above.
"""
import os
import re
import shutil
import concurrent.futures
from . import common as C
from . import cxx, exe, prog, qml, sgen

TARGETS = ["props/C01.vo"]
PINS = "pins/C01.v"
TRUSTED = ["g++ 12 and the API model (cxxrt/qtmock.h + declarations generated from vlib/e0.py); -fsanitize=address,undefined turns undefined behaviour of the emitted code into an abort",
           "model/Sem.v is the specification (hand-written from docs/language.md); the general theorem 'for all programs and worlds' (C01_compile_correct) is NOT proved: the "
           "property is decided per generated program and world", "vlib/sgen.py generates only programs inside the fragment Sem.v gives a meaning to"]
HDR = "From Coq Require Import DecimalString.\n" + exe.HEADER


def run(ctx):
    ctx.proof_leg(TARGETS, PINS, k_targets=exe.K_TARGETS)
    vh = ctx.need_harness()
    rng = ctx.rng
    os.environ["VERIF_EXTRA_METATYPES"] = cxx.write_e0w()
    n = 3000 if ctx.tier == "thorough" else 420
    nworlds = 12 if ctx.tier == "thorough" else 8
    progs = []
    for i in range(n):
        g = sgen.Gen(rng, max_depth=rng.choice([2, 3, 4]))
        p, t = g.binding()
        progs.append((p, t, prog.qml_program(p)))
        ctx.dist("binding-%s-%s" % (p[0].split("_")[1], t))
    # the same bindings with comments between the clauses of their switch statements (refused today; if ever accepted, a comment means nothing: the twin is judged by
    # the same program)
    def commented(src):
        out = []
        for ln in src.split("\n"):
            tl = ln.strip()
            if tl.startswith("default:") or (tl.startswith("case ") and rng.random() < 0.5):
                out.append(ln[:len(ln) - len(ln.lstrip())] + rng.choice(["// note", "/* note */"]))
            out.append(ln)
        return "\n".join(out)
    twins = [(p, t, commented(src)) for p, t, src in progs if "default:" in src]
    for tw in twins[:(300 if ctx.tier == "thorough" else 60)]:
        progs.append(tw)
        ctx.dist("binding-commented-switch")
    singles = exe.accepted_singles(vh, [("binding", sgen.PROP[t], src) for p, t, src in progs])
    acc = []
    rejected = 0
    for (p, t, src), r in zip(progs, singles):
        ok = isinstance(r, dict) and r.get("header") and not r["has_error"]
        ctx.count(src, ok)
        if ok:
            acc.append((p, t, src))
        else:
            rejected += 1
            if isinstance(r, dict) and r.get("diags"):
                ctx.coverage.setdefault("rejection_samples", [])
                if len(ctx.coverage["rejection_samples"]) < 5:
                    ctx.coverage["rejection_samples"].append({"qml": src[:200], "diag": r["diags"][0]["msg"]})
    ctx.coverage["programs_generated"] = n
    ctx.coverage["programs_accepted"] = len(acc)
    work = os.path.join(C.BUILD, "c01")
    shutil.rmtree(work, ignore_errors=True)
    chunks = [acc[i:i + 12] for i in range(0, len(acc), 12)]
    docs = []
    for ci, chunk in enumerate(chunks):
        extra = [("t%d" % k, "VObj") for k in range(len(chunk))]
        bindings = [("t%d" % k, sgen.PROP[t], src) for k, (p, t, src) in enumerate(chunk)]
        docs.append((cxx.document(bindings, [], extra), chunk, [("root", "VObj")] + cxx.OBJECT_DECLS + extra))
    res = qml.run_docs(vh, [d for d, _, _ in docs])
    jobs = []
    for ci, ((doc, chunk, objects), r) in enumerate(zip(docs, res)):
        if not isinstance(r, dict) or not r.get("header") or r["has_error"]:
            ctx.violation("a document of individually accepted bindings is rejected: %s" % str(r.get("diags") if isinstance(r, dict) else r)[:300], {"qml": doc})
            continue
        evals = ["evalT%d%s" % (k, sgen.PROP[t][0].upper() + sgen.PROP[t][1:]) for k, (p, t, src) in enumerate(chunk)]
        # a binding whose whole value is a constant is embedded in the .ui (C03's subject): no evaluation function exists for it
        keep = [k for k, fn in enumerate(evals) if re.search(r"\b%s\(\)" % fn, r["header"])]
        ctx.dist("embedded-as-constant", len(evals) - len(keep))
        chunk = [chunk[k] for k in keep]
        evals = [evals[k] for k in keep]
        jobs.append((ci, os.path.join(work, "d%d" % ci), doc, chunk, objects, r["header"], evals))
    with concurrent.futures.ThreadPoolExecutor(max_workers=C.NCPU) as ex:
        built = list(ex.map(lambda j: exe.build(j[1], j[4], j[5], j[6], []), jobs))
    # the reference values
    worlds = {ci: [exe.world(rng) for _ in range(nworlds)] for ci, *_ in jobs}
    terms, where = [], []
    for (ci, d, doc, chunk, objects, header, evals) in jobs:
        wl = C.coq_list([exe.coq_world(w) for w in worlds[ci]])
        for k, (p, t, src) in enumerate(chunk):
            terms.append("bind_all \"%s\" %s %s" % (sgen.PROP[t], prog.coq_program(p), wl))
            where.append((ci, k))
    expected = {}
    if not ctx.model_ok:
        return
    outs = []
    shard = 40
    with concurrent.futures.ThreadPoolExecutor(max_workers=C.NCPU) as ex:
        parts = list(ex.map(lambda i: C.coq_eval_terms("c01_%d" % i, HDR, terms[i:i + shard], scope="Z_scope", timeout=900), range(0, len(terms), shard)))
    for part in parts:
        outs += part
    for (ci, k), o in zip(where, outs):
        expected[(ci, k)] = [exe.canon_doubles(x) for x in re.findall(r'"([^"]*)"', o)]
        if len(expected[(ci, k)]) != nworlds:
            ctx.broke("K", "model/Sem.v evaluation", "the reference evaluator gave no result list for a program: %s" % o[:600])
            return
    ndef = nundef = nstuck = ncmp = 0
    for (ci, d, doc, chunk, objects, header, evals), (rc, err) in zip(jobs, built):
        if rc != 0:
            first = next((l for l in err.split("\n") if "error" in l), err[:300])
            ctx.violation("the support header does not compile: %s" % first[-300:], {"qml": doc, "impl_output": header, "compiler": err[:2000], "theorem_or_correspondence": "valid C++ (see C16)"})
            continue
        script, meta = [], []
        for wi, w in enumerate(worlds[ci]):
            script.append(exe.world_line(w))
            meta.append(None)
            for k in range(len(chunk)):
                e = expected.get((ci, k), [])
                if len(e) != len(worlds[ci]):
                    continue
                if e[wi] == "UNDEF":
                    nundef += 1
                elif e[wi].startswith("STUCK"):
                    nstuck += 1
                    ctx.coverage.setdefault("stuck_samples", [])
                    if len(ctx.coverage["stuck_samples"]) < 5:
                        ctx.coverage["stuck_samples"].append({"qml": chunk[k][2][:300], "why": e[wi]})
                else:
                    ndef += 1
                    script.append("E %d" % k)
                    meta.append((k, wi, e[wi]))
        got, rcode, tail = exe.run_script(d, script)
        for j, m in enumerate(meta):
            if m is None:
                continue
            k, wi, want = m
            have = got[j] if j < len(got) else "<no result: the process stopped (exit %s) %s>" % (rcode, " ".join(t for t in tail if t)[-400:])
            ncmp += 1
            if have != want:
                p, t, src = chunk[k]
                ctx.violation("the generated evaluation function returns %s where the source expression denotes %s" % (have[:200], want),
                              {"qml": cxx.document([("tgt", sgen.PROP[t], src)]), "binding": src, "world": {exe.NAMES[q]: worlds[ci][wi][q] for q in range(5)},
                               "impl_output": have, "oracle_output": want, "case": {"program": p, "type": t},
                               "theorem_or_correspondence": "C01 (the property itself): emitted C++ vs model/Sem.v"})
                if j >= len(got):
                    break
    shutil.rmtree(work, ignore_errors=True)
    ctx.coverage["evaluations_compared"] = ncmp
    ctx.coverage["defined"] = ndef
    ctx.coverage["undefined_skipped"] = nundef
    ctx.coverage["outside_fragment"] = nstuck
    ctx.sample({"qml": docs[0][0] if docs else None})
    ctx.coverage["rule"] = ("type-directed binding programs (expression or block with return on every path; depth 2-4) over bool / int / uint / double (IEEE-754, NaN / infinities / signed zeros in the worlds) / QString / VObj* with property reads "
                            "through named objects, this, pointer chains and child(), methods, all arithmetic / bitwise / shift / comparison / logical operators, ternary, casts, "
                            "Math.max/min, let/const, assignment, if/else, switch with fall-through, break and default anywhere; each accepted program executed in %d worlds with "
                            "boundary integers, empty / non-ASCII strings and null / cyclic next pointers; non-trivial = accepted by qmluic" % nworlds)

"""C20 -- Preview-mode error recovery is local to the faulty object.

P: props/C20.v (model/Recovery.v: per-binding failures are dropped individually; a duplicated name empties the map of that object
   only; an unresolvable child is skipped with its subtree; F15 -- a duplicated attached binding used to move the *siblings*).
K: the preview form of the faulted document vs the model's prediction = the form of the fault-free document with the documented
   erasure.  S (two runs of the real pipeline, omit mode): for every fault position, form(doc with fault) vs form(doc without the
   faulty binding / subtree): identical outside the faulted object; that object keeps place, class, name; errors are reported.
"""
import copy
import re
import xml.etree.ElementTree as ET
from . import common as C
from . import qml
from . import uigenk as U

TARGETS = ["props/C20.vo"]
PINS = "pins/C20.v"
K_TARGETS = ["model/Recovery.vo"]
TRUSTED = ["harness uigen in omit mode + xml.etree; the erasure of the faulted object's own values is implemented in vlib/c20.py as stated in props/C20.v's header",
           "faults that are syntax errors (tree-sitter recovery) are outside this check (C07 covers totality)"]

BINDING_FAULTS = ["unknown-property", "ill-typed", "unknown-signal", "unknown-attached-property", "unknown-attached-type", "duplicate", "duplicate-attached", "map-on-scalar",
                  "ill-typed-attached", "ill-typed-pseudo", "handler-body", "handler-parameter"]
OBJECT_FAULTS = ["unknown-object-type", "invalid-object-type"]
# faults of ONE binding that builds on its own: objcode.rs drops that binding and nothing else
ALONE = {"unknown-property", "ill-typed", "unknown-signal", "unknown-attached-property", "unknown-attached-type", "map-on-scalar", "ill-typed-attached", "ill-typed-pseudo", "handler-body", "handler-parameter"}


def blank_ids(rng, root):
    """some objects lose their id (generated names); objects that are referred to keep it"""
    keep = {"root", "srcS", "srcB", "srcI"}
    for o in U.walk(root):
        for b in o["props"]:
            keep.update(b.get("action_ids", []))
    for o in U.walk(root):
        o["oid"] = o["id"]
        if o["id"] not in keep and rng.random() < 0.5:
            o["id"] = None


def plant(rng, root):
    """returns (kind, object, faulted root, fault-free root)"""
    kind = rng.choice(BINDING_FAULTS * 2 + OBJECT_FAULTS)
    objs = [o for o in U.walk(root) if o["kind"] in ("widget", "layout", "action")]
    if kind in OBJECT_FAULTS:
        parents = [o for o in objs if o["kind"] in ("widget", "layout")]
        p = rng.choice(parents)
        bad = {"cls": "QFooBar" if kind == "unknown-object-type" else "int", "kind": "widget", "id": None, "oid": "FAULT", "ctx": "CtxOther", "props": [], "callbacks": [],
               "attached": [], "faults": [], "children": [], "is_fault": True}
        if rng.random() < 0.6:
            inner = U.Gen(rng, clean=True)
            inner.n = 900
            c = inner.widget(2, "QWidget")
            for x in U.walk(c):
                x["oid"] = x["id"]
                x["id"] = None
                x["attached"] = []
            if rng.random() < 0.4:
                c["cls"] = "MyFrame"        # a custom class that occurs nowhere else: no <customwidgets> entry may survive the subtree
            bad["children"].append(c)
        pos = rng.randrange(len(p["children"]) + 1)
        good = copy.deepcopy(root)
        if p["kind"] == "widget" and not any(b["name"] == "actions" for b in p["props"]) and rng.random() < 0.3:
            # an id INSIDE the unresolvable subtree referred to from outside: the reference is undefined (reported), nothing may dangle in the form
            bad["children"].append({"cls": "QAction", "kind": "action", "id": "faultAct", "oid": "faultAct", "ctx": "CtxOther", "props": [], "callbacks": [],
                                    "attached": [], "faults": [], "children": []})
            p["props"].append({"name": "actions", "kind": "expr", "src": "[faultAct]", "w": 0, "r": 0, "const": 1, "conv": 1, "ret": 1, "what": "pseudo", "action_ids": ["faultAct"]})
            kind += "+outside-reference"
        p["children"].insert(pos, bad)
        return kind, p, root, good
    o = rng.choice(objs)
    cands = [x for x in objs if any(a == "ALayout" and ms for a, ms in x["attached"])]
    if kind == "duplicate-attached":
        if not cands:
            kind = "unknown-property"
        else:
            o = rng.choice(cands)
    elif kind in ("unknown-attached-type", "unknown-attached-property", "duplicate", "map-on-scalar", "ill-typed", "unknown-property", "unknown-signal", "handler-body") \
            and cands and rng.random() < (0.7 if kind in ("unknown-attached-type", "unknown-attached-property", "duplicate", "map-on-scalar") else 0.4):
        o = rng.choice(cands)          # next to valid attached bindings, whose effect reaches the siblings
    if kind == "ill-typed-pseudo":
        # flow / columns / rows of a grid layout are read one by one (LayoutFlow::parse): an ill-typed one leaves the others in effect
        grids = [x for x in objs if x["cls"] == "QGridLayout" and x["children"]]
        if not grids:
            kind = "unknown-property"
        else:
            o = rng.choice(grids)
    if o["id"] is None:
        o["id"] = o["oid"]          # the faulted object is addressed by its id
    for x in U.walk(root):
        if o in x["children"]:
            if x["id"] is None:
                x["id"] = x["oid"]
            o["parent_id"] = x["id"]
    good = copy.deepcopy(root)
    if kind == "unknown-property":
        o["faults"].append({"key": kind, "text": "fooBar: 1"})
    elif kind == "ill-typed":
        o["faults"].append({"key": kind, "text": {"widget": "whatsThis: 1 + 2", "action": "whatsThis: 1 + 2", "layout": "objectName: 1 + 2"}[o["kind"]]})
    elif kind == "unknown-signal":
        o["faults"].append({"key": kind, "text": "onFooBar: srcS.clear()"})
    elif kind == "unknown-attached-property":
        o["faults"].append({"key": kind, "text": "QLayout.fooBar: 1"})
    elif kind == "unknown-attached-type":
        o["faults"].append({"key": kind, "text": "QFooBar.row: 1"})
    elif kind == "ill-typed-attached":
        # an existing attached property with a value of the wrong type, whether or not the parent reads that property (a box layout reads no column stretch,
        # a plain widget reads nothing): reported either way
        used = {m["name"] for a, ms in o["attached"] if a == "ALayout" for m in ms}
        free = [n for n in ("columnStretch", "rowStretch", "columnMinimumWidth", "rowMinimumHeight") if n not in used] or ["columnStretch"]
        o["faults"].append({"key": kind, "text": 'QLayout.%s: "wide"' % rng.choice(free)})
    elif kind == "ill-typed-pseudo":
        have = {b["name"] for b in o["props"]}
        free = [t for n, t in (("rows", 'rows: "x"'), ("columns", 'columns: "many"'), ("flow", 'flow: "down"'), ("flow", "flow: 1"), ("rows", "rows: 1.5")) if n not in have]
        o["faults"].append({"key": kind, "text": rng.choice(free) if free else "fooBar: 1"})
    elif kind == "handler-body":
        # the fault sits INSIDE a handler of a signal that exists (every object has objectNameChanged(QString)): reported in preview mode like anywhere else
        o["faults"].append({"key": kind, "text": rng.choice(["onObjectNameChanged: srcS.fooBar()", "onObjectNameChanged: srcS.text = 1 + true", "onObjectNameChanged: { let x = nope; }",
                                                             "onObjectNameChanged: srcS.text.length"])})
    elif kind == "handler-parameter":
        o["faults"].append({"key": kind, "text": rng.choice(["onObjectNameChanged: function(x: int) { srcS.clear() }", "onObjectNameChanged: function(x: QString, y: int) { srcS.clear() }"])})
    elif kind == "map-on-scalar":
        o["faults"].append({"key": kind, "text": "objectName { x: 1 }"})
    elif kind == "duplicate":
        # the fault-free document has the first of the two
        first = {"name": "objectName", "kind": "expr", "src": '"dup"', "w": 1, "r": 1, "const": 1, "conv": 1, "ret": 1, "what": "const"}
        o["props"].append(dict(first))
        g = [x for x in U.walk(good) if x["id"] == o["id"] and x.get("oid") == o.get("oid")][0]
        g["props"].append(dict(first))
        o["faults"].append({"key": kind, "text": 'objectName: "dup2"'})
    elif kind == "duplicate-attached":
        ms = [ms for a, ms in o["attached"] if a == "ALayout"][0]
        m = rng.choice(ms)
        o["faults"].append({"key": kind, "text": "QLayout.%s: %s" % (m["name"], m["src"])})
    return kind, o, root, good


def pseudo_pairs():
    """grid layouts whose flow is decided by two or three of flow / columns / rows, one of them ill-typed: (faulted, fault-free) documents"""
    out = []
    valid = {"flow": ["flow: QGridLayout.TopToBottom", "flow: QGridLayout.LeftToRight"], "columns": ["columns: 2", "columns: 3"], "rows": ["rows: 2", "rows: 3"]}
    bad = {"flow": ['flow: "down"', "flow: 1"], "columns": ['columns: "many"', "columns: 1.5"], "rows": ['rows: "x"', "rows: true"]}
    kids = "".join("        QLabel { id: k%d; text: \"%d\" }\n" % (i, i) for i in range(5))
    for fname in ("flow", "columns", "rows"):
        others = [n for n in ("flow", "columns", "rows") if n != fname]
        for f in bad[fname]:
            for a in valid[others[0]] + [None]:
                for b in valid[others[1]] + [None]:
                    keep = "".join("        %s\n" % x for x in (a, b) if x)
                    doc = lambda extra: "import qmluic.QtWidgets\nQWidget {\n    id: root\n    QGridLayout {\n        id: grid\n%s%s%s    }\n}\n" % (keep, extra, kids)
                    out.append(("ill-typed-pseudo", {"id": "grid", "oid": "grid", "kind": "layout", "parent_id": "root"}, None, None, doc("        %s\n" % f), doc("")))
    return out


def observer_pairs():
    """an object whose (dynamic) bindings READ another object -- a separator action, a plain action, a widget -- and carry the fault: whatever happens to the reader's
    bindings, the object that is read stays what it is"""
    out = []
    menu = ("import qmluic.QtWidgets\nQMainWindow {\n    id: root\n    QMenuBar {\n        QMenu {\n            id: fileMenu\n            QAction { id: openAct; text: \"Open\" }\n"
            "            QAction { id: sep; separator: true }\n            QAction {\n                id: quitAct\n                text: \"Quit\"\n%s                visible: sep.visible\n            }\n        }\n    }\n"
            "    QLabel {\n        id: lbl\n        toolTip: \"t\"\n%s        enabled: sep.enabled\n    }\n}\n")
    for kind, line in (("duplicate", 'text: "Exit"\n'), ("unknown-property", "fooBar: 1\n"), ("ill-typed", "toolTip: 1 + 2\n")):
        # one reader per document (a second reader would keep the read object as it is)
        m1 = menu.replace("        enabled: sep.enabled\n", "")
        out.append((kind, {"id": "quitAct", "oid": "quitAct", "kind": "action", "parent_id": "fileMenu"}, None, None, m1 % ("                " + line, ""), m1 % ("", "")))
        l2 = line.replace('text: "Exit"', 'toolTip: "u"').replace("toolTip: 1 + 2", "statusTip: 1 + 2")
        m2 = menu.replace("                visible: sep.visible\n", "")
        out.append((kind, {"id": "lbl", "oid": "lbl", "kind": "widget", "parent_id": "root"}, None, None, m2 % ("", "        " + l2), m2 % ("", "")))
    return out


def component_documents(ctx, vh):
    """documents that instantiate QML components of their directory: one fault planted in an ordinary object -- the <customwidgets> section (which class each
    component extends, which header declares it) and everything else outside the faulty object stay what they are"""
    import os
    import shutil
    work = os.path.join(C.BUILD, "c20comp")
    shutil.rmtree(work, ignore_errors=True)
    comps = {"MyButtonBox.qml": "import qmluic.QtWidgets\nQDialogButtonBox {\n}\n", "Panel.qml": "import qmluic.QtWidgets\nQGroupBox {\n}\n"}
    main = ("import qmluic.QtWidgets\nQDialog {\n    id: root\n    QVBoxLayout {\n        QLabel {\n            id: caption\n            text: \"c\"\n%s        }\n"
            "        Panel { id: panel; title: \"p\" }\n        MyButtonBox { id: buttonBox }\n    }\n}\n")
    faults = [("ill-typed", "            wordWrap: \"yes\"\n"), ("unknown-property", "            fooBar: 1\n"), ("unknown-signal", "            onFooBar: root.accept()\n"),
              ("unknown-attached-type", "            QFooBar.row: 1\n"), ("handler-body", "            onLinkActivated: root.fooBar()\n"), ("duplicate", "            text: \"d\"\n")]
    cases = []
    for k, (kind, line) in enumerate([("none", "")] + faults):
        d = os.path.join(work, "c%d" % k)
        os.makedirs(d)
        for f, t in comps.items():
            open(os.path.join(d, f), "w").write(t)
        open(os.path.join(d, "Main.qml"), "w").write(main % line)
        cases.append({"root": d, "sources": ["Main.qml"], "dirs": [], "mode": "omit"})
    out = C.harness_run(vh, "project", cases, timeout=300)
    ref = None
    for (kind, line), r in zip([("none", "")] + faults, out):
        ctx.count(("component-document", kind), True)
        ctx.dist("fault-in-a-document-with-components")
        if not isinstance(r, dict) or "docs" not in r or r["docs"][0].get("ui") is None:
            ctx.violation("no preview form for a document that uses QML components (%s fault)" % kind, {"qml_faulted": main % line, "impl_output": str(r)[:600]})
            continue
        ui = r["docs"][0]["ui"]
        cw = re.findall(r"<customwidgets>.*?</customwidgets>", ui, re.S)
        if kind == "none":
            ref = cw
            continue
        if not any(x["kind"] == "error" for x in r["docs"][0]["diags"]):
            ctx.violation("the planted %s fault is not reported in preview mode" % kind, {"qml_faulted": main % line, "impl_output": r["docs"][0]["diags"]})
        elif cw != ref:
            ctx.violation("a %s fault at the label `caption` changes the <customwidgets> section of the form (%s vs %s)" % (kind, [len(x) for x in cw], [len(x) for x in ref or []]),
                          {"qml_faulted": main % line, "qml_fault_free": main % "", "components": comps, "impl_output": ui, "theorem_or_correspondence": "C20_local / S"})
    shutil.rmtree(work, ignore_errors=True)


def canon(el, ids):
    """(tag, attrs, text, children) with generated names replaced by '*'"""
    attrs = dict(el.attrib)
    if "name" in attrs and el.tag in ("widget", "layout", "spacer", "action", "addaction") and attrs["name"] not in ids and attrs["name"] != "separator":
        attrs["name"] = "*"
    text = (el.text or "").strip() if len(el) == 0 else ""
    if el.tag == "cstring" and text not in ids:
        text = "*"
    return (el.tag, tuple(sorted(attrs.items())), text, tuple(canon(c, ids) for c in el))


def erase_own(t, target, parent=None, target_kind=None):
    """erase what the property allows the faulted object to lose: its own attributes other than class/name, its <property>/<attribute>/<item model> children,
    its <item> wrapper's attributes, its <addaction> entries (a widget's action list is its own value), for a layout also the cells of its direct children
    and its per-row/column arrays; in the parent layout, the per-index arrays (they are fed by the children's attached bindings)."""
    tag, attrs, text, kids = t
    a = dict(attrs)
    if target_kind == "action" and tag == "widget" and a.get("name") == parent:
        # whether a QAction is a separator entry or an action of its own is decided by its bindings: its element and the parent's list are its own values
        kids = tuple(k for k in kids if k[0] != "addaction" and not (k[0] == "action" and dict(k[1]).get("name") == target))
        return (tag, attrs, text, tuple(erase_own(k, target, parent, target_kind) for k in kids))
    is_target = tag in ("widget", "layout", "spacer", "action") and a.get("name") == target
    if is_target:
        a = {k: v for k, v in a.items() if k in ("class", "name")}
        new = []
        for k in kids:
            if k[0] in ("property", "attribute", "addaction"):
                continue
            if k[0] == "item" and tag == "widget":
                continue                               # model items of a combo box / list widget
            if k[0] == "item" and tag == "layout":
                new.append(("item", (), "", tuple(erase_own(c, target, parent, target_kind) for c in k[3])))
                continue
            new.append(erase_own(k, target, parent, target_kind))
        return (tag, tuple(sorted(a.items())), text, tuple(new))
    # an <item> wrapping the target, or a layout holding the target: erase the wrapper's attributes and the layout's arrays
    holds = [k for k in kids if k[0] in ("widget", "layout", "spacer") and dict(k[1]).get("name") == target]
    if tag == "item" and holds:
        a = {}
    if tag == "layout" and any(k[0] == "item" and any(c[0] in ("widget", "layout", "spacer") and dict(c[1]).get("name") == target for c in k[3]) for k in kids):
        a = {k: v for k, v in a.items() if k in ("class", "name")}
    return (tag, tuple(sorted(a.items())), text, tuple(erase_own(k, target, parent, target_kind) for k in kids))


def first_diff(a, b, path=""):
    if a[0] != b[0]:
        return "%s: <%s> vs <%s>" % (path, a[0], b[0])
    here = "%s/%s[%s]" % (path, a[0], dict(a[1]).get("name", ""))
    if a[1] != b[1]:
        return "%s: attributes %r vs %r" % (here, dict(a[1]), dict(b[1]))
    if a[2] != b[2]:
        return "%s: text %r vs %r" % (here, a[2], b[2])
    if len(a[3]) != len(b[3]):
        return "%s: children %r vs %r" % (here, [(k[0], dict(k[1]).get("name")) for k in a[3]], [(k[0], dict(k[1]).get("name")) for k in b[3]])
    for x, y in zip(a[3], b[3]):
        d = first_diff(x, y, here)
        if d:
            return d
    return None


RHEADER = U.HEADER.replace("From QV Require Import model.Base gen.GenUigen model.Uigen.", "From QV Require Import model.Base gen.GenUigen model.Uigen model.ObjTree model.Layout model.Recovery.") + """
Definition preview_case (d : list robj) := map (fun o => canon HIDDEN VIS_ATT (fst (preview o))) d.
"""
RCASE_TYPE = "list robj * list (list string * list string * list string * list string * bool * list string)"


def coq_robj(o):
    base = U.coq_obj(o)
    kind = re.search(r"o_kind := (.*?); o_ctx := (\w+);", base)
    raws = []
    for b in o["props"]:
        one = dict(o, props=[b], callbacks=[], attached=[])
        m = re.search(r"o_props := \[(.*)\]; o_callbacks", U.coq_obj(one), re.S)
        raws.append("(RGood %s)" % m.group(1))
    for f in o["faults"]:
        if f["key"] in ("unknown-property", "unknown-signal", "map-on-scalar", "duplicate"):
            raws.append('(RFault "%s")' % re.match(r"(\w+)", f["text"]).group(1))
    att = []
    for a, ms in o["attached"]:
        for m in ms:
            att.append("(%s, %s)" % (a, U.coq_leaf(m)))
    for f in o["faults"]:
        if f["key"] == "duplicate-attached":
            name = re.match(r"QLayout\.(\w+)", f["text"]).group(1)
            m = [m for a, ms in o["attached"] if a == "ALayout" for m in ms if m["name"] == name][0]
            att.append("(ALayout, %s)" % U.coq_leaf(m))
    return "{| ro_kind := %s; ro_ctx := %s; ro_raw := %s; ro_callbacks := %s; ro_attached := %s |}" % (
        kind.group(1), kind.group(2), C.coq_list(raws), C.coq_list(['"%s"' % U.signal_name(c["name"]) for c in o["callbacks"]]), C.coq_list(att))


def run(ctx):
    ctx.proof_leg(TARGETS, PINS, k_targets=K_TARGETS)
    vh = ctx.need_harness()
    rng = ctx.rng
    import os
    os.environ["VERIF_EXTRA_METATYPES"] = C.VERIF + "/data/verif_kinds_metatypes.json"
    n = 7500 if ctx.tier == "thorough" else 400
    cases = []
    for i in range(n):
        g = U.Gen(rng, clean=True, p_dyn=rng.choice([0.0, 0.2]))
        root = g.document()
        blank_ids(rng, root)
        kind, o, bad, good = plant(rng, root)
        ctx.dist("fault-" + kind)
        cases.append((kind, o, bad, good, U.render(bad), U.render(good)))
    if not ctx.replay:
        component_documents(ctx, vh)
    for c in pseudo_pairs():
        ctx.dist("fault-ill-typed-pseudo (constructed)")
        cases.append(c)
    for c in observer_pairs():
        ctx.dist("fault-in-an-object-that-reads-another (constructed)")
        cases.append(c)
    if ctx.replay and "qml_faulted" in ctx.replay:
        cases = [(ctx.replay["fault"], {"id": ctx.replay.get("object"), "oid": ctx.replay.get("object")}, None, None, ctx.replay["qml_faulted"], ctx.replay["qml_fault_free"])]
    bad_out = qml.run_docs(vh, [c[4] for c in cases], mode="omit")
    good_out = qml.run_docs(vh, [c[5] for c in cases], mode="omit")
    exact = 0
    pending_layout = []
    dropped_alone = []
    for (kind, o, bad, good, qb, qg), rb, rg in zip(cases, bad_out, good_out):
        ctx.count(qb, True)
        rep = {"fault": kind, "object": o.get("id") or o.get("oid"), "qml_faulted": qb, "qml_fault_free": qg}
        if not isinstance(rb, dict) or not isinstance(rg, dict) or "diags" not in rb or "diags" not in rg:
            ctx.violation("preview panics / gives no result on a faulted document: %s" % str(rb)[:200], dict(rep, impl_output=str(rb)[:1000]))
            continue
        if kind.endswith("+outside-reference"):
            # decided on the faulted form alone: the reference into the dropped subtree is reported and leaves nothing behind
            if rb.get("ui") is None:
                ctx.violation("no form in preview mode for a document with a %s fault" % kind, dict(rep, impl_output=rb["diags"]))
            elif "faultAct" in rb["ui"]:
                ctx.violation("an object inside an unresolvable subtree is still referred to by the preview form (dangling reference to faultAct)",
                              dict(rep, impl_output=rb["ui"], theorem_or_correspondence="C20_subtree_absent / S"))
            elif len([d for d in rb["diags"] if d["kind"] == "error"]) < 2:
                ctx.violation("the reference into the unresolvable subtree is not reported", dict(rep, impl_output=rb["diags"], theorem_or_correspondence="C20_errors_reported / S"))
            continue
        if rg.get("ui") is None or [d for d in rg["diags"] if d["kind"] == "error"]:
            ctx.dist("fault-free-document-not-clean")
            continue
        if rb.get("ui") is None:
            ctx.violation("no form in preview mode for a document with a %s fault" % kind, dict(rep, impl_output=rb["diags"], theorem_or_correspondence="C20_form_exists / S"))
            continue
        if not [d for d in rb["diags"] if d["kind"] == "error"]:
            ctx.violation("the planted %s fault is not reported in preview mode" % kind, dict(rep, impl_output=rb["diags"], theorem_or_correspondence="C20_errors_reported / S"))
            continue
        ids = set(re.findall(r"\bid: (\w+)", qb))
        ta = canon(qml.parse_ui(rb["ui"]), ids)
        tb = canon(qml.parse_ui(rg["ui"]), ids)
        if ta == tb:
            exact += 1
            continue
        if kind.split("+")[0] in OBJECT_FAULTS:
            ctx.violation("unresolvable object type: the form differs from the form of the document without that subtree: %s" % first_diff(ta, tb),
                          dict(rep, impl_output={"faulted": rb["ui"], "fault_free": rg["ui"]}, theorem_or_correspondence="C20_subtree_absent / S"))
            continue
        target = o["id"]
        ctx.dist("form-differs-" + kind)
        if kind in ALONE and o.get("kind") != "action" and not dropped_alone:
            # model/Recovery.v elaborate_props: a binding that fails to build is dropped ALONE (the property itself allows the object to lose more of its own values)
            dropped_alone.append("a %s fault at %s %s removes more than the faulty binding: %s\n%s" % (kind, o.get("kind"), o.get("id"), first_diff(ta, tb), qb))
        if o.get("kind") == "layout" and good is not None:
            pending_layout.append((kind, o, good, qb, qg, ta, ids, rep, rb, rg))
        ea, eb = erase_own(ta, target, o.get("parent_id"), o.get("kind")), erase_own(tb, target, o.get("parent_id"), o.get("kind"))
        if ea != eb:
            what = "a %s fault at object %s changes the form outside that object: %s" % (kind, o.get("id") or "(anonymous %s)" % o["cls"], first_diff(ea, eb))
            ctx.violation(what, dict(rep, impl_output={"faulted": rb["ui"], "fault_free": rg["ui"]}, theorem_or_correspondence="C20_local / S"))
    # a faulted LAYOUT may lose its own values (flow, columns, spacing ...), which moves the cells of its children; nothing else may move them: the faulted form must be
    # exactly the form of the fault-free document with SOME subset of that layout's own bindings removed
    import itertools
    variants, owners = [], []
    for ci, (kind, o, good, qb, qg, ta, ids, rep, rb, rg) in enumerate(pending_layout[:60 if ctx.tier == "thorough" else 25]):
        g = [x for x in U.walk(good) if x.get("oid") == o.get("oid")]
        if len(g) != 1 or len(g[0]["props"]) > 6:
            continue
        g = g[0]
        allp = list(g["props"])
        for k in range(1, len(allp) + 1):
            for sub in itertools.combinations(range(len(allp)), k):
                g["props"] = [b for i, b in enumerate(allp) if i not in sub]
                variants.append(U.render(good))
                owners.append(ci)
        g["props"] = allp
    vout = qml.run_docs(vh, variants, mode="omit") if variants else []
    explained = {}
    for ci, r in zip(owners, vout):
        if isinstance(r, dict) and r.get("ui") is not None:
            kind, o, good, qb, qg, ta, ids, rep, rb, rg = pending_layout[ci]
            if canon(qml.parse_ui(r["ui"]), ids) == ta:
                explained[ci] = True
    for ci in sorted(set(owners)):
        ctx.dist("layout-fault-subset-search")
        if ci not in explained:
            kind, o, good, qb, qg, ta, ids, rep, rb, rg = pending_layout[ci]
            ctx.violation("a %s fault at layout %s changes the form in a way that the loss of no subset of that layout's own bindings explains" % (kind, o.get("id")),
                          dict(rep, impl_output={"faulted": rb["ui"], "fault_free": rg["ui"]}, theorem_or_correspondence="C20_local / S (subset search)"))
    ctx.coverage["layout_faults_explained_by_own_losses"] = len(explained)
    ctx.coverage["forms_exactly_equal"] = exact
    if dropped_alone and not ctx.violations:
        ctx.broke("K", "objcode.rs build_properties_callbacks / layout.rs LayoutFlow::parse vs model/Recovery.v elaborate_props (a failing binding is dropped alone)", dropped_alone[0])
    # ---- K: the preview of faulted documents vs model/Recovery.v (all objects named, binding faults only)
    kn = 1500 if ctx.tier == "thorough" else 120
    kroots, kdocs = [], []
    while len(kroots) < kn:
        g = U.Gen(rng, clean=(len(kroots) % 2 == 0), p_bad=0.1)
        root = g.document()
        for x in U.walk(root):
            x["oid"] = x["id"]
        kind, o, bad, good = plant(rng, root)
        if kind.split("+")[0] in OBJECT_FAULTS or kind.startswith("ill-typed"):
            continue
        kroots.append(bad)
        kdocs.append(U.render(bad))
        ctx.dist("K-fault-" + kind)
    kout = qml.run_docs(vh, kdocs, mode="omit")
    terms = []
    for r, res, q in zip(kroots, kout, kdocs):
        if not isinstance(res, dict) or res.get("ui") is None:
            ctx.violation("no preview form for a document with a binding fault", {"qml_faulted": q, "impl_output": str(res)[:500]})
            continue
        obs, loose = U.observe(r, res)
        terms.append((C.coq_list([coq_robj(o) for o in U.post(r)]), U.coq_expected(obs)))
    ctx.coverage["compared_with_model"] = len(terms)
    if ctx.model_ok:
        badk = C.coq_eval_mismatches("c20", RHEADER, terms, "doc_eqb", "preview_case", RCASE_TYPE, shard_size=10, scope="string_scope")
        ctx.coverage["disagreements_model"] = len(badk)
        if badk and not ctx.violations:
            j = badk[0]
            mo = C.coq_eval_terms("c20_model", RHEADER, ["preview_case %s" % terms[j][0]], scope="string_scope")
            ctx.broke("K", "objcode.rs ObjectCodeMap::build (omit mode) vs model/Recovery.v", "model and implementation differ on %d faulted documents; first:\n%s\nmodel=%s\nimpl=%s"
                      % (len(badk), kdocs[j], mo[0][:3000], terms[j][1][:3000]))
    ctx.sample({"qml_faulted": cases[0][4], "qml_fault_free": cases[0][5], "fault": cases[0][0]})
    ctx.coverage["rule"] = ("clean generated documents (half of the unreferenced objects anonymous) with one fault of 10 kinds planted at a random object (binding faults) or as a "
                            "new child with or without a subtree (object-type faults); each translated in omit mode with and without the fault; distinct by faulted document")

"""E0 -- the synthetic class environment of the expression-layer checks (DESIGN.md Appendix F), in three renderings:
metatypes JSON for the real typemap, a Coq `cenv` term for the model, and Python tables for the generators."""
import json
from . import common as C

PRIMS = {"bool": 0, "double": 1, "int": 2, "QString": 3, "QVariant": 4, "uint": 5, "void": 6}
PRIM_COQ = {"bool": "PBool", "double": "PDouble", "int": "PInt", "QString": "PQString", "QVariant": "PQVariant", "uint": "PUint", "void": "PVoid"}

# type syntax: "int", "VObj*", "VObj::Mode", "QStringList", "QList<int>", "VGadget"
CLASSES = [
    {"name": "QObject", "supers": [], "qobject": True, "props": [], "signals": [], "slots": [], "methods": [], "enums": []},
    {"name": "VObj", "supers": ["QObject"], "qobject": True,
     "enums": [
         {"name": "Mode", "scoped": False, "flag": False, "alias": None, "values": ["ModeA", "ModeB", "ModeC", "ModeD"]},
         {"name": "Opt", "scoped": False, "flag": False, "alias": None, "values": ["OptA", "OptB", "OptC"]},
         {"name": "Opts", "scoped": False, "flag": True, "alias": "Opt", "values": ["OptA", "OptB", "OptC"]},
         {"name": "Level", "scoped": True, "flag": False, "alias": None, "values": ["Low", "High"]},
     ],
     "props": [
         {"name": "b", "type": "bool", "read": True, "write": True, "notify": "toggled"},
         {"name": "i", "type": "int", "read": True, "write": True, "notify": "iChanged"},
         {"name": "u", "type": "uint", "read": True, "write": True, "notify": "uChanged"},
         {"name": "d", "type": "double", "read": True, "write": True, "notify": "dChanged"},
         {"name": "s", "type": "QString", "read": True, "write": True, "notify": "sChanged"},
         {"name": "e", "type": "VObj::Mode", "read": True, "write": True, "notify": "eChanged"},
         {"name": "f", "type": "VObj::Opts", "read": True, "write": True, "notify": "fChanged"},
         {"name": "lv", "type": "VObj::Level", "read": True, "write": True, "notify": "lvChanged"},
         {"name": "next", "type": "VObj*", "read": True, "write": True, "notify": "nextChanged"},
         {"name": "names", "type": "QStringList", "read": True, "write": True, "notify": "namesChanged"},
         {"name": "nums", "type": "QList<int>", "read": True, "write": True, "notify": "numsChanged"},
         {"name": "data", "type": "QVariant", "read": True, "write": True, "notify": "dataChanged"},
         {"name": "ci", "type": "int", "read": True, "write": False, "notify": None, "constant": True},
         {"name": "ro", "type": "int", "read": True, "write": False, "notify": "roChanged"},
         {"name": "quiet", "type": "int", "read": True, "write": True, "notify": None},
         {"name": "quietNext", "type": "VObj*", "read": True, "write": True, "notify": None},   # a writable pointer nobody announces
         {"name": "wo", "type": "int", "read": False, "write": True, "notify": None},
         {"name": "g", "type": "VGadget", "read": True, "write": True, "notify": "gChanged"},
         # two properties announced by ONE notify signal (as QAction's text / enabled / visible / ... all are by changed())
         {"name": "m1", "type": "int", "read": True, "write": True, "notify": "multiChanged"},
         {"name": "m2", "type": "int", "read": True, "write": True, "notify": "multiChanged"},
     ],
     "signals": [
         ("toggled", ["bool"], "void"), ("iChanged", ["int"], "void"), ("uChanged", [], "void"), ("dChanged", ["double"], "void"),
         ("sChanged", ["QString"], "void"), ("eChanged", [], "void"), ("fChanged", [], "void"), ("lvChanged", [], "void"),
         ("nextChanged", [], "void"), ("namesChanged", [], "void"), ("numsChanged", [], "void"), ("dataChanged", [], "void"),
         ("roChanged", ["int"], "void"), ("gChanged", [], "void"), ("multiChanged", [], "void"),
         ("fired", [], "void"), ("fired2", ["int", "QString"], "void"),
         ("picked", [], "void"), ("picked", ["int"], "void"), ("picked", ["int", "bool"], "void"),
         ("changed", ["int"], "void"), ("changed", ["QString"], "void"), ("gPicked", ["VGadget"], "void"), ("dPicked", ["double"], "void"),
     ],
     "slots": [("act", ["int"], "void"), ("act2", ["QString", "int"], "void"), ("setNext", ["VObj*"], "void")],
     "methods": [("compute", ["int"], "int"), ("child", [], "VObj*"), ("put", ["int"], "void"), ("put", ["QString"], "void"),
                 ("label", [], "QString"), ("ratio", ["double", "double"], "double"), ("flag", [], "bool"),
                 # one name, three argument counts (as a slot with default arguments appears in the metatypes): a call is matched against the overload of ITS count
                 ("over", [], "void"), ("over", ["int"], "void"), ("over", ["int", "QString"], "void")]},
    {"name": "VSub", "supers": ["VObj"], "qobject": True, "enums": [],
     "props": [{"name": "extra", "type": "int", "read": True, "write": True, "notify": "extraChanged"}],
     "signals": [("extraChanged", [], "void")], "slots": [], "methods": [("subOnly", [], "int")]},
    {"name": "VGadget", "supers": [], "qobject": False, "enums": [],
     "props": [{"name": "x", "type": "int", "read": True, "write": True, "notify": None},
               {"name": "t", "type": "QString", "read": True, "write": True, "notify": None}],
     "signals": [], "slots": [], "methods": []},
    # VOther::Mode has the same unqualified name as VObj::Mode: two different types
    {"name": "VOther", "supers": ["QObject"], "qobject": True,
     "enums": [{"name": "Mode", "scoped": False, "flag": False, "alias": None, "values": ["XA", "XB"]}],
     "props": [{"name": "i", "type": "int", "read": True, "write": True, "notify": "iChanged"},
               {"name": "e", "type": "VOther::Mode", "read": True, "write": True, "notify": "eChanged"}],
     "signals": [("iChanged", [], "void"), ("eChanged", [], "void")], "slots": [], "methods": []},
]
OBJECTS = [("a", "VObj"), ("b", "VObj"), ("sub", "VSub"), ("oth", "VOther"), ("plain", "QObject")]
THIS = ("VObj", "root")

CLASS_IX = {c["name"]: i for i, c in enumerate(CLASSES)}
ENUMS = []          # global enum table: (class name, enum dict)
for c in CLASSES:
    for e in c["enums"]:
        ENUMS.append((c["name"], e))
ENUM_IX = {(cn, e["name"]): i for i, (cn, e) in enumerate(ENUMS)}


def parse_type(t, cls=None):
    """-> nested tuple ('just'|'ptr', ('prim'|'class'|'enum', ix)) | ('list', inner)"""
    if t == "QStringList":
        t = "QList<QString>"
    if t.endswith(">") and t.startswith("QList<"):
        return ("list", parse_type(t[6:-1], cls))
    if t.endswith("*"):
        return ("ptr", named(t[:-1], cls))
    return ("just", named(t, cls))


def named(n, cls=None):
    if n in PRIMS:
        return ("prim", PRIMS[n])
    if n == "qreal":
        return ("prim", PRIMS["double"])
    if n in CLASS_IX:
        return ("class", CLASS_IX[n])
    if "::" in n:
        c, e = n.split("::")
        return ("enum", ENUM_IX[(c, e)])
    if cls and (cls, n) in ENUM_IX:
        return ("enum", ENUM_IX[(cls, n)])
    raise KeyError(n)


def coq_named(n):
    k, ix = n
    if k == "prim":
        return "(NPrim %s)" % [p for p, i in PRIMS.items() if i == ix and p in PRIM_COQ][0:1][0].join(["", ""]) if False else "(NPrim %s)" % PRIM_COQ[[p for p, i in PRIMS.items() if i == ix][0]]
    return "(%s %d)" % ("NClass" if k == "class" else "NEnum", ix)


def coq_type(t):
    if t[0] == "list":
        return "(TList %s)" % coq_type(t[1])
    return "(%s %s)" % ("TJust" if t[0] == "just" else "TPointer", coq_named(t[1]))


def tokens_type(t):
    if t[0] == "list":
        return [2] + tokens_type(t[1])
    k, ix = t[1]
    return [0 if t[0] == "just" else 1, {"class": 0, "enum": 1, "prim": 2}[k], ix]


def method_table(c):
    """public signals, slots, methods; stable sort by name (typemap/function.rs)"""
    tab = []
    for kind, key in ((0, "signals"), (1, "slots"), (2, "methods")):
        for (n, args, ret) in c[key]:
            tab.append({"name": n, "kind": kind, "args": args, "ret": ret})
    return sorted(tab, key=lambda m: m["name"])


def coq_cenv():
    cls = []
    for c in CLASSES:
        props = C.coq_list([
            '{| pi_name := %s; pi_type := %s; pi_readable := %s; pi_writable := %s; pi_notify := %s; pi_constant := %s |}'
            % (C.coq_string(p["name"]), coq_type(parse_type(p["type"], c["name"])), b(p["read"]), b(p["write"]),
               "None" if not p.get("notify") else "(Some %s)" % C.coq_string(p["notify"]), b(p.get("constant", False)))
            for p in c["props"]])
        meths = C.coq_list([
            '{| mi_name := %s; mi_kind := %s; mi_args := %s; mi_ret := %s |}'
            % (C.coq_string(m["name"]), ["MSignal", "MSlot", "MMethod"][m["kind"]],
               C.coq_list([coq_type(parse_type(a, c["name"])) for a in m["args"]]), coq_type(parse_type(m["ret"], c["name"])))
            for m in method_table(c)])
        enums = C.coq_list([str(ENUM_IX[(c["name"], e["name"])]) for e in c["enums"]])
        cls.append('{| ci_name := %s; ci_supers := %s; ci_is_qobject := %s; ci_props := %s; ci_methods := %s; ci_enums := %s |}'
                   % (C.coq_string(c["name"]), C.coq_list([str(CLASS_IX[s]) for s in c["supers"]]), b(c["qobject"]), props, meths, enums))
    ens = []
    for cn, e in ENUMS:
        ens.append('{| ei_name := %s; ei_class := Some %d; ei_alias := %s; ei_scoped := %s; ei_flag := %s; ei_variants := %s |}'
                   % (C.coq_string(e["name"]), CLASS_IX[cn], "None" if not e["alias"] else "(Some %d)" % ENUM_IX[(cn, e["alias"])],
                      b(e["scoped"]), b(e["flag"]), C.coq_list([C.coq_string(v) for v in e["values"]])))
    objs = C.coq_list(["(%s, %d)" % (C.coq_string(n), CLASS_IX[c]) for n, c in OBJECTS])
    return ("{| ce_classes := %s;\n   ce_enums := %s;\n   ce_objects := %s;\n   ce_this := Some (%d, %s) |}"
            % (C.coq_list(cls), C.coq_list(ens), objs, CLASS_IX[THIS[0]], C.coq_string(THIS[1])))


def b(x):
    return "true" if x else "false"


def metatypes():
    out = []
    for c in CLASSES:
        def meth(m):
            return {"name": m[0], "access": "public", "returnType": m[2], "arguments": [{"type": a} for a in m[1]]}
        out.append({
            "className": c["name"], "qualifiedClassName": c["name"], "object": c["qobject"], "gadget": not c["qobject"],
            "superClasses": [{"name": s, "access": "public"} for s in c["supers"]],
            "enums": [dict({"name": e["name"], "isClass": e["scoped"], "isFlag": e["flag"], "values": e["values"]},
                           **({"alias": e["alias"]} if e["alias"] else {})) for e in c["enums"]],
            "properties": [dict({"name": p["name"], "type": p["type"], "designable": True, "scriptable": True, "stored": True, "user": False,
                                 "constant": p.get("constant", False), "final": False, "required": False, "index": None},
                                **({"read": p["name"]} if p["read"] else {}),
                                **({"write": "set" + p["name"][0].upper() + p["name"][1:]} if p["write"] else {}),
                                **({"notify": p["notify"]} if p.get("notify") else {})) for p in c["props"]],
            "signals": [meth(m) for m in c["signals"]], "slots": [meth(m) for m in c["slots"]], "methods": [meth(m) for m in c["methods"]],
        })
    return [{"classes": out, "inputFile": "verif_e0.h", "outputRevision": 68}]


def write_files():
    import os
    d = os.path.join(C.VERIF, "data")
    os.makedirs(d, exist_ok=True)
    text = json.dumps(metatypes(), indent=1)
    p = os.path.join(d, "verif_e0_metatypes.json")
    if not os.path.exists(p) or open(p).read() != text:
        open(p, "w").write(text)
    ctx = {"objects": OBJECTS, "this": THIS}
    p2 = os.path.join(d, "verif_e0_context.json")
    t2 = json.dumps(ctx)
    if not os.path.exists(p2) or open(p2).read() != t2:
        open(p2, "w").write(t2)
    return p, p2


if __name__ == "__main__":
    print(write_files())
    print(coq_cenv()[:600])

"""C13 -- Signal callbacks are wired to the right signal and do what the source says.

P: props/C13.v (facts of model/Sem.v about handlers: parameters are bound to the leading signal arguments; effects are recorded in
   source order; overload collapsing picks the variant carrying the most arguments).
S = the property itself, per handler and world: the real support header (uigen output) is compiled against the API model; after
   setup() the signal is EMITTED on the declaring object with argument values and the trace of property writes, method calls and
   log calls plus the final object states are compared with model/Sem.v's run of the handler's source in the same world.
   Rejections: handlers on overloaded signals that do not collapse, on non-signals, with too many or ill-typed parameters.
"""
import json
import os
import re
import shutil
import concurrent.futures
from . import common as C
from . import cxx, e0, exe, prog, qml, sgen

TARGETS = ["props/C13.vo"]
PINS = "pins/C13.v"
TRUSTED = ["g++ 12 and the API model (signals as member functions dispatching to connected functors, setters that trace and emit the notify signal on change)",
           "model/Sem.v as the reading of the handler language; the general theorem is NOT proved: decided per generated handler, argument values and world"]
HDR = "From Coq Require Import DecimalString.\n" + exe.HEADER
SIGNALS = {(): ("onFired", "fired", []), ("int",): ("onRoChanged", "roChanged", ["int"]), ("int", "bool"): ("onPicked", "picked", ["int", "bool"]),
           ("int", "string"): ("onFired2", "fired2", ["int", "string"]), ("double",): ("onDPicked", "dPicked", ["double"])}     # not dChanged: a handler of a notify signal that writes the property re-enters itself


def coq_arg(t, v):
    if t == "int":
        return "(VI (%d))" % v
    if t == "bool":
        return "(VB %s)" % ("true" if v else "false")
    if t == "double":
        return "(VD (model.Floats.canon %d%%N))" % v
    return "(VS %s)" % prog.coq_text(v)


def line_arg(t, v):
    if t == "int":
        return str(v)
    if t == "bool":
        return str(int(v))
    if t == "double":
        return str(v)
    return exe.hexs(v)


ARG_LISTS = [[], ["int"], ["QString"], ["bool"], ["int", "bool"], ["int", "QString"], ["int", "bool", "QString"], ["int", "bool", "int"], ["QString", "int"], ["int", "int"], ["double"],
             ["int", "QString", "bool"]]
CXX_ARG = {"int": "int", "bool": "bool", "QString": "const QString &", "double": "double"}
OV_HEADER = "From QV Require Import model.Overload.\nFrom Coq Require Import List String NArith.\nImport ListNotations.\nOpen Scope string_scope.\n"


def overload_sets(rng, n):
    """sets of metatype entries found under ONE name: default-argument chains, genuine overloads of two, three and four entries, entries of different kinds and return types,
    repeated entries; in every order (the answer must not depend on the order of the entries in the metatypes file)"""
    sig = lambda a: (0, "void", a)
    fixed = [[sig([]), sig(["int"]), sig(["QString"])], [sig(["int"]), sig(["int", "QString"]), sig(["int", "bool"])], [sig(["int", "bool"]), sig(["int"]), sig(["int", "QString"])],
             [sig([]), sig(["int"]), sig(["int", "bool"])], [sig(["int", "bool"]), sig([]), sig(["int"])], [sig([]), sig(["int", "bool"])], [sig(["int"]), sig(["QString"])],
             [sig([]), sig(["int"]), sig(["int", "bool"]), sig(["int", "bool", "QString"])], [sig([]), sig(["int"]), sig(["int", "bool"]), sig(["int", "bool", "int"]), sig(["int", "bool", "QString"])],
             [sig(["int"])], [(1, "void", ["int"])], [(2, "int", [])], [sig([]), (1, "void", ["int"])], [(1, "void", []), (1, "void", ["int"])], [(1, "void", []), (1, "int", ["int"])],
             [sig(["int"]), sig(["int"])], [sig([]), sig(["int"]), sig(["int"]), sig(["int", "bool"])], [sig(["int", "bool", "QString"]), sig(["int", "bool", "int"]), sig([])],
             [sig(["double"]), sig(["int"]), sig([])], [(2, "void", []), sig(["int"]), sig(["int", "bool"])]]
    out = list(fixed)
    while len(out) < n:
        k = rng.choice([2, 2, 3, 3, 3, 4, 4, 5])
        if rng.random() < 0.5:
            # prefixes of one list (a chain), possibly with one stranger
            full = rng.choice([a for a in ARG_LISTS if len(a) >= 2])
            es = [sig(full[:j]) for j in rng.sample(range(len(full) + 1), min(k, len(full) + 1))]
            if rng.random() < 0.4:
                es.append(rng.choice([sig(rng.choice(ARG_LISTS)), (rng.choice([1, 2]), rng.choice(["void", "int"]), rng.choice(ARG_LISTS))]))
        else:
            es = [(0 if rng.random() < 0.8 else rng.choice([1, 2]), "void" if rng.random() < 0.85 else "int", rng.choice(ARG_LISTS)) for _ in range(k)]
            es = [(kd, "void" if kd == 0 else rt, a) for kd, rt, a in es]
        rng.shuffle(es)
        out.append(es)
    return out


def overload_leg(ctx, vh, rng):
    sets = overload_sets(rng, 400 if ctx.tier == "thorough" else 90)
    per_class = 12
    classes = []
    for c0 in range(0, len(sets), per_class):
        sigs, slots, meths = [], [], []
        for j, es in enumerate(sets[c0:c0 + per_class]):
            for kd, rt, a in es:
                (sigs, slots, meths)[kd].append({"name": "s%d" % j, "access": "public", "returnType": rt, "arguments": [{"type": t} for t in a]})
        classes.append({"className": "OvObj%d" % (c0 // per_class), "qualifiedClassName": "OvObj%d" % (c0 // per_class), "object": True, "superClasses": [{"name": "QWidget", "access": "public"}],
                        "signals": sigs, "slots": slots, "methods": meths})
    path = os.path.join(C.BUILD, "c13_overloads_metatypes.json")
    with open(path, "w") as f:
        json.dump([{"classes": classes, "inputFile": "ov.h", "outputRevision": 68}], f)
    old = os.environ.get("VERIF_EXTRA_METATYPES", "")
    os.environ["VERIF_EXTRA_METATYPES"] = path
    docs = ["import qmluic.QtWidgets\nQWidget {\n    QLineEdit { id: edit }\n    OvObj%d {\n        id: ov\n        onS%d: edit.clear()\n    }\n}\n" % (i // per_class, i % per_class) for i in range(len(sets))]
    res = qml.run_docs(vh, docs)
    os.environ["VERIF_EXTRA_METATYPES"] = old
    terms, got = [], []
    for es, d, r in zip(sets, docs, res):
        ctx.count(("overload-set", repr(es)), len(es) >= 2)
        ctx.dist("overload-set-%d-entries" % len(es))
        rep = {"entries": [{"kind": ["signal", "slot", "method"][k], "returnType": rt, "arguments": a} for k, rt, a in es], "qml": d}
        if not isinstance(r, dict) or "diags" not in r:
            ctx.violation("a handler on a name with %d metatype entries: no result (%s)" % (len(es), str(r)[:200]), rep)
            continue
        msgs = [x["msg"] for x in r["diags"] if x["kind"] == "error"]
        if any("cannot bind to overloaded signal" in m for m in msgs):
            v = "VAmbiguous"
        elif any("not a signal" in m for m in msgs):
            v = "VNotSignal"
        elif not msgs and r.get("header"):
            m = re.findall(r"QObject::connect\(this->ui_->ov, QOverload<([^>]*)>::of\(&OvObj\d+::s\d+\)", r["header"])
            if len(m) != 1:
                ctx.violation("an accepted handler is connected %d times" % len(m), dict(rep, impl_output=r["header"]))
                continue
            inv = {v2: k2 for k2, v2 in CXX_ARG.items()}
            args = [inv.get(a.strip(), a.strip()) for a in m[0].split(",")] if m[0].strip() else []
            v = "VConnect %s" % C.coq_list(['"%s"' % a for a in args])
            # S, without the model: the connected overload is one of the entries, it is a signal, every other entry is a signal whose arguments are its leading arguments
            ok = any(k == 0 and a == args for k, rt, a in es) and all(k == 0 and a == args[:len(a)] for k, rt, a in es)
            if not ok:
                ctx.violation("a handler on an ambiguous overload set is accepted and connected to (%s): the entries are not default-argument variants of that signal" % ", ".join(args),
                              dict(rep, impl_output=m[0], theorem_or_correspondence="C13_connected_signal_is_the_declared_one / S"))
                continue
        else:
            ctx.violation("unexpected diagnostics for a handler on a generated overload set: %r" % msgs[:3], dict(rep, impl_output=msgs))
            continue
        if v != "VConnect" and v in ("VAmbiguous",) and len(es) >= 1:
            # S: refused as ambiguous only if the entries are not pairwise variants
            def ext(x, y):
                return x[0] == y[0] and x[1] == y[1] and y[2][:len(x[2])] == x[2]
            if all(ext(x, y) or ext(y, x) for x in es for y in es):
                ctx.violation("default-argument variants are refused as an overloaded signal", dict(rep, impl_output=msgs, theorem_or_correspondence="C13_default_argument_variants_collapse / S"))
                continue
        terms.append("callback_verdict %s" % C.coq_list(['{| m_kind := %d; m_ret := "%s"; m_args := %s |}' % (k, rt, C.coq_list(['"%s"' % t for t in a])) for k, rt, a in es]))
        got.append((v, rep))
    ctx.coverage["overload_sets"] = len(sets)
    if not ctx.model_ok or not terms:
        return
    mo = C.coq_eval_terms("c13_ov", OV_HEADER, terms, scope="string_scope")
    norm = lambda x: re.sub(r"\s+", " ", x.replace("%string", "").replace("%N", "")).strip().strip("()").strip()
    bad = [(t, m, g) for t, m, g in zip(terms, mo, got) if norm(m) != norm(g[0])]
    ctx.coverage["overload_sets_compared_with_model"] = len(terms)
    if bad and not ctx.violations:
        t, m, g = bad[0]
        ctx.broke("K", "uigen/objcode.rs uniquify_methods vs model/Overload.v", "model and implementation differ on %d sets of entries; first: %s\nmodel=%s\nimpl=%s" % (len(bad), t, m, g[0]))


CB_HEADER = ("From QV Require Import model.Base model.Types gen.GenE0 model.Callback.\nFrom Coq Require Import List String Ascii NArith.\nImport ListNotations.\n"
             "Definition bs (l : list N) : string := fold_right (fun b r => String (ascii_of_N b) r) EmptyString l.\n"
             "Definition ostr_eqb (a b : option string) : bool := match a, b with Some x, Some y => String.eqb x y | None, None => true | _, _ => false end.\n"
             "Fixpoint seq_opt {A} (l : list (option A)) : option (list A) := match l with [] => Some [] | None :: _ => None | Some x :: r => option_map (cons x) (seq_opt r) end.\n"
             "Definition verify_paths (args : list tkind) (paths : list (list string)) : option pverdict :=\n"
             "  match seq_opt (map (annotated_type E0) paths) with Some ps => Some (verify_params E0 args ps) | None => None end.\n"
             "Definition pv_code (v : option pverdict) : list nat := match v with None => [9] | Some PTooMany => [1] | Some POk => [0] | Some (PIncompatible l) => 2 :: l end.\n"
             "Definition ln_eqb (a b : list nat) : bool := if list_eq_dec Nat.eq_dec a b then true else false.\n")


def coq_bytes(s):
    return "(bs %s)" % C.coq_list([str(b) for b in s.encode("utf-8")])


def names_leg(ctx, vh, rng):
    """handler name -> signal name (qtname.rs callback_to_signal_name), on strings of every shape: vs model/Callback.v (K) and vs the rule stated in Python (S)"""
    names = ["", "o", "on", "onX", "onx", "on_", "on1", "onClicked", "onclicked", "OnClicked", "oNClicked", "ONClicked", "on\u00c9cole", "onZ", "onA", "on@", "on[", "onA\u00e9", "onCurrentIndexChanged",
             "xonClicked", "on Clicked", "ononClicked", "onOn", "on\u00e9", "onAZ", "onZz", "on`", "on{", "onM_1", "n", "no", "onn", "onN"]
    alpha = "aAzZmM@[`{_09 \u00e9\u03a9\u00c9"
    for _ in range(1500 if ctx.tier == "thorough" else 250):
        names.append(rng.choice(["on", "on", "on", "On", "oN", "no", "o", "", "onn", "ON"]) + (rng.choice("ABMXYZ") if rng.random() < 0.4 else "") + "".join(rng.choice(alpha) for _ in range(rng.randrange(0, 6))))
    names = list(dict.fromkeys(names))
    res = C.harness_run(vh, "qtname", [{"fn": "callback_to_signal_name", "arg": n} for n in names])
    terms = []
    for n, r in zip(names, res):
        ctx.count(("handler-name", n), n.startswith("on") and len(n) > 2)
        ctx.dist("handler-name-%s" % ("on+capital" if n.startswith("on") and n[2:3].isascii() and n[2:3].isupper() else "other"))
        if not isinstance(r, dict) or "out" not in r:
            ctx.violation("callback_to_signal_name(%r) gives no result: %s" % (n, str(r)[:200]), {"name": n, "impl_output": str(r)[:300]})
            continue
        want = (n[2].lower() + n[3:]) if (n.startswith("on") and len(n) > 2 and "A" <= n[2] <= "Z") else None
        if r["out"] != want:
            ctx.violation("the handler name %r denotes the signal %r; it has to be %r (on + capital letter + rest, the letter lowered, nothing else changed)" % (n, r["out"], want),
                          {"name": n, "impl_output": r["out"], "oracle_output": want, "theorem_or_correspondence": "C13_handler_name_denotes_one_signal / S"})
            continue
        terms.append((coq_bytes(n), "None" if r["out"] is None else "(Some %s)" % coq_bytes(r["out"])))
    ctx.coverage["handler_names"] = len(names)
    if ctx.model_ok and terms:
        bad = C.coq_eval_mismatches("c13_names", CB_HEADER, terms, "ostr_eqb", "callback_to_signal_name", "string * option string", shard_size=400, scope="N_scope")
        if bad and not ctx.violations:
            ctx.broke("K", "qtname.rs callback_to_signal_name vs model/Callback.v", "model and implementation differ on %d names; first: %r" % (len(bad), names[bad[0]]))


# (metatype spelling of a signal argument, the annotation that names the same type in a handler)
PTYPES = [("int", ["int"]), ("uint", ["uint"]), ("bool", ["bool"]), ("double", ["double"]), ("QString", ["QString"]), ("VObj*", ["VObj"]), ("VSub*", ["VSub"]), ("VOther*", ["VOther"]),
          ("VObj::Mode", ["VObj", "Mode"]), ("VObj::Opt", ["VObj", "Opt"]), ("VObj::Opts", ["VObj", "Opts"]), ("VOther::Mode", ["VOther", "Mode"]), ("VGadget", ["VGadget"]), ("QVariant", ["QVariant"]),
          ("qreal", ["qreal"])]


def py_assignable(param, arg):
    """the k-th signal argument (arg) can initialise the k-th parameter (param): same type, a flag type and its enum, a pointer to a derived class"""
    norm = {"qreal": "double"}
    param, arg = norm.get(param, param), norm.get(arg, arg)
    if param == arg:
        return True
    if {param, arg} == {"VObj::Opt", "VObj::Opts"}:
        return True
    return (param, arg) == ("VObj*", "VSub*")


def params_leg(ctx, vh, rng):
    """declared handler parameters against the signal's arguments (uigen/objcode.rs verify_callback_parameter_type): vs model/Callback.v (K) and vs the rule in Python (S)"""
    nsig = 300 if ctx.tier == "thorough" else 60
    sigs = [[rng.choice(PTYPES) for _ in range(rng.choice([0, 1, 1, 2, 2, 3]))] for _ in range(nsig)]
    sigs[0], sigs[1], sigs[2] = [PTYPES[5]], [PTYPES[6]], [PTYPES[10], PTYPES[9]]
    classes = [{"className": "PvObj", "qualifiedClassName": "PvObj", "object": True, "superClasses": [{"name": "VObj", "access": "public"}], "slots": [], "methods": [],
                "signals": [{"name": "p%d" % j, "access": "public", "returnType": "void", "arguments": [{"type": t} for t, _ in sg]} for j, sg in enumerate(sigs)]}]
    path = os.path.join(C.BUILD, "c13_params_metatypes.json")
    with open(path, "w") as f:
        json.dump([{"classes": classes, "inputFile": "pv.h", "outputRevision": 68}], f)
    cases = []
    for j, sg in enumerate(sigs):
        for _ in range(6 if ctx.tier == "thorough" else 4):
            ps = [t for t in sg]
            r = rng.random()
            if r < 0.25 and ps:
                ps = ps[:rng.randrange(0, len(ps) + 1)]
            elif r < 0.4:
                ps = ps + [rng.choice(PTYPES) for _ in range(rng.choice([1, 2]))]
            if ps and rng.random() < 0.7:
                for _ in range(rng.choice([1, 1, 2])):
                    k = rng.randrange(len(ps))
                    ps[k] = rng.choice(PTYPES)
            cases.append((j, sg, ps))
    cases += [(0, sigs[0], [PTYPES[6]]), (0, sigs[0], [PTYPES[5]]), (1, sigs[1], [PTYPES[5]]), (1, sigs[1], [PTYPES[7]]), (2, sigs[2], [PTYPES[9], PTYPES[10]]), (2, sigs[2], [PTYPES[8]])]
    docs = []
    for j, sg, ps in cases:
        params = ", ".join("q%d: %s" % (k, ".".join(a)) for k, (t, a) in enumerate(ps))
        docs.append("import qmluic.QtWidgets\nVObj {\n    id: root\n    PvObj {\n        id: pv\n        onP%d: function(%s) { root.act(1) }\n    }\n}\n" % (j, params))
    old = os.environ.get("VERIF_EXTRA_METATYPES", "")
    os.environ["VERIF_EXTRA_METATYPES"] = cxx.write_e0w() + ":" + path
    res = qml.run_docs(vh, docs)
    os.environ["VERIF_EXTRA_METATYPES"] = old
    terms = []
    for (j, sg, ps), d, r in zip(cases, docs, res):
        ctx.count(("handler-params", tuple(t for t, _ in sg), tuple(t for t, _ in ps)), len(ps) > 0)
        rep = {"signal_arguments": [t for t, _ in sg], "declared_parameters": [".".join(a) for _, a in ps], "qml": d}
        if not isinstance(r, dict) or "diags" not in r:
            ctx.violation("a handler with declared parameters: no result (%s)" % str(r)[:200], rep)
            continue
        errs = [x for x in r["diags"] if x["kind"] == "error"]
        msgs = [x["msg"] for x in errs]
        if any("too many callback arguments" in m for m in msgs):
            got = [1]
        elif any("incompatible callback arguments" in m for m in msgs):
            starts = [d.index("q%d:" % k) for k in range(len(ps))]
            got = [2] + sorted(starts.index(x["start"]) if x["start"] in starts else 99 for x in errs if "incompatible callback arguments" in x["msg"])
        elif not msgs:
            got = [0]
        else:
            ctx.dist("handler-params-other-diagnostic")
            ctx.coverage.setdefault("params_other_diagnostics", [])
            if len(ctx.coverage["params_other_diagnostics"]) < 4:
                ctx.coverage["params_other_diagnostics"].append(msgs[0])
            continue
        ctx.dist("handler-params-%s" % {0: "accepted", 1: "too-many", 2: "incompatible"}[got[0]])
        # S, without the model
        want = [1] if len(ps) > len(sg) else ([0] if all(py_assignable(p[0], a[0]) for p, a in zip(ps, sg)) else [2] + [k for k, (p, a) in enumerate(zip(ps, sg)) if not py_assignable(p[0], a[0])])
        if got != want:
            ctx.violation("a handler declaring (%s) on a signal carrying (%s) is %s; by the rule (no more parameters than arguments, the k-th argument assignable to the k-th parameter) it is %s"
                          % (", ".join(rep["declared_parameters"]), ", ".join(rep["signal_arguments"]), describe_pv(got), describe_pv(want)),
                          dict(rep, impl_output=msgs, oracle_output=describe_pv(want), theorem_or_correspondence="C13_parameters_accepted_iff_leading_arguments_fit / S"))
            continue
        args = C.coq_list([e0.coq_type(e0.parse_type(t, "VObj")) for t, _ in sg])
        paths = C.coq_list([C.coq_list(['"%s"%%string' % x for x in a]) for _, a in ps])
        terms.append(("(%s, %s)" % (args, paths), C.coq_list([str(x) for x in got])))
    ctx.coverage["handler_parameter_lists"] = len(cases)
    if ctx.model_ok and terms:
        bad = C.coq_eval_mismatches("c13_params", CB_HEADER, terms, "ln_eqb", "(fun c => pv_code (verify_paths (fst c) (snd c)))", "(list tkind * list (list string)) * list nat", shard_size=200, scope="nat_scope")
        if bad and not ctx.violations:
            ctx.broke("K", "uigen/objcode.rs verify_callback_parameter_type vs model/Callback.v", "model and implementation differ on %d parameter lists; first: %s expected %s" % (len(bad), terms[bad[0]][0], terms[bad[0]][1]))


def anonymous_senders(ctx, vh, rng):
    """handlers on objects WITHOUT an id, next to objects whose ids look like generated names (pushButton1, pushButton2 ...): every handler is connected to its own
    object -- the sender names of the header are exactly the names the .ui gives the handler-carrying objects, each once"""
    docs = []
    for ids in ([None, None, None], ["pushButton1", None, None], [None, "pushButton1", None], ["pushButton", None, "pushButton1"], ["pushButton2", "pushButton1", None, None],
                [None, None, "pushButton2", None], ["pushButton1", "pushButton3", None, None, None]):
        for cls, sig in (("QPushButton", "onClicked"), ("QCheckBox", "onToggled")):
            kids = ""
            for k, i in enumerate(ids):
                i2 = None if i is None else i.replace("pushButton", "checkBox") if cls == "QCheckBox" else i
                kids += "    %s {\n%s        text: \"b%d\"\n        %s: edit.setText(\"h%d\")\n    }\n" % (cls, "" if i2 is None else "        id: %s\n" % i2, k, sig, k)
            docs.append("import qmluic.QtWidgets\nQWidget {\n    QLineEdit { id: edit }\n%s}\n" % kids)
    os.environ["VERIF_EXTRA_METATYPES"] = ""
    res = qml.run_docs(vh, docs)
    for d, r in zip(docs, res):
        ctx.count(("anonymous-senders", d), True)
        ctx.dist("handlers-on-anonymous-objects")
        if not isinstance(r, dict) or not r.get("header") or r.get("ui") is None or any(x["kind"] == "error" for x in r["diags"]):
            ctx.violation("a document of handlers on id-less buttons is not accepted: %s" % (str(r.get("diags") if isinstance(r, dict) else r)[:200]), {"qml": d})
            continue
        root = qml.parse_ui(r["ui"])
        by_text = {}
        for w in root.iter("widget"):
            for p in w.findall("property"):
                if p.get("name") == "text" and p[0].text and p[0].text.startswith("b"):
                    by_text[p[0].text] = w.get("name")
        names = list(by_text.values())
        senders = re.findall(r"QObject::connect\(this->ui_->(\w+),", r["header"])
        # which handler body runs for which sender: setText("hK") inside the function the connect names
        if len(set(names)) != len(names):
            ctx.violation("two of the buttons get the same name in the .ui (%s): a handler cannot be connected to its own object" % sorted(names), {"qml": d, "impl_output": r["ui"]})
        elif sorted(senders) != sorted(names):
            ctx.violation("the handlers are connected to the senders %s; the handler-carrying objects are named %s" % (sorted(senders), sorted(names)),
                          {"qml": d, "impl_output": r["header"], "theorem_or_correspondence": "S: one connection per handler, to the declaring object"})


def describe_pv(v):
    return {0: "accepted", 1: "refused (too many parameters)"}.get(v[0], "refused (parameters %s do not fit)" % v[1:])


def run(ctx):
    ctx.proof_leg(TARGETS, PINS, k_targets=exe.K_TARGETS + ["model/Overload.vo", "model/Callback.vo"])
    vh = ctx.need_harness()
    rng = ctx.rng
    os.environ["VERIF_EXTRA_METATYPES"] = cxx.write_e0w()
    n = 2400 if ctx.tier == "thorough" else 360
    ncases = 10 if ctx.tier == "thorough" else 6
    items = []
    for i in range(n):
        g = sgen.Gen(rng, max_depth=rng.choice([2, 3]), handler=True)
        p, sig = g.handler_program()
        if p[0] == "callback_func":
            sig = {("int",): ("int",), ("bool",): ("int", "bool"), ("string",): ("int", "string"), ("int", "string"): ("int", "string"), (): (), ("double",): ("double",)}[tuple(sig)]
            # the declared parameters must be a prefix of the signal's: regenerate the parameter list accordingly
            want = [sgen.ANNOT[t] for t in sig][:len(p[1])]
            if [ty for _, ty in p[1]] != want:
                continue
        src = prog.qml_program(p)
        items.append((p, tuple(sig), src))
        ctx.dist("handler-%s-%d-params" % ("function" if p[0] == "callback_func" else "block", len(p[1]) if p[0] == "callback_func" else 0))
    # the same handlers with comments between the clauses of their switch statements (refused today; if ever accepted, a comment means nothing)
    def commented(src):
        out = []
        for ln in src.split("\n"):
            t = ln.strip()
            if t.startswith("default:") or (t.startswith("case ") and rng.random() < 0.5):
                out.append(ln[:len(ln) - len(ln.lstrip())] + rng.choice(["// note", "/* note */"]))
            out.append(ln)
        return "\n".join(out)
    twins = [(p, sig, commented(src)) for p, sig, src in items if "default:" in src]
    for tw in twins[:(200 if ctx.tier == "thorough" else 40)]:
        items.append(tw)
        ctx.dist("handler-commented-switch")
    singles = exe.accepted_singles(vh, [("handler", SIGNALS[sig][0], src) for p, sig, src in items])
    acc = []
    for (p, sig, src), r in zip(items, singles):
        ok = isinstance(r, dict) and r.get("header") and not r["has_error"]
        ctx.count(src, ok)
        if ok:
            acc.append((p, sig, src))
        elif isinstance(r, dict) and r.get("diags"):
            ctx.coverage.setdefault("rejection_samples", [])
            if len(ctx.coverage["rejection_samples"]) < 5:
                ctx.coverage["rejection_samples"].append({"qml": src[:200], "diag": r["diags"][0]["msg"]})
    ctx.coverage["handlers_generated"] = len(items)
    ctx.coverage["handlers_accepted"] = len(acc)
    overload_leg(ctx, vh, rng)
    names_leg(ctx, vh, rng)
    anonymous_senders(ctx, vh, rng)
    params_leg(ctx, vh, rng)
    os.environ["VERIF_EXTRA_METATYPES"] = cxx.write_e0w()
    # ---- rejections the property names
    rej = [("onChanged", "a.act(1)", "cannot bind to overloaded signal"), ("onAct", "a.act(1)", "not a signal"), ("onCompute", "a.act(1)", "not a signal"),
           ("onFired", "function(x: int) { a.act(x) }", "too many callback arguments"), ("onFired2", "function(x: QString) { a.act(1) }", "incompatible callback arguments"),
           ("onFired2", "function(x: int, y: int) { a.act(x) }", "incompatible callback arguments"), ("onPicked", "function(x: int, y: bool, z: int) { a.act(x) }", "too many callback arguments"),
           ("onNope", "a.act(1)", "unknown signal")]
    rres = qml.run_docs(vh, [cxx.document([], [("a", h, s)]) for h, s, _ in rej])
    for (h, s, want), r in zip(rej, rres):
        ctx.count(("reject", h, s), True)
        msgs = [d["msg"] for d in r.get("diags", [])] if isinstance(r, dict) else []
        if not any(want in m for m in msgs):
            ctx.violation("handler %s: %s is not rejected with '%s' (diagnostics: %r)" % (h, s, want, msgs[:2]), {"qml": cxx.document([], [("a", h, s)]), "impl_output": msgs})
    # picked(): picked(int), picked(int, bool) collapse to the variant with most arguments
    r = qml.run_docs(vh, [cxx.document([], [("a", "onPicked", "function(x: int, y: bool) { a.act(x) }")])])[0]
    if not (isinstance(r, dict) and r.get("header") and "QOverload<int, bool>::of(&VObj::picked)" in r["header"]):
        ctx.violation("a handler on the default-argument variants picked()/picked(int)/picked(int,bool) is not connected to the variant carrying the most arguments",
                      {"qml": cxx.document([], [("a", "onPicked", "function(x: int, y: bool) { a.act(x) }")]), "impl_output": r.get("header") if isinstance(r, dict) else str(r)})
    work = os.path.join(C.BUILD, "c13")
    shutil.rmtree(work, ignore_errors=True)
    chunks = [acc[i:i + 10] for i in range(0, len(acc), 10)]
    docs = []
    for ci, chunk in enumerate(chunks):
        extra = [("h%d" % k, "VObj") for k in range(len(chunk))]
        handlers = [("h%d" % k, SIGNALS[sig][0], src) for k, (p, sig, src) in enumerate(chunk)]
        docs.append((cxx.document([], handlers, extra), chunk, [("root", "VObj")] + cxx.OBJECT_DECLS + extra))
    res = qml.run_docs(vh, [d for d, _, _ in docs])
    jobs = []
    for ci, ((doc, chunk, objects), r) in enumerate(zip(docs, res)):
        if not isinstance(r, dict) or not r.get("header") or r["has_error"]:
            ctx.violation("a document of individually accepted handlers is rejected: %s" % str(r.get("diags") if isinstance(r, dict) else r)[:300], {"qml": doc})
            continue
        hs = [("h%d" % k, SIGNALS[sig][1], SIGNALS[sig][2]) for k, (p, sig, src) in enumerate(chunk)]
        # exactly one connection per handler, to that signal of the declaring object
        for k, (p, sig, src) in enumerate(chunk):
            pat = r"QObject::connect\(this->ui_->h%d, QOverload<[^>]*>::of\(&VObj::%s\)" % (k, SIGNALS[sig][1])
            if len(re.findall(pat, r["header"])) != 1:
                ctx.violation("handler %s of object h%d is connected %d times to its signal" % (SIGNALS[sig][0], k, len(re.findall(pat, r["header"]))), {"qml": doc, "impl_output": r["header"]})
        jobs.append((ci, os.path.join(work, "d%d" % ci), doc, chunk, objects, r["header"], hs))
    with concurrent.futures.ThreadPoolExecutor(max_workers=C.NCPU) as ex:
        built = list(ex.map(lambda j: exe.build(j[1], j[4], j[5], [], j[6]), jobs))
    cases = {}
    terms, where = [], []
    for (ci, d, doc, chunk, objects, header, hs) in jobs:
        for k, (p, sig, src) in enumerate(chunk):
            cs = []
            for _ in range(ncases):
                w = exe.world(rng)
                args = [rng.choice(exe.INTS) if t == "int" else (rng.random() < 0.5) if t == "bool" else rng.choice(exe.DOUBLES) if t == "double" else rng.choice(exe.STRS) for t in SIGNALS[sig][2]]
                cs.append((w, args))
            cases[(ci, k)] = cs
            terms.append("handle_all %s %s" % (prog.coq_program(p), C.coq_list(["(%s, %s)" % (exe.coq_world(w), C.coq_list([coq_arg(t, v) for t, v in zip(SIGNALS[sig][2], args)])) for w, args in cs])))
            where.append((ci, k))
    if not ctx.model_ok:
        return
    shard = 30
    with concurrent.futures.ThreadPoolExecutor(max_workers=C.NCPU) as ex:
        parts = list(ex.map(lambda i: C.coq_eval_terms("c13_%d" % i, HDR, terms[i:i + shard], scope="Z_scope", timeout=900), range(0, len(terms), shard)))
    outs = [o for part in parts for o in part]
    expected = {}
    for (ci, k), o in zip(where, outs):
        expected[(ci, k)] = [exe.canon_doubles(x) for x in re.findall(r'"([^"]*)"', o)]
        if len(expected[(ci, k)]) != ncases:
            ctx.broke("K", "model/Sem.v evaluation", "the reference evaluator gave no result list for a handler: %s" % o[:600])
            return
    ncmp = nundef = nstuck = 0
    known = ctx.known_classes()
    seen_known = {}
    for (ci, d, doc, chunk, objects, header, hs), (rc, err) in zip(jobs, built):
        if rc != 0:
            first = next((l for l in err.split("\n") if "error" in l), err[:300])
            ctx.violation("the support header does not compile: %s" % first[-300:], {"qml": doc, "impl_output": header, "compiler": err[:2000]})
            continue
        script, meta = [], []
        for k, (p, sig, src) in enumerate(chunk):
            for ji, (w, args) in enumerate(cases[(ci, k)]):
                e = expected[(ci, k)][ji]
                if e == "UNDEF":
                    nundef += 1
                    continue
                if e.startswith("STUCK"):
                    nstuck += 1
                    ctx.coverage.setdefault("stuck_samples", [])
                    if len(ctx.coverage["stuck_samples"]) < 5:
                        ctx.coverage["stuck_samples"].append({"qml": src[:300], "why": e})
                    continue
                script.append(exe.world_line(w))
                meta.append(None)
                script.append("H %d %s" % (k, " ".join(line_arg(t, v) for t, v in zip(SIGNALS[sig][2], args))))
                meta.append((k, ji, e))
        got, rcode, tail = exe.run_script(d, script)
        for j, m in enumerate(meta):
            if m is None:
                continue
            k, ji, want = m
            have = got[j] if j < len(got) else "<no result: the process stopped (exit %s) %s>" % (rcode, " ".join(t for t in tail if t)[-400:])
            ncmp += 1
            if have != want:
                p, sig, src = chunk[k]
                w, args = cases[(ci, k)][ji]
                what = "emitting %s(%s): the handler performs [%s], the source prescribes [%s]" % (SIGNALS[sig][1], ", ".join(map(str, args)), have[:400], want[:400])
                cls = classify(have, want)
                if cls and cls in known:
                    seen_known[cls] = seen_known.get(cls, 0) + 1
                    if seen_known[cls] == 1:
                        ctx.known_finding(cls, what)
                    continue
                ctx.violation(what, {"qml": cxx.document([], [("a", SIGNALS[sig][0], src)]), "handler": src, "signal_args": args, "world": {exe.NAMES[q]: w[q] for q in range(5)},
                                     "impl_output": have, "oracle_output": want, "case": {"program": p}, "theorem_or_correspondence": "C13 (the property itself): emitted C++ vs model/Sem.v"})
                if j >= len(got):
                    break
    shutil.rmtree(work, ignore_errors=True)
    ctx.coverage["emissions_compared"] = ncmp
    ctx.coverage["undefined_skipped"] = nundef
    ctx.coverage["outside_fragment"] = nstuck
    ctx.coverage["known_finding_instances"] = seen_known
    ctx.sample({"qml": docs[0][0] if docs else None})
    ctx.coverage["rule"] = ("handlers as blocks and as functions with 0..2 typed parameters (a prefix of the signal's) on fired() / roChanged(int) / picked(int, bool) (default-argument "
                            "variants) / fired2(int, QString): property writes through named objects, this and pointer chains, method calls, console.*, let/const, if/else, switch, "
                            "early return; each accepted handler emitted %d times with boundary argument values in random worlds; plus the 8 rejection shapes" % ncases)


def classify(have, want):
    """the listed finding F16: same multiset of effects and same final state, another order (arguments before the receiver / value before the target)"""
    try:
        ht, hs = have.split(" # ")
        wt, ws = want.split(" # ")
    except ValueError:
        return None
    if hs == ws and sorted(ht.split(";")) == sorted(wt.split(";")) and ht != wt:
        return "effects_of_arguments_before_receiver"
    return None

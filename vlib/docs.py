"""QML document corpus (the repository's own examples and the inline documents of its tests) and a mutation engine."""
import glob
import os
import re
from . import common as C

TOKEN = re.compile(r'"(?:[^"\\\n]|\\.)*"|\'(?:[^\'\\\n]|\\.)*\'|[A-Za-z_][A-Za-z_0-9]*|\d+(?:\.\d+)?|//[^\n]*|/\*.*?\*/|\s+|.', re.S)


def dedent(s):
    lines = s.split("\n")
    ind = min((len(l) - len(l.lstrip(" ")) for l in lines if l.strip()), default=0)
    return "\n".join(l[ind:] if l.strip() else "" for l in lines).strip("\n") + "\n"


def corpus():
    docs = []
    for path in sorted(glob.glob(os.path.join(C.REPO, "tests", "test_uigen_*.rs"))):
        src = open(path, encoding="utf-8").read()
        for m in re.finditer(r'(?<!@)r###"(.*?)"###', src, re.S):
            body = m.group(1)
            if "import qmluic" in body and "┌" not in body:
                docs.append(dedent(body))
    for path in sorted(glob.glob(os.path.join(C.REPO, "examples", "*.qml"))):
        docs.append(open(path, encoding="utf-8").read())
    seen = set()
    out = []
    for d in docs:
        if d not in seen:
            seen.add(d)
            out.append(d)
    return out


IDENT_POOL = ["QWidget", "QLabel", "QPushButton", "QVBoxLayout", "QGridLayout", "QAction", "QMenu", "QTabWidget", "QComboBox", "QSpacerItem", "Nope",
              "text", "id", "enabled", "checked", "currentIndex", "windowTitle", "actions", "model", "onClicked", "onToggled", "QLayout", "QTabWidget",
              "this", "null", "true", "false", "function", "let", "const", "if", "else", "switch", "case", "default", "break", "return", "as", "int",
              "Qt", "AlignLeft", "qsTr", "Math", "console", "menuAction", "x", "foo", "root", "void", "typeof", "import", "property", "signal"]
PUNCT = list("{}()[]:;,.?=+-*/%<>!&|^~\"'`\\") + ["=>", "==", "===", "&&", "||", "<<", ">>", ">>>", "**", "??", "?.", "...", "\n"]
LITERALS = ["0", "1", "-1", "42", "1.5", "1e3", "0x10", "070", "09", "1_000", "9223372036854775808", "18446744073709551616", "1e999", ".5", "5.", "0b2",
            '"s"', '"\\n"', '"\\x41"', '"\\u{110000}"', '"\\ud800"', '"\\q"', '"é"', "'q'", '""', "``", '"unterminated', "/* c */", "// c\n", "é", "\U0001f600", " "]


IDENT = re.compile(r"^[A-Za-z_][A-Za-z_0-9]*$")
NUMBER = re.compile(r"^\d")
CLASSES = ["QWidget", "QLabel", "QPushButton", "QVBoxLayout", "QHBoxLayout", "QGridLayout", "QFormLayout", "QAction", "QMenu", "QMenuBar", "QTabWidget",
           "QComboBox", "QSpacerItem", "QLineEdit", "QCheckBox", "QDialog", "QMainWindow", "QListWidget", "QTableView", "QObject", "QColor", "Nope"]
PROPS = ["text", "enabled", "checked", "currentIndex", "windowTitle", "actions", "model", "toolTip", "geometry", "sizePolicy", "font", "palette", "cursor",
         "shortcut", "buddy", "separator", "flow", "columns", "rows", "contentsMargins", "alignment", "icon", "pixmap", "title", "width", "minimumSize",
         "onClicked", "onToggled", "onTextChanged", "onCurrentIndexChanged", "onAccepted", "row", "column", "rowSpan", "rowStretch", "styleSheet", "nope"]
VALUES = ["true", "false", "null", "this", "0", "1", "-1", "42", "1.5", '"s"', "qsTr(\"s\")", "[]", "[\"a\", \"b\"]", "Qt.AlignLeft", "Qt.AlignLeft | Qt.AlignTop",
          "QSizePolicy.Expanding", "x", "root", "x.text", "x.enabled", "x.currentIndex", "x.checked ? 1 : 2", "!x.checked", "x.text + \"s\"", "x.width > 3",
          "{ return 1 }", "function() {}", "function(a: int) { console.log(a) }", "{ switch (x.currentIndex) { case 0: break; default: } }", "1 << 63", "1 / 0", "\"\\x01\"", "\"\\r\""]


def mutate(rng, src, n=None):
    """mostly semantic edits (identifiers, values, whole lines); a minority of raw token edits"""
    toks = TOKEN.findall(src)
    if not toks:
        return src
    for _ in range(n or rng.choice([1, 1, 1, 2, 3])):
        r = rng.random()
        idents = [i for i, t in enumerate(toks) if IDENT.match(t)]
        if r < 0.45 and idents:
            i = rng.choice(idents)
            t = toks[i]
            if t[0].isupper():
                toks[i] = rng.choice(CLASSES + [toks[j] for j in idents if toks[j][0].isupper()])
            else:
                toks[i] = rng.choice(PROPS + IDENT_POOL + [toks[j] for j in idents])
        elif r < 0.65:
            # replace the value after a ':' up to the end of line / '}' by another value
            colons = [i for i, t in enumerate(toks) if t == ":"]
            if colons:
                i = rng.choice(colons)
                j = i + 1
                depth = 0
                while j < len(toks) and not (depth == 0 and (toks[j] in ("}", ";") or "\n" in toks[j])):
                    depth += toks[j] in "{[("
                    depth -= toks[j] in "}])"
                    j += 1
                toks[i + 1:j] = [" ", rng.choice(VALUES + LITERALS)]
        elif r < 0.8:
            lines = "".join(toks).split("\n")
            k = rng.randrange(len(lines))
            op = rng.randrange(4)
            if op == 0 and len(lines) > 1:
                del lines[k]
            elif op == 1:
                lines.insert(k, lines[k])
            elif op == 2:
                j = rng.randrange(len(lines))
                lines[k], lines[j] = lines[j], lines[k]
            else:
                ind = " " * (len(lines[k]) - len(lines[k].lstrip()))
                lines.insert(k, ind + "%s: %s" % (rng.choice(PROPS), rng.choice(VALUES)) if rng.random() < 0.7 else ind + "%s { }" % rng.choice(CLASSES))
            toks = TOKEN.findall("\n".join(lines)) or [" "]
        else:
            op = rng.randrange(7)
            i = rng.randrange(len(toks))
            if op == 0:
                del toks[i]
            elif op == 1:
                toks.insert(i, toks[i])
            elif op == 2:
                j = rng.randrange(len(toks))
                toks[i], toks[j] = toks[j], toks[i]
            elif op == 3:
                toks.insert(i, rng.choice(PUNCT))
            elif op == 4:
                toks[i] = rng.choice(LITERALS)
            elif op == 5:
                toks = toks[:i]
            else:
                toks.insert(i, rng.choice(IDENT_POOL + LITERALS))
        if not toks:
            toks = [" "]
    return "".join(toks)


def soup(rng, n):
    return "".join(rng.choice(IDENT_POOL + PUNCT + LITERALS + [" ", " ", "\n"]) + rng.choice(["", " "]) for _ in range(n))

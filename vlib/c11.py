"""C11 -- The object tree and child order of the QML document are preserved.

P: props/C11.v.  K: the element tree of the real .ui (and the placement diagnostics, in order) vs model/ObjTree.v form_of on
generated object trees of every kind (widgets, menus, layouts, spacers, actions, separators and near-separators, explicit
`actions:` lists, objects of other classes, misplaced kinds).  S (independent of the model, on the real output): walking the
source tree and the .ui in parallel -- each object appears exactly once, below the element of its parent, in source order,
with its class and its marker property; layout children are each inside their own <item>; the <addaction> list is the
action-like children in order (or the explicit list).
"""
import re
from . import common as C
from . import qml

TARGETS = ["props/C11.vo"]
PINS = "pins/C11.v"
K_TARGETS = ["model/ObjTree.vo"]
HEADER = """From QV Require Import model.Base model.ObjTree.
Fixpoint l_eqb {A} (e : A -> A -> bool) (a b : list A) : bool := match a, b with [] , [] => true | x :: r, y :: s => e x y && l_eqb e r s | _, _ => false end.
Definition on_eqb (a b : option nat) := match a, b with None, None => true | Some x, Some y => Nat.eqb x y | _, _ => false end.
Fixpoint u_eqb (a b : uiel) : bool :=
  match a, b with
  | UWidget n ac ch, UWidget n' ac' ch' => Nat.eqb n n' && l_eqb on_eqb ac ac' &&
      (fix go (x y : list uiel) := match x, y with [], [] => true | p :: r, q :: s => u_eqb p q && go r s | _, _ => false end) ch ch'
  | ULayout n ch, ULayout n' ch' => Nat.eqb n n' &&
      (fix go (x y : list uiel) := match x, y with [], [] => true | p :: r, q :: s => u_eqb p q && go r s | _, _ => false end) ch ch'
  | USpacer n, USpacer n' => Nat.eqb n n'
  | UAction n, UAction n' => Nat.eqb n n'
  | _, _ => false
  end.
Definition pe_eqb (a b : placement_error) := match a, b with
  | PENotActionLayoutWidget x, PENotActionLayoutWidget y | PENotLayoutSpacerWidget x, PENotLayoutSpacerWidget y | PEHasChildren x, PEHasChildren y => Nat.eqb x y
  | _, _ => false end.
Definition case_eqb (m e : uiel * list placement_error) := u_eqb (fst m) (fst e) && l_eqb pe_eqb (snd m) (snd e).
"""
TRUSTED = ["harness uigen + xml.etree reading of the .ui; the classification of a class into widget/layout/spacer/action/menu/other is the class graph's (C17)",
           "names of objects without id are predicted by a Python port of the naming rule (itself the subject of C10)"]

# My* are classes DERIVED from a class of the kind (what a custom component is to the translator): data/verif_kinds_metatypes.json
WIDGETS = ["QWidget", "QGroupBox", "QFrame", "QPushButton", "QLabel", "QToolBar", "QMenuBar", "QTabWidget", "QScrollArea", "QDialog", "QToolButton", "MyFrame"]
LAYOUTS = ["QVBoxLayout", "QHBoxLayout", "QGridLayout", "QFormLayout", "MyBoxLayout", "MyGrid"]
OTHERS = ["QButtonGroup", "QTimer", "QObject", "MyTimer"]
MENUS = ["QMenu", "QMenu", "MyMenu"]
ACTIONS = ["QAction", "QAction", "QAction", "MyAction"]
EXTRA = C.VERIF + "/data/verif_kinds_metatypes.json"
KCOQ = {"widget": "KWidget", "layout": "KLayout", "spacer": "KSpacer", "action": "KAction", "separator": "KSeparator", "menu": "KMenu", "other": "KOther"}


def var_prefix(cls):
    s = cls[1:] if cls[0] in "QK" and len(cls) > 1 and cls[1].isalpha() else cls
    out, i = [], 0
    while i < len(s):
        out.append(s[i].lower())
        i += 1
        if not s[i - 1].isupper():
            break
    return "".join(out) + s[i:]


class TreeGen:
    def __init__(self, rng, misplace=0.0, max_depth=4):
        self.rng, self.misplace, self.max_depth = rng, misplace, max_depth
        self.n = 0

    def node(self, kind, cls):
        self.n += 1
        o = {"kind": kind, "cls": cls, "ix": self.n, "id": ("o%d" % self.n) if self.rng.random() < 0.6 else None, "children": [], "props": [], "acts": None}
        return o

    def gen(self, ctxkind, d):
        """an object for a position below a widget ('w') or below a layout ('l')"""
        r = self.rng
        ok = {"w": ["widget", "widget", "layout", "action", "action", "separator", "menu"], "l": ["widget", "widget", "widget", "layout", "spacer"]}[ctxkind]
        bad = {"w": ["spacer", "other"], "l": ["action", "separator", "other", "menu"]}[ctxkind]
        kind = r.choice(bad) if r.random() < self.misplace else r.choice(ok)
        if d >= self.max_depth and kind in ("layout", "menu"):
            kind = "widget"
        if kind == "widget":
            o = self.node(kind, r.choice(WIDGETS))
            if d < self.max_depth:
                for _ in range(r.choice([0, 0, 1, 2, 3, 4])):
                    o["children"].append(self.gen("w", d + 1))
        elif kind == "menu":
            o = self.node(kind, r.choice(MENUS))
            for _ in range(r.choice([0, 1, 2, 3, 4])):
                k2 = r.choice(["action", "action", "separator", "menu"]) if d + 1 < self.max_depth else r.choice(["action", "separator"])
                o["children"].append(self.leaflike(k2, d + 1))
        elif kind == "layout":
            o = self.node(kind, r.choice(LAYOUTS))
            for _ in range(r.choice([0, 1, 2, 3, 4])):
                o["children"].append(self.gen("l", d + 1))
            if o["cls"] in ("QFormLayout", "QGridLayout", "MyGrid") and len(o["children"]) >= 2 and r.random() < 0.4:
                # explicit cells that go BACKWARDS relative to the source order: the <item>s keep the source order all the same
                ncol = 2 if o["cls"] == "QFormLayout" else 3
                cells = [(i // ncol, i % ncol) for i in range(len(o["children"]))]
                r.shuffle(cells)
                for c, (row, col) in zip(o["children"], cells):
                    if c["kind"] in ("widget", "layout", "spacer"):
                        c["props"] = list(c["props"]) + ["QLayout.row: %d" % row, "QLayout.column: %d" % col]
        else:
            o = self.leaflike(kind, d)
        return o

    def leaflike(self, kind, d):
        r = self.rng
        if kind == "menu":
            o = self.node("menu", r.choice(MENUS))
            for _ in range(r.choice([0, 1, 2])):
                o["children"].append(self.leaflike(r.choice(["action", "separator"]), d + 1))
            return o
        if kind == "action":
            o = self.node("action", r.choice(ACTIONS))
            v = r.random()
            if v < 0.1:
                o["props"] = ["separator: false"]                           # not a separator: the value is false
            elif v < 0.2:
                o["props"] = ["separator: true", "checkable: true"]          # not a static separator: another property
        elif kind == "separator":
            o = self.node("separator", r.choice(ACTIONS))
            o["props"] = ["separator: true"]
        elif kind == "spacer":
            o = self.node("spacer", "QSpacerItem")
        else:
            o = self.node("other", r.choice(OTHERS))
        if r.random() < self.misplace * 0.7:                                 # a leaf kind with children
            for _ in range(r.choice([1, 2])):
                o["children"].append(self.node("widget", "QLabel"))
        return o

    def document(self):
        self.n = 0
        r = self.rng
        root = self.node("widget", r.choice(["QWidget", "QDialog", "QMainWindow", "QGroupBox"]))
        for _ in range(r.choice([1, 1, 2, 3, 4, 5])):
            root["children"].append(self.gen("w", 1))
        # explicit action lists on a few widgets, over the actions/menus/separators that have an id
        flat = list(walk(root))
        cands = [o for o in flat if o["kind"] in ("action", "separator") and o["id"]]    # a list mixing QMenu and QAction is a type error
        for o in flat:
            if o["kind"] in ("widget", "menu") and cands and r.random() < 0.12:
                k = r.randrange(0, min(4, len(cands)) + 1)
                o["acts"] = [c["ix"] for c in r.sample(cands, k)]
        return root


def walk(o):
    yield o
    for c in o["children"]:
        yield from walk(c)


def post(o):
    for c in o["children"]:
        yield from post(c)
    yield o


def assign_names(root):
    used, counts = set(), {}
    ids = {o["id"] for o in walk(root) if o["id"]}
    for o in post(root):
        if o["id"]:
            o["name"] = o["id"]
            continue
        p = var_prefix(o["cls"])
        n = counts.get(p, 0)
        while True:
            cand = p if n == 0 else "%s%d" % (p, n)
            if cand not in ids and cand not in used:
                break
            n += 1
        counts[p] = n + 1
        used.add(cand)
        o["name"] = cand


def marker(o):
    if o["kind"] in ("widget", "menu"):
        return 'toolTip: "m%d"' % o["ix"]
    if o["kind"] == "action" and not o["props"]:
        return 'text: "m%d"' % o["ix"]
    return None


def render(root):
    """QML text, recording the byte offset at which every object starts"""
    out = ["import qmluic.QtWidgets\n"]
    pos = [len(out[0])]
    by_ix = {o["ix"]: o for o in walk(root)}

    def emit(o, ind):
        o["start"] = pos[0] + len(ind)
        lines = ["%s%s {" % (ind, o["cls"])]
        if o["id"]:
            lines.append("%s  id: %s" % (ind, o["id"]))
        m = marker(o)
        if m:
            lines.append("%s  %s" % (ind, m))
        for p in o["props"]:
            lines.append("%s  %s" % (ind, p))
        if o["acts"] is not None:
            lines.append("%s  actions: [%s]" % (ind, ", ".join(by_ix[a]["id"] for a in o["acts"])))
        s = "\n".join(lines) + "\n"
        out.append(s)
        pos[0] += len(s)
        for c in o["children"]:
            emit(c, ind + "  ")
        s = "%s}\n" % ind
        out.append(s)
        pos[0] += len(s)
    emit(root, "")
    return "".join(out)


def coq_tree(o):
    acts = "None" if o["acts"] is None else "(Some %s)" % C.coq_list([str(a) for a in o["acts"]])
    return "(ON %s %d %s %s)" % (KCOQ[o["kind"]], o["ix"], acts, C.coq_list([coq_tree(c) for c in o["children"]]))


class Shape(Exception):
    pass


def real_shape(el, name_ix):
    """the uiel term of a <widget>/<layout>/<spacer>/<action> element of the real .ui"""
    def ix(name):
        if name not in name_ix:
            raise Shape("element named %r is no object of the document" % name)
        return name_ix[name]
    if el.tag == "widget":
        acts = ["None" if a.get("name") == "separator" else "(Some %d)" % ix(a.get("name")) for a in el.findall("addaction")]
        kids = [real_shape(c, name_ix) for c in el if c.tag in ("widget", "layout", "action", "spacer")]
        return "(UWidget %d %s %s)" % (ix(el.get("name")), C.coq_list(acts), C.coq_list(kids))
    if el.tag == "layout":
        items = []
        for c in el:
            if c.tag == "item":
                inner = [g for g in c if g.tag in ("widget", "layout", "spacer", "action")]
                if len(inner) != 1:
                    raise Shape("layout <item> with %d objects" % len(inner))
                items.append(real_shape(inner[0], name_ix))
            elif c.tag != "property":
                raise Shape("<%s> directly inside <layout>" % c.tag)
        return "(ULayout %d %s)" % (ix(el.get("name")), C.coq_list(items))
    if el.tag == "spacer":
        return "(USpacer %d)" % ix(el.get("name"))
    if el.tag == "action":
        return "(UAction %d)" % ix(el.get("name"))
    raise Shape("unexpected <%s>" % el.tag)


def parallel(o, el, in_layout, errs, seen, by_ix, seps):
    """S: the source tree against the element tree, without the model.  Only called on well-placed documents."""
    tag = {"widget": "widget", "menu": "widget", "layout": "layout", "spacer": "spacer", "action": "action"}[o["kind"]]
    if el.tag != tag:
        errs.append("object %s (%s) is written as <%s>" % (o["name"], o["cls"], el.tag))
        return
    if el.get("name") != o["name"]:
        errs.append("at the position of object %s the .ui has %r" % (o["name"], el.get("name")))
        return
    seen.append(o["ix"])
    if tag in ("widget", "layout") and el.get("class") != o["cls"]:
        errs.append("object %s: class %r written as %r" % (o["name"], o["cls"], el.get("class")))
    m = marker(o)
    if m:
        pname, val = m.split(": ")
        got = [p.find("string").text for p in el.findall("property") if p.get("name") == pname and p.find("string") is not None]
        if got != [val.strip('"')]:
            errs.append("object %s: marker %s read back as %r" % (o["name"], m, got))
    if tag in ("spacer", "action"):
        return
    kids_src = [c for c in o["children"] if c["kind"] != "separator"]
    if tag == "layout":
        kids_el = []
        for c in el:
            if c.tag == "item":
                inner = [g for g in c if g.tag != "property"]
                if len(inner) != 1:
                    errs.append("layout %s: an <item> holds %d objects" % (o["name"], len(inner)))
                    return
                kids_el.append(inner[0])
            elif c.tag != "property":
                errs.append("layout %s: <%s> outside <item>" % (o["name"], c.tag))
    else:
        kids_el = [c for c in el if c.tag in ("widget", "layout", "action", "spacer")]
        exp = []
        if o["acts"] is not None:
            exp = ["separator" if a in seps else by_ix[a]["name"] for a in o["acts"]]
        else:
            for c in o["children"]:
                if c["kind"] in ("action", "menu"):
                    exp.append(c["name"])
                elif c["kind"] == "separator":
                    exp.append("separator")
        got = [a.get("name") for a in el.findall("addaction")]
        if got != exp:
            errs.append("widget %s: <addaction> list %r, expected %r" % (o["name"], got, exp))
    if len(kids_el) != len(kids_src):
        errs.append("object %s has %d child objects (separators aside) but its element has %d: %r" % (o["name"], len(kids_src), len(kids_el), [k.get("name") for k in kids_el]))
        return
    for c, e in zip(kids_src, kids_el):
        parallel(c, e, tag == "layout", errs, seen, by_ix, seps)


def well_placed(o, in_layout):
    k = o["kind"]
    if k == "layout":
        return all(well_placed(c, True) for c in o["children"])
    if k in ("widget", "menu"):
        return all(well_placed(c, False) for c in o["children"])
    if k == "spacer":
        return in_layout and not o["children"]
    if k in ("action", "separator"):
        return not in_layout and not o["children"]
    return False


PLACE = [(re.compile(r"is not a QAction, QLayout, nor QWidget$"), "PENotActionLayoutWidget"),
         (re.compile(r"is not a QLayout, QSpacerItem, nor QWidget$"), "PENotLayoutSpacerWidget"),
         (re.compile(r"should have no children$"), "PEHasChildren")]


def run(ctx):
    ctx.proof_leg(TARGETS, PINS, k_targets=K_TARGETS)
    vh = ctx.need_harness()
    rng = ctx.rng
    import os
    os.environ["VERIF_EXTRA_METATYPES"] = EXTRA
    n = 9000 if ctx.tier == "thorough" else 600
    trees = []
    for i in range(n):
        mis = 0.0 if i % 3 else 0.12
        g = TreeGen(rng, misplace=mis, max_depth=rng.choice([2, 3, 4]))
        trees.append(g.document())
        ctx.dist("tree-misplaced" if mis else "tree-well-placed-gen")
    # trees far deeper than any generated one (widget / layout / widget ... 40, 65, 66, 130 levels; a menu chain): the form nests as deep as the document does
    def deep(n, menus=False):
        cnt = [0]
        def node(kind, cls):
            cnt[0] += 1
            return {"kind": kind, "cls": cls, "ix": cnt[0], "id": ("o%d" % cnt[0]) if cnt[0] % 3 == 0 else None, "children": [], "props": [], "acts": None}
        root = node("widget", "QWidget")
        root["deep"] = True          # judged by the S oracle only: a Coq term nested this deep is out of reach of coqc's parser
        cur = root
        for lvl in range(n):
            nxt = node("menu", "QMenu") if menus else (node("layout", "QVBoxLayout") if lvl % 2 == 0 else node("widget", "QWidget"))
            cur["children"].append(nxt)
            cur = nxt
        if menus:
            cur["children"].append(node("action", "QAction"))
        else:
            if cur["kind"] == "widget":
                lay = node("layout", "QHBoxLayout")
                cur["children"].append(lay)
                cur = lay
            cur["children"].append(node("widget", "QLabel"))
            cur["children"].append(node("widget", "QPushButton"))
        return root
    for n in ((40, 65, 66, 130) if ctx.tier == "thorough" else (40, 66, 130)):
        trees.append(deep(n))
        ctx.dist("tree-deep")
    trees.append(deep(70, menus=True))
    ctx.dist("tree-deep")
    if ctx.replay:
        trees = [ctx.replay["case"]]
    docs = []
    for t in trees:
        assign_names(t)
        docs.append(render(t))
    impl = qml.run_docs(vh, docs)
    # every fourth document is ALSO translated the way the command line does it: five documents through one BuildContext (the generated names and the ids repeat
    # from document to document); what is judged below is that result, and it has to be the result of the document translated alone
    if not ctx.replay:
        sel = [i for i in range(len(docs)) if i % 4 == 3]
        shared = qml.run_docs_shared(vh, [docs[i] for i in sel], "c11", group=5)["forward"]
        for i, r in zip(sel, shared):
            a = impl[i]
            if isinstance(a, dict) and isinstance(r, dict) and a.get("ui") is not None and r.get("ui") is not None:
                ua, ub = a["ui"].replace("<class>MyType</class>", ""), re.sub(r"<class>Doc\d+</class>", "", r["ui"])
                if ua != ub or sorted((d["msg"], d["start"]) for d in a["diags"]) != sorted((d["msg"], d["start"]) for d in r["diags"]):
                    ctx.violation("a document translated after others through one BuildContext gives a different form than translated alone",
                                  {"qml": docs[i], "translated_before": [docs[j] for j in sel[(sel.index(i) // 5) * 5: sel.index(i)]], "impl_output": [a.get("ui"), r.get("ui")],
                                   "theorem_or_correspondence": "S: the form is a function of the document (C11 judged on the shared-context result)"})
                    continue
            impl[i] = r
            ctx.dist("translated-in-a-shared-context")
    # exactly ONE misplaced object per document, of every kind of misplacement at several depths: such a document is never accepted silently
    if not ctx.replay:
        ones = []
        for wrap in ("%s", "QGroupBox { %s }", "QTabWidget { QWidget { %s } }", "QVBoxLayout { QWidget { %s } }"):
            for bad in ("QVBoxLayout { QSpacerItem { QLabel { id: inner } } }", "QAction { QLabel { } }", "QVBoxLayout { QAction { id: act } QLabel { } }", "QSpacerItem { }",
                        "QVBoxLayout { QObject { } }", "QObject { }", "QAction { separator: true; QLabel { } }", "QGridLayout { QAction { separator: true } }",
                        "QVBoxLayout { QSpacerItem { QAction { id: act } } }", "QFormLayout { QLabel { } QAction { } }", "QHBoxLayout { QSpacerItem { QVBoxLayout { } } }"):
                ones.append("import qmluic.QtWidgets\nQWidget {\n  " + wrap % bad + "\n}\n")
        for d, r in zip(ones, qml.run_docs(vh, ones)):
            ctx.count(("single-misplacement", d), True)
            ctx.dist("single-misplacement")
            if not isinstance(r, dict) or "diags" not in r:
                ctx.violation("building the form panics/crashes on a misplaced object: %r" % (str(r)[:200],), {"qml": d, "impl_output": str(r)[:500]})
            elif not any(x["kind"] == "error" for x in r["diags"]):
                ctx.violation("a document whose only flaw is one misplaced object (an object of a kind its parent cannot hold, or children below a leaf kind) is accepted without diagnostic",
                              {"qml": d, "impl_output": r.get("ui"), "theorem_or_correspondence": "C11: element kind appropriate to the class, inside the parent's element / S"})
    terms, idx = [], []
    kinds_seen = {}
    for i, (t, r) in enumerate(zip(trees, impl)):
        flat = list(walk(t))
        for o in flat:
            kinds_seen[o["kind"]] = kinds_seen.get(o["kind"], 0) + 1
        ctx.count(docs[i], len(flat) >= 5 and any(o["kind"] == "layout" for o in flat))
        rep = {"case": t, "qml": docs[i]}
        if not isinstance(r, dict) or "panic" in r or "crash" in r or "hang" in r:
            ctx.violation("building the form panics/crashes: %r" % (str(r)[:300],), dict(rep, impl_output=r))
            continue
        if r.get("syntax_error") or r.get("ui") is None:
            ctx.violation("no form built for a generated document", dict(rep, impl_output=r))
            continue
        root_el = qml.parse_ui(r["ui"]).find("widget")
        by_ix = {o["ix"]: o for o in flat}
        seps = {o["ix"] for o in flat if o["kind"] == "separator"}
        place, other = [], []
        start_ix = {o["start"]: o for o in flat}
        first_child_parent = {o["children"][0]["start"]: o for o in flat if o["children"]}
        for d in r["diags"]:
            for rx, ctor in PLACE:
                if rx.search(d["msg"]):
                    o = (first_child_parent if ctor == "PEHasChildren" else start_ix).get(d["start"])
                    place.append("(%s %d)" % (ctor, o["ix"] if o else 9999))
                    break
            else:
                if d["kind"] == "error":
                    other.append(d["msg"])          # the document is not accepted: not judged
                else:
                    ctx.dist("doc-with-a-warning")    # a warning leaves the document accepted: the tree has to be there all the same
        wp = all(well_placed(c, False) for c in t["children"])
        ctx.dist("doc-well-placed" if wp else "doc-with-placement-errors")
        if other:
            ctx.dist("doc-with-other-diagnostics")       # not expected from this generator; such a document is not judged
            ctx.coverage.setdefault("other_diagnostics", []).append(other[0]) if len(ctx.coverage.get("other_diagnostics", [])) < 5 else None
            continue
        # ---- S: on the real output, without the model
        if wp:
            errs, seen = [], []
            parallel(t, root_el, False, errs, seen, by_ix, seps)
            expect_seen = [o["ix"] for o in flat if o["kind"] != "separator"]
            if not errs and seen != expect_seen:
                errs.append("objects met in the .ui in document order: %r, objects of the document: %r" % (seen, expect_seen))
            all_named = [e.get("name") for e in root_el.iter() if e.tag in ("widget", "layout", "spacer", "action")]
            if not errs and len(all_named) != len(expect_seen):
                errs.append("the .ui declares %d objects, the document %d" % (len(all_named), len(expect_seen)))
            if place:
                errs.append("placement diagnostics on a well-placed document: %r" % place)
            if errs:
                ctx.violation("object tree not preserved: " + "; ".join(errs[:3]), dict(rep, impl_output=r["ui"], theorem_or_correspondence="C11_every_object_once_in_order / S"))
                continue
        else:
            if not place:
                ctx.violation("a misplaced object is accepted without diagnostic", dict(rep, impl_output=r["diags"]))
                continue
        # ---- K: the model's form against the real one
        try:
            shape = real_shape(root_el, {o["name"]: o["ix"] for o in flat})
        except Shape as e:
            ctx.violation("unexpected element structure: %s" % e, dict(rep, impl_output=r["ui"]))
            continue
        if t.get("deep"):
            continue
        terms.append((coq_tree(t), "(%s, %s)" % (shape, C.coq_list(place))))
        idx.append(i)
    ctx.sample({"qml": docs[0], "ui": impl[0].get("ui") if isinstance(impl[0], dict) else None})
    ctx.coverage["object_kinds"] = kinds_seen
    ctx.coverage["compared_with_model"] = len(terms)
    ctx.coverage["rule"] = ("object trees of depth <= 4, fan-out <= 5 over widgets (incl. QTabWidget, QMenuBar, QToolBar), QMenu, the four layouts, QSpacerItem, QAction, "
                            "static separators and near-separators, objects of other classes; one third of the documents misplace kinds with probability 0.12 per object; "
                            "12% of widgets carry an explicit actions list; non-trivial = at least 5 objects and a layout; distinct by document text")
    if not ctx.model_ok:
        return
    bad = C.coq_eval_mismatches("c11", HEADER, terms, "case_eqb", "form_of", "onode * (uiel * list placement_error)", shard_size=60, scope="nat_scope")
    ctx.coverage["disagreements_model"] = len(bad)
    if bad and not ctx.violations:
        j = bad[0]
        mo = C.coq_eval_terms("c11_model", HEADER, ["form_of %s" % terms[j][0]], scope="nat_scope")
        ctx.broke("K", "uigen/object.rs, layout.rs vs model/ObjTree.v", "model and implementation differ on %d documents; first:\n%s\nmodel=%s\nimpl=%s"
                  % (len(bad), docs[idx[j]], mo[0][:1500], terms[j][1][:1500]))

"""G-prog: type-directed generator of binding / callback programs over E0, with a QML printer (for the real code)
and a Coq printer (for model/Lang.v) working from the same tree.

AST nodes are tuples: ("ident", x) ("this",) ("int", n[, spelling]) ("float", text) ("str", text) ("bool", b) ("null",)
("array", [e]) ("function",) ("member", o, p) ("sub", o, i) ("call", f, [args]) ("assign", l, r) ("unary", op, a)
("binary", op, l, r) ("as", v, [path]) ("ternary", c, a, b)
statements: ("expr", e) ("block", [s]) ("decl", kind, [(name, path|None, e|None)]) ("if", c, t, e|None)
("switch", v, [(e, [s])], (pos, [s])|None) ("break", labeled) ("return", e|None)
"""
import struct
from . import common as C

UOPS = {"!": "UNot", "~": "UBitNot", "-": "UMinus", "+": "UPlus", "typeof": "UTypeof", "void": "UVoid", "delete": "UDelete"}
BOPS = {"&&": "BLAnd", "||": "BLOr", ">>": "BShr", ">>>": "BUShr", "<<": "BShl", "&": "BAnd", "^": "BXor", "|": "BOr",
        "+": "BAdd", "-": "BSub", "*": "BMul", "/": "BDiv", "%": "BRem", "**": "BExp",
        "==": "BEq", "===": "BSEq", "!=": "BNe", "!==": "BSNe", "<": "BLt", "<=": "BLe", ">": "BGt", ">=": "BGe",
        "??": "BNullish", "instanceof": "BInstanceof", "in": "BIn"}


def float_bits(text):
    return struct.unpack("<Q", struct.pack("<d", float(text)))[0]


def qml_str(s):
    out = ['"']
    for ch in s:
        o = ord(ch)
        if ch == '"':
            out.append('\\"')
        elif ch == "\\":
            out.append("\\\\")
        elif ch == "\n":
            out.append("\\n")
        elif ch == "\t":
            out.append("\\t")
        elif o < 0x20 or o == 0x7f:
            out.append("\\x%02x" % o)
        elif o > 0xffff:
            out.append("\\u{%x}" % o)
        elif o in (0x2028, 0x2029):
            out.append("\\u%04x" % o)
        else:
            out.append(ch)
    out.append('"')
    return "".join(out)


def qml_expr(e):
    k = e[0]
    if k == "ident":
        return e[1]
    if k == "this":
        return "this"
    if k == "int":
        return e[2] if len(e) > 2 else str(e[1])
    if k == "float":
        return e[1]
    if k == "str":
        return qml_str(e[1])
    if k == "bool":
        return "true" if e[1] else "false"
    if k == "null":
        return "null"
    if k == "array":
        return "[" + ", ".join(qml_expr(x) for x in e[1]) + "]"
    if k == "function":
        return "(function() {})"
    if k == "member":
        return "%s.%s" % (qml_post(e[1]), e[2])
    if k == "sub":
        return "%s[%s]" % (qml_post(e[1]), qml_expr(e[2]))
    if k == "call":
        return "%s(%s)" % (qml_post(e[1]), ", ".join(qml_expr(x) for x in e[2]))
    if k == "assign":
        return "%s = %s" % (qml_post(e[1]), qml_par(e[2]))
    if k == "unary":
        sep = " " if e[1].isalpha() else ""
        return "%s%s%s" % (e[1], sep, qml_par(e[2]))
    if k == "binary":
        return "%s %s %s" % (qml_par(e[2]), e[1], qml_par(e[3]))
    if k == "as":
        return "%s as %s" % (qml_par(e[1]), ".".join(e[2]))
    if k == "ternary":
        return "%s ? %s : %s" % (qml_par(e[1]), qml_par(e[2]), qml_par(e[3]))
    raise ValueError(k)


ATOMS = ("ident", "this", "int", "float", "str", "bool", "null", "array", "member", "sub", "call", "function")


def qml_par(e):
    return qml_expr(e) if e[0] in ATOMS and not (e[0] == "int" and len(e) > 2 and e[2].startswith("-")) else "(" + qml_expr(e) + ")"


def qml_post(e):
    """operand of . [] (): literals other than identifiers get parentheses (1.x is a syntax problem)"""
    return qml_expr(e) if e[0] in ("ident", "this", "member", "sub", "call", "str", "array") else "(" + qml_expr(e) + ")"


def qml_stmt(s, ind="  "):
    k = s[0]
    if k == "expr":
        return ind + qml_expr(s[1]) + ";"
    if k == "block":
        return ind + "{\n" + "\n".join(qml_stmt(x, ind + "  ") for x in s[1]) + ("\n" if s[1] else "") + ind + "}"
    if k == "decl":
        parts = []
        for name, path, val in s[2]:
            t = name
            if path is not None:
                t += ": " + ".".join(path)
            if val is not None:
                t += " = " + qml_par(val)
            parts.append(t)
        return ind + s[1] + " " + ", ".join(parts) + ";"
    if k == "if":
        t = ind + "if (" + qml_expr(s[1]) + ")\n" + qml_stmt(wrap_block(s[2]), ind + "  ")
        if s[3] is not None:
            t += "\n" + ind + "else\n" + qml_stmt(wrap_block(s[3]), ind + "  ")
        return t
    if k == "switch":
        lines = [ind + "switch (" + qml_expr(s[1]) + ") {"]
        cases = [(c, body) for c, body in s[2]]
        seq = [("case", c, body) for c, body in cases]
        if s[3] is not None:
            seq.insert(s[3][0], ("default", None, s[3][1]))
        for kind, c, body in seq:
            lines.append(ind + ("case %s:" % qml_par(c) if kind == "case" else "default:"))
            lines += [qml_stmt(x, ind + "  ") for x in body]
        lines.append(ind + "}")
        return "\n".join(lines)
    if k == "break":
        return ind + ("break lbl;" if s[1] else "break;")
    if k == "return":
        return ind + ("return;" if s[1] is None else "return " + qml_par(s[1]) + ";")
    raise ValueError(k)


def wrap_block(s):
    # the printer always braces if/else arms; a ("block", ..) arm stays a block, any other statement is printed inside
    # braces and is therefore a Block([stmt]) in the AST: the generator only produces block arms, see gen.
    return s


def qml_program(p):
    """p = ("binding_expr", e) | ("binding_block", [s]) | ("callback_stmt", s) | ("callback_func", params, body, named, rettype)"""
    k = p[0]
    if k == "binding_expr":
        return qml_expr(p[1])
    if k == "binding_block":
        return "{\n" + "\n".join(qml_stmt(x) for x in p[1]) + "\n}"
    if k == "callback_func":
        params = ", ".join(n if t is None else "%s: %s" % (n, ".".join(t)) for n, t in p[1])
        head = "function%s(%s)%s " % (" foo" if p[3] else "", params, ": int" if p[4] else "")
        return head + "{\n" + "\n".join(qml_stmt(x) for x in p[2]) + "\n}"
    raise ValueError(k)


# ---------------------------------------------------------------- Coq printer
def cs(s):
    return C.coq_string(s)


def coq_text(s):
    return "(" + C.coq_list([str(ord(ch)) for ch in s]) + ")%N"


def coq_path(p):
    return C.coq_list([cs(x) for x in p])


def coq_expr(e):
    k = e[0]
    if k == "ident":
        return "(EIdent %s)" % cs(e[1])
    if k == "this":
        return "EThis"
    if k == "int":
        return "(EInt %d%%N)" % e[1]
    if k == "float":
        return "(EFloat %d%%N)" % float_bits(e[1])
    if k == "str":
        return "(EStr %s)" % coq_text(e[1])
    if k == "bool":
        return "(EBool %s)" % ("true" if e[1] else "false")
    if k == "null":
        return "ENull"
    if k == "array":
        return "(EArray %s)" % C.coq_list([coq_expr(x) for x in e[1]])
    if k == "function":
        return "EFunction"
    if k == "member":
        return "(EMember %s %s)" % (coq_expr(e[1]), cs(e[2]))
    if k == "sub":
        return "(ESubscript %s %s)" % (coq_expr(e[1]), coq_expr(e[2]))
    if k == "call":
        return "(ECall %s %s)" % (coq_expr(e[1]), C.coq_list([coq_expr(x) for x in e[2]]))
    if k == "assign":
        return "(EAssign %s %s)" % (coq_expr(e[1]), coq_expr(e[2]))
    if k == "unary":
        return "(EUnary %s %s)" % (UOPS[e[1]], coq_expr(e[2]))
    if k == "binary":
        return "(EBinary %s %s %s)" % (BOPS[e[1]], coq_expr(e[2]), coq_expr(e[3]))
    if k == "as":
        return "(EAs %s %s)" % (coq_expr(e[1]), coq_path(e[2]))
    if k == "ternary":
        return "(ETernary %s %s %s)" % (coq_expr(e[1]), coq_expr(e[2]), coq_expr(e[3]))
    raise ValueError(k)


def coq_opt(x, f):
    return "None" if x is None else "(Some %s)" % f(x)


def coq_stmt(s):
    k = s[0]
    if k == "expr":
        return "(SExpr %s)" % coq_expr(s[1])
    if k == "block":
        return "(SBlock %s)" % C.coq_list([coq_stmt(x) for x in s[1]])
    if k == "decl":
        return "(SDecl %s %s)" % ("DLet" if s[1] == "let" else "DConst",
                                  C.coq_list(["(%s, %s, %s)" % (cs(n), coq_opt(p, coq_path), coq_opt(v, coq_expr)) for n, p, v in s[2]]))
    if k == "if":
        return "(SIf %s %s %s)" % (coq_expr(s[1]), coq_stmt(s[2]), coq_opt(s[3], coq_stmt))
    if k == "switch":
        cases = C.coq_list(["(%s, %s)" % (coq_expr(c), C.coq_list([coq_stmt(x) for x in body])) for c, body in s[2]])
        d = "None" if s[3] is None else "(Some (%d%%nat, %s))" % (s[3][0], C.coq_list([coq_stmt(x) for x in s[3][1]]))
        return "(SSwitch %s %s %s)" % (coq_expr(s[1]), cases, d)
    if k == "break":
        return "(SBreak %s)" % ("true" if s[1] else "false")
    if k == "return":
        return "(SReturn %s)" % coq_opt(s[1], coq_expr)
    raise ValueError(k)


def coq_program(p):
    """-> Coq term of type callback (CStmt / CFunc) -- bindings are CStmt as well"""
    k = p[0]
    if k == "binding_expr":
        return "(CStmt (SExpr %s))" % coq_expr(p[1])
    if k == "binding_block":
        return "(CStmt (SBlock %s))" % C.coq_list([coq_stmt(x) for x in p[1]])
    if k == "callback_func":
        params = C.coq_list(["(%s, %s)" % (cs(n), coq_opt(t, coq_path)) for n, t in p[1]])
        return ("(CFunc {| f_named := %s; f_return_ty := %s; f_params := %s; f_body := FStmt (SBlock %s) |})"
                % ("true" if p[3] else "false", "true" if p[4] else "false", params, C.coq_list([coq_stmt(x) for x in p[2]])))
    raise ValueError(k)


# ---------------------------------------------------------------- generator
TYPES = ["bool", "int", "uint", "double", "string", "mode", "opts", "level", "vobj", "vsub", "strlist", "intlist", "variant", "gadget"]
ANNOT = {"bool": ["bool"], "int": ["int"], "uint": ["uint"], "double": ["double"], "string": ["QString"], "mode": ["VObj", "Mode"],
         "opts": ["VObj", "Opts"], "level": ["VObj", "Level"], "vobj": ["VObj"], "vsub": ["VSub"], "variant": ["QVariant"], "gadget": ["VGadget"]}
OBJS_VOBJ = ["a", "b"]
PROP_OF = {"bool": "b", "int": "i", "uint": "u", "double": "d", "string": "s", "mode": "e", "opts": "f", "level": "lv", "vobj": "next",
           "strlist": "names", "intlist": "nums", "variant": "data", "gadget": "g"}
STRINGS = ["", "a", "hello", "x y", "é", "あい", "a\"b", "back\\slash", "line\nbreak", "tab\t", "\U0001f600", "<&>", "%1 of %2", "\x7f", "z"]
INTS = [0, 1, 2, 3, 7, 10, 31, 32, 63, 64, 100, 255, 256, 1000, 65535, 2147483647, 2147483648, 4294967295, 4294967296,
        9007199254740993, 4611686018427387904, 9223372036854775807]
FLOATS = ["0.5", "1.5", "2.0", "0.25", "3.75", "1e3", "0.1", "1e-2", "100.0", "0.0", "1e308", "5e-324", "2.5e10"]


class Gen:
    def __init__(self, rng, mutate=0.0, max_depth=4):
        self.rng = rng
        self.mutate = mutate
        self.max_depth = max_depth
        self.scopes = [[]]      # visible locals: (name, type, kind)
        self.counter = 0
        self.in_switch = 0
        self.features = set()
        self.leaked = []        # declarations of blocks that have ended: a use of one of them must not resolve to it

    # -- helpers
    def pick(self, xs):
        return xs[self.rng.randrange(len(xs))]

    def chance(self, p):
        return self.rng.random() < p

    def visible(self):
        """name -> (type, kind); the innermost declaration wins"""
        out = {}
        for sc in self.scopes:
            for (n, t, k) in sc:
                out[n] = (t, k)
        return out

    def locals_of(self, ty):
        return [n for n, (t, k) in self.visible().items() if t == ty]

    def fresh(self):
        self.counter += 1
        return "v%d" % self.counter

    def decl_name(self):
        """a new name, or (one time in four) a name that is already visible: the declaration shadows it until its block ends"""
        vis = list(self.visible())
        if vis and self.chance(0.25):
            self.features.add("shadow")
            return self.pick(vis)
        return self.fresh()

    def obj(self):
        r = self.rng.random()
        if r < 0.45:
            return ("ident", self.pick(OBJS_VOBJ))
        if r < 0.55:
            return ("ident", "sub")
        if r < 0.65:
            return ("this",)
        if r < 0.8:
            return ("member", ("ident", self.pick(OBJS_VOBJ)), "next")
        if r < 0.9:
            return ("call", ("member", ("ident", "a"), "child"), [])
        ls = self.locals_of("vobj")
        return ("ident", self.pick(ls)) if ls else ("ident", "a")

    def int_lit(self):
        n = self.pick(INTS) if self.chance(0.25) else self.rng.randrange(0, 12)
        r = self.rng.random()
        if r < 0.08:
            return ("int", n, hex(n))
        if r < 0.12:
            return ("int", n, "0o%o" % n)
        if r < 0.16:
            return ("int", n, "0b%s" % bin(n)[2:])
        return ("int", n)

    # -- expressions of a given type
    def expr(self, ty, d=0):
        if self.mutate and self.chance(self.mutate):
            self.features.add("mutant")
            other = self.pick([t for t in TYPES if t != ty])
            return self.expr_ok(other, d)
        return self.expr_ok(ty, d)

    def leafy(self, d):
        return d >= self.max_depth or self.chance(0.25 + 0.15 * d)

    def expr_ok(self, ty, d):
        leaf = self.leafy(d)
        ls = self.locals_of(ty)
        if ls and self.chance(0.2):
            return ("ident", self.pick(ls))
        f = getattr(self, "g_" + ty)
        return f(d, leaf)

    def prop(self, ty, d):
        if self.chance(0.15) and ty in PROP_OF:
            return ("ident", PROP_OF[ty])          # implicit this.<prop>
        return ("member", self.obj(), PROP_OF[ty])

    def g_bool(self, d, leaf):
        if leaf:
            return self.pick([("bool", True), ("bool", False), self.prop("bool", d), ("call", ("member", self.obj(), "flag"), [])])
        r = self.rng.random()
        if r < 0.3:
            t = self.pick(["int", "int", "uint", "double", "string", "mode", "vobj", "bool", "opts"])
            op = self.pick(["==", "!=", "<", "<=", ">", ">=", "===", "!=="])
            if t in ("vobj",) and self.chance(0.4):
                return ("binary", self.pick(["==", "!="]), self.expr("vobj", d + 1), ("null",))
            return ("binary", op, self.expr(t, d + 1), self.expr(t, d + 1))
        if r < 0.5:
            return ("binary", self.pick(["&&", "||"]), self.expr("bool", d + 1), self.expr("bool", d + 1))
        if r < 0.6:
            return ("unary", "!", self.expr("bool", d + 1))
        if r < 0.7:
            return ("binary", self.pick(["&", "|", "^"]), self.expr("bool", d + 1), self.expr("bool", d + 1))
        if r < 0.8:
            return ("ternary", self.expr("bool", d + 1), self.expr("bool", d + 1), self.expr("bool", d + 1))
        if r < 0.9:
            return ("call", ("member", self.expr(self.pick(["string", "strlist"]), d + 1), "isEmpty"), [])
        return ("call", ("member", ("ident", "Math"), self.pick(["max", "min"])), [self.expr("bool", d + 1), self.expr("bool", d + 1)])

    def arith(self, ty, d, ops):
        op = self.pick(ops)
        l, r = self.expr(ty, d + 1), self.expr(ty, d + 1)
        if op in ("<<", ">>"):
            r = self.pick([self.int_lit(), self.expr("int", d + 1), self.expr("uint", d + 1)])
        return ("binary", op, l, r)

    def g_int(self, d, leaf):
        if leaf:
            return self.pick([self.int_lit(), self.int_lit(), self.prop("int", d), ("member", self.obj(), "ci"), ("member", self.obj(), "ro"),
                              ("member", ("ident", "sub"), "extra")])
        r = self.rng.random()
        if r < 0.4:
            return self.arith("int", d, ["+", "-", "*", "/", "%", "&", "|", "^", "<<", ">>"])
        if r < 0.5:
            return ("unary", self.pick(["-", "+", "~"]), self.expr("int", d + 1))
        if r < 0.6:
            return ("ternary", self.expr("bool", d + 1), self.expr("int", d + 1), self.expr("int", d + 1))
        if r < 0.7:
            src = self.pick(["uint", "double", "bool", "mode", "opts", "variant", "int"])
            return ("as", self.expr(src, d + 1), ["int"])
        if r < 0.8:
            return ("call", ("member", self.obj(), "compute"), [self.expr("int", d + 1)])
        if r < 0.9:
            return ("call", ("member", ("ident", "Math"), self.pick(["max", "min"])), [self.expr("int", d + 1), self.expr("int", d + 1)])
        return ("sub", self.expr("intlist", d + 1), self.pick([self.int_lit(), self.expr("int", d + 1)]))

    def g_uint(self, d, leaf):
        if leaf:
            return self.prop("uint", d)
        r = self.rng.random()
        if r < 0.4:
            op = self.pick(["+", "-", "*", "/", "%", "&", "|", "^", "<<", ">>"])
            rhs = self.pick([self.expr("uint", d + 1), self.int_lit()])
            return ("binary", op, self.expr("uint", d + 1), rhs)
        if r < 0.6:
            return ("as", self.expr(self.pick(["int", "double", "bool", "mode"]), d + 1), ["uint"])
        if r < 0.8:
            return ("ternary", self.expr("bool", d + 1), self.expr("uint", d + 1), self.expr("uint", d + 1))
        return ("unary", self.pick(["~", "+", "-"]), self.expr("uint", d + 1))

    def g_double(self, d, leaf):
        if leaf:
            return self.pick([("float", self.pick(FLOATS)), self.prop("double", d)])
        r = self.rng.random()
        if r < 0.45:
            return self.arith("double", d, ["+", "-", "*", "/"])
        if r < 0.55:
            return ("unary", self.pick(["-", "+"]), self.expr("double", d + 1))
        if r < 0.7:
            return ("as", self.expr(self.pick(["int", "uint"]), d + 1), [self.pick(["double", "qreal"])])
        if r < 0.8:
            return ("call", ("member", self.obj(), "ratio"), [self.expr("double", d + 1), self.expr("double", d + 1)])
        if r < 0.9:
            return ("ternary", self.expr("bool", d + 1), self.expr("double", d + 1), self.expr("double", d + 1))
        return ("call", ("member", ("ident", "Math"), self.pick(["max", "min"])), [self.expr("double", d + 1), self.expr("double", d + 1)])

    def g_string(self, d, leaf):
        if leaf:
            return self.pick([("str", self.pick(STRINGS)), ("str", self.pick(STRINGS)), self.prop("string", d),
                              ("call", ("member", self.obj(), "label"), [])])
        r = self.rng.random()
        if r < 0.4:
            return ("binary", "+", self.expr("string", d + 1), self.expr("string", d + 1))
        if r < 0.55:
            return ("call", ("ident", "qsTr"), [("str", self.pick(STRINGS))])
        if r < 0.7:
            return ("call", ("member", self.expr("string", d + 1), "arg"), [self.expr(self.pick(["int", "string", "double", "uint"]), d + 1)])
        if r < 0.85:
            return ("ternary", self.expr("bool", d + 1), self.expr("string", d + 1), self.expr("string", d + 1))
        if r < 0.93:
            return ("sub", self.expr("strlist", d + 1), self.int_lit())
        return ("call", ("member", ("ident", "Math"), self.pick(["max", "min"])), [self.expr("string", d + 1), self.expr("string", d + 1)])

    def g_mode(self, d, leaf):
        if leaf or self.chance(0.5):
            return self.pick([("member", ("ident", "VObj"), self.pick(["ModeA", "ModeB", "ModeC", "ModeD"])), self.prop("mode", d)])
        return ("ternary", self.expr("bool", d + 1), self.expr("mode", d + 1), self.expr("mode", d + 1))

    def g_opts(self, d, leaf):
        if leaf:
            return self.pick([("member", ("ident", "VObj"), self.pick(["OptA", "OptB", "OptC"])), self.prop("opts", d)])
        r = self.rng.random()
        if r < 0.6:
            return ("binary", self.pick(["|", "&", "^"]), self.expr("opts", d + 1), self.expr("opts", d + 1))
        if r < 0.75:
            return ("unary", "~", self.expr("opts", d + 1))
        return ("ternary", self.expr("bool", d + 1), self.expr("opts", d + 1), self.expr("opts", d + 1))

    def g_level(self, d, leaf):
        return self.pick([("member", ("member", ("ident", "VObj"), "Level"), self.pick(["Low", "High"])), self.prop("level", d)])

    def g_vobj(self, d, leaf):
        if leaf:
            return self.obj()
        r = self.rng.random()
        if r < 0.4:
            return ("ternary", self.expr("bool", d + 1), self.expr("vobj", d + 1), self.expr("vobj", d + 1))
        if r < 0.7:
            return ("as", self.expr("vsub", d + 1), ["VObj"])
        return self.obj()

    def g_vsub(self, d, leaf):
        return ("ident", "sub")

    def g_strlist(self, d, leaf):
        if leaf or self.chance(0.4):
            return self.prop("strlist", d)
        return ("array", [self.expr("string", d + 1) for _ in range(self.rng.randrange(1, 4))])

    def g_intlist(self, d, leaf):
        if leaf or self.chance(0.5):
            return self.prop("intlist", d)
        return ("array", [self.expr("int", d + 1) for _ in range(self.rng.randrange(1, 4))])

    def g_variant(self, d, leaf):
        return self.prop("variant", d)

    def g_gadget(self, d, leaf):
        return self.prop("gadget", d)

    # -- statements
    def effect(self, d):
        r = self.rng.random()
        if r < 0.3:
            return ("call", ("member", self.obj(), "act"), [self.expr("int", d + 1)])
        if r < 0.4:
            return ("call", ("member", self.obj(), "act2"), [self.expr("string", d + 1), self.expr("int", d + 1)])
        if r < 0.5:
            return ("call", ("member", self.obj(), "put"), [self.expr(self.pick(["int", "string"]), d + 1)])
        if r < 0.75:
            t = self.pick(["bool", "int", "uint", "double", "string", "mode", "opts", "vobj", "strlist"])
            return ("assign", ("member", self.obj(), PROP_OF[t]), self.expr(t, d + 1))
        if r < 0.85:
            return ("call", ("member", ("ident", "console"), self.pick(["log", "debug", "info", "warn", "error"])),
                    [self.expr(self.pick(["int", "string", "bool"]), d + 1) for _ in range(self.rng.randrange(0, 3))])
        if self.leaked and self.chance(0.5):
            n, t, k = self.pick(self.leaked)
            self.features.add("out-of-scope-use")
            return ("assign", ("member", self.obj(), PROP_OF[t]), ("ident", n))
        ls = [(n, t) for n, (t, k) in self.visible().items() if k == "let"]
        if ls:
            n, t = self.pick(ls)
            return ("assign", ("ident", n), self.expr(t, d + 1))
        return ("assign", ("member", ("member", self.obj(), "g"), "x"), self.expr("int", d + 1)) if self.chance(0.3) else \
            ("call", ("member", self.obj(), "setNext"), [self.expr("vobj", d + 1)])

    def decl(self, d):
        kind = self.pick(["let", "let", "const"])
        t = self.pick(["bool", "int", "uint", "double", "string", "mode", "vobj", "opts"])
        name = self.decl_name()
        annotated = self.chance(0.4)
        has_val = kind == "const" or self.chance(0.8) or not annotated
        if self.mutate and self.chance(self.mutate):
            has_val = self.chance(0.5)
            annotated = self.chance(0.5)
        val = self.expr(t, d + 1) if has_val else None
        st = ("decl", kind, [(name, ANNOT[t] if annotated else None, val)])
        self.scopes[-1].append((name, t if (annotated or t not in ("int",) or True) else t, kind))
        return st

    def block(self, d, ret_ty, n=None, need_value=False):
        self.scopes.append([])
        out = []
        n = self.rng.randrange(0, 4) if n is None else n
        for _ in range(n):
            out.append(self.stmt(d, ret_ty))
        if need_value:
            out.append(self.value_stmt(d, ret_ty))
        self.leaked.extend(self.scopes.pop())
        return out

    def value_stmt(self, d, ret_ty):
        if ret_ty is None:
            return ("expr", self.effect(d))
        if self.chance(0.5):
            return ("return", self.expr(ret_ty, d + 1))
        return ("expr", self.expr(ret_ty, d + 1))

    def stmt(self, d, ret_ty):
        r = self.rng.random()
        deep = d >= self.max_depth
        if r < 0.3 or deep:
            return ("expr", self.effect(d))
        if r < 0.5:
            return self.decl(d)
        if r < 0.7:
            self.features.add("if")
            then = ("block", self.block(d + 1, ret_ty, need_value=self.chance(0.3)))
            els = None
            if self.chance(0.5):
                els = ("block", self.block(d + 1, ret_ty, need_value=self.chance(0.3))) if self.chance(0.7) else \
                    ("if", self.expr("bool", d + 1), ("block", self.block(d + 1, ret_ty)), None)
            return ("if", self.expr("bool", d + 1), then, els)
        if r < 0.85:
            self.features.add("switch")
            t = self.pick(["int", "int", "string", "mode", "uint"])
            self.in_switch += 1
            cases = []
            for _ in range(self.rng.randrange(0, 4)):
                body = self.block(d + 1, ret_ty, n=self.rng.randrange(0, 3))
                if self.chance(0.6):
                    body.append(("break", False))
                cases.append((self.expr(t, d + 2), body))
            default = None
            if self.chance(0.6):
                body = self.block(d + 1, ret_ty, n=self.rng.randrange(0, 3))
                if self.chance(0.4):
                    body.append(("break", False))
                default = (self.rng.randrange(0, len(cases) + 1), body)
            self.in_switch -= 1
            return ("switch", self.expr(t, d + 1), cases, default)
        if r < 0.9:
            return ("block", self.block(d + 1, ret_ty))
        if r < 0.95:
            return ("return", self.expr(ret_ty, d + 1) if ret_ty else None)
        if self.in_switch or (self.mutate and self.chance(0.3)):
            return ("break", bool(self.mutate and self.chance(0.1)))
        return ("expr", self.effect(d))

    # -- programs
    def program(self):
        r = self.rng.random()
        if r < 0.35:
            t = self.pick(["bool", "int", "uint", "double", "string", "mode", "opts", "vobj", "strlist", "int", "string"])
            return ("binding_expr", self.expr(t, 0)), t
        if r < 0.6:
            t = self.pick(["bool", "int", "double", "string", "mode", "vobj"])
            body = self.block(0, t, need_value=True)
            return ("binding_block", body), t
        if r < 0.8:
            return ("binding_block", self.block(0, None, n=self.rng.randrange(1, 5))), None
        params = []
        self.scopes = [[]]
        for _ in range(self.rng.randrange(0, 3)):
            t = self.pick(["bool", "int", "double", "string", "vobj"])
            n = self.fresh()
            annotated = not (self.mutate and self.chance(self.mutate * 3))
            params.append((n, ANNOT[t] if annotated else None))
            self.scopes[0].append((n, t, "let"))
        if self.mutate and params and self.chance(self.mutate * 2):
            params.append(params[0])
        body = self.block(0, None, n=self.rng.randrange(1, 5))
        named = bool(self.mutate and self.chance(self.mutate))
        rett = bool(self.mutate and self.chance(self.mutate))
        return ("callback_func", params, body, named, rett), None

"""C18 -- QML components in directories resolve as custom widgets, in any order.

P: props/C18.v over model/Modules.v.  K: the set of directory modules the real populate_directories registers vs the model's
discover on the import graph of generated directory layouts (cycles included).  S (real pipeline through the harness `project`
command): termination on cyclic layouts; per source, identical .ui and diagnostics for every order of the source arguments;
<customwidgets> lists each instantiated component exactly once with class, extends = the class of the component's own root
object, header by the file-name rule; instances accept the properties of the base class.
"""
import itertools
import os
import shutil
from . import common as C
from . import qml

TARGETS = ["props/C18.vo"]
PINS = "pins/C18.v"
K_TARGETS = ["model/Modules.vo"]
HEADER = """From QV Require Import model.Base model.Modules.
Fixpoint insert_n (x : nat) (l : list nat) : list nat := match l with [] => [x] | y :: r => if Nat.leb x y then x :: l else y :: insert_n x r end.
Definition nsort (l : list nat) := fold_right insert_n [] l.
Definition nl_eqb (a b : list nat) : bool := (fix go (x y : list nat) := match x, y with [], [] => true | p :: r, q :: s => Nat.eqb p q && go r s | _, _ => false end) a b.
Definition disc_case (c : list (list nat) * list nat) : option (list nat) := option_map nsort (discover (fst c) (snd c)).
Definition disc_eqb (m e : option (list nat)) := match m, e with Some a, Some b => nl_eqb a b | None, None => true | _, _ => false end.
"""
TRUSTED = ["harness `vh project` (populate_directories + uigen::build per source on a real directory tree under .build)", "read_dir order and file systems with "
           "case-insensitive names are not explored; the generator keeps component names globally unique (no shadowing between directories)"]
BASES = [("QPushButton", "text"), ("QLabel", "text"), ("QGroupBox", "title"), ("QWidget", None), ("QFrame", None)]


class Layout:
    def __init__(self, rng, cyc=0.3, bad=0.0):
        self.rng = rng
        n = rng.choice([1, 2, 2, 3, 4, 5])
        self.dirs = []
        for i in range(n):
            self.dirs.append(rng.choice(["m%d" % i, "lib/m%d" % i, "m0/n%d" % i if i else "m0"]))
        self.dirs = list(dict.fromkeys(self.dirs))
        pimp = 0.35
        # Qt5-style imports with a version number (`import qmluic.QtWidgets 6.2`, `import "w" 1.0`) in COMPONENT files: the version is
        # ignored with a warning, the import itself counts exactly like an unversioned one
        self.versioned = rng.random() < 0.3
        if rng.random() < 0.35:
            # twin trees: the SAME relative import string ("w", "../w", ...) written in different directories names different directories
            self.dirs = rng.sample(["p", "q", "p/w", "q/w", "p/w/w", "q/w/w"], rng.choice([3, 4, 5, 6]))
            pimp = 0.6
        if rng.random() < 0.25:
            # two directories whose paths differ only in letter case are two directories (two modules)
            d0 = rng.choice(self.dirs)
            head, tail = os.path.split(d0)
            twin = os.path.join(head, tail.upper() if tail.upper() != tail else tail.lower())
            if twin not in self.dirs:
                self.dirs.append(twin)
                self.case_twins = True
                pimp = max(pimp, 0.5)
        self.empty_dir = None
        if rng.random() < 0.3 and "assets" not in self.dirs:
            # a directory that holds no QML file at all (images, scripts): importing it is importing a module with no types
            self.dirs.append("assets")
            self.empty_dir = len(self.dirs) - 1
        n = len(self.dirs)
        self.imports = {}          # file -> list of dir indices imported by string
        self.comps = {}            # component name -> (dir index, root type name)
        self.files = {}            # path -> text
        self.dir_files = {i: [] for i in range(n)}
        k = 0
        for i in range(n):
            for j in range(rng.choice([1, 1, 2, 3]) if i != self.empty_dir else 0):
                k += 1
                name = "Comp%d" % k
                imps = [x for x in range(n) if x != i and rng.random() < pimp]
                self.comps[name] = {"dir": i, "imports": imps, "root": None}
                self.dir_files[i].append(name)
        names = list(self.comps)
        for name in names:
            c = self.comps[name]
            visible = [x for x in names if self.comps[x]["dir"] in [c["dir"]] + c["imports"] and x != name]
            r = rng.random()
            if visible and r < cyc:
                c["root"] = rng.choice(visible)                 # may close a cycle of mutually inheriting components
            elif r < cyc + bad:
                others = [x for x in names if x not in visible and x != name]
                c["root"] = rng.choice(others) if others else "QWidget"     # super class not visible from the component's own file
            else:
                c["root"] = rng.choice(BASES)[0]
        self.mains = []
        for m in range(rng.choice([1, 2, 3])):
            d = rng.randrange(n)
            imps = [x for x in range(n) if x != d and rng.random() < max(0.4, pimp)]
            visible = [x for x in names if self.comps[x]["dir"] in [d] + imps]
            used = [rng.choice(visible) for _ in range(rng.choice([0, 1, 2, 3, 4]))] if visible else []
            self.mains.append({"name": "Main%d" % m, "dir": d, "imports": imps, "used": used})

    def rel(self, a, b):
        return os.path.relpath(self.dirs[b], self.dirs[a])

    def ultimate(self, name, seen=()):
        """(Qt base class, resolvable?) of a component, following roots through the component's own imports"""
        if name not in self.comps:
            return name, True
        if name in seen:
            return None, False
        c = self.comps[name]
        r = c["root"]
        if r in self.comps:
            if self.comps[r]["dir"] not in [c["dir"]] + c["imports"]:
                return None, False
            return self.ultimate(r, seen + (name,))
        return r, True

    def write(self, root):
        for name, c in self.comps.items():
            ver = lambda: (self.rng.choice([" 1.0", " 6.2", " 2.15"]) if self.versioned and self.rng.random() < 0.6 else "")
            lines = ["import qmluic.QtWidgets" + ver()] + ['import "%s"%s' % (self.rel(c["dir"], x), ver()) for x in c["imports"]] + ["%s {" % c["root"], "}"]
            self.files[os.path.join(self.dirs[c["dir"]], name + ".qml")] = "\n".join(lines) + "\n"
        self.redundant = 0
        for m in self.mains:
            imps = ['import "%s"' % self.rel(m["dir"], x) for x in m["imports"]]
            # imports that add nothing: the document's own directory (always visible), the same directory twice or in a second spelling, the Qt module twice --
            # every one of them names a module that exists
            if self.rng.random() < 0.35:
                extra = []
                for _ in range(self.rng.choice([1, 1, 2])):
                    c = self.rng.random()
                    if c < 0.35:
                        extra.append('import "."')
                    elif c < 0.5:
                        extra.append('import "../%s"' % os.path.basename(self.dirs[m["dir"]]) if "/" not in self.dirs[m["dir"]] or True else 'import "."')
                    elif c < 0.8 and imps:
                        one = self.rng.choice(imps)
                        extra.append(one if self.rng.random() < 0.5 else one[:-1] + '/"')
                    else:
                        extra.append("import qmluic.QtWidgets")
                pos = self.rng.randrange(len(imps) + 1)
                imps = imps[:pos] + extra + imps[pos:]
                self.redundant += len(extra)
            lines = ["import qmluic.QtWidgets"] + imps + ["QWidget {", "    QVBoxLayout {"]
            for u in m["used"]:
                base, ok = self.ultimate(u)
                prop = dict(BASES).get(base)
                lines.append("        %s {" % u)
                lines.append("            enabled: false")
                if ok and prop:
                    lines.append('            %s: "x"' % prop)
                lines.append("        }")
            lines += ["    }", "}"]
            self.files[os.path.join(self.dirs[m["dir"]], m["name"] + ".qml")] = "\n".join(lines) + "\n"
        # some component files are symbolic links to files kept elsewhere (a shared store, a build tree): X.qml is usable as type X all the same
        linked = self.rng.random() < 0.3
        self.links = []
        for p, t in self.files.items():
            os.makedirs(os.path.dirname(os.path.join(root, p)), exist_ok=True)
            if linked and os.path.basename(p).startswith("Comp") and self.rng.random() < 0.6:
                store = os.path.join(root, "_store")
                os.makedirs(store, exist_ok=True)
                target = os.path.join(store, "f%d.txt" % len(self.links))
                open(target, "w").write(t)
                os.symlink(os.path.relpath(target, os.path.dirname(os.path.join(root, p))) if self.rng.random() < 0.5 else target, os.path.join(root, p))
                self.links.append(p)
                continue
            open(os.path.join(root, p), "w").write(t)
        if self.empty_dir is not None:
            dd = os.path.join(root, self.dirs[self.empty_dir])
            os.makedirs(dd, exist_ok=True)
            open(os.path.join(dd, "icons.js"), "w").write("var x = 1\n")
        # what is NOT a QML component of a directory: files with another or no extension, and a DIRECTORY named like a component
        for i, d in enumerate(self.dirs):
            if self.rng.random() < 0.5:
                dd = os.path.join(root, d)
                os.makedirs(dd, exist_ok=True)
                for name, text in (("notes.txt", "this is { not qml\n"), ("Old.qml.bak", "QWidget {{{\n"), ("README", "import import\n"), ("Stale.qml~", "}\n")):
                    with open(os.path.join(dd, name), "w") as f:
                        f.write(text)
                os.makedirs(os.path.join(dd, "Folder%d.qml" % i), exist_ok=True)

    def graph(self):
        g = []
        for i in range(len(self.dirs)):
            s = []
            for name in self.dir_files[i]:
                s += [i] + self.comps[name]["imports"]
            for m in self.mains:
                if m["dir"] == i:
                    s += [i] + m["imports"]
            g.append(s)
        return g


def customwidgets(ui):
    out = []
    root = qml.parse_ui(ui)
    cw = root.find("customwidgets")
    if cw is not None:
        for w in cw.findall("customwidget"):
            out.append((w.findtext("class"), w.findtext("extends"), w.findtext("header")))
    return out


def run(ctx):
    ctx.proof_leg(TARGETS, PINS, k_targets=K_TARGETS)
    vh = ctx.need_harness()
    rng = ctx.rng
    work = os.path.join(C.BUILD, "c18")
    shutil.rmtree(work, ignore_errors=True)
    n = 1500 if ctx.tier == "thorough" else 90
    layouts, cases, index = [], [], []
    for i in range(n):
        style = ["acyclic", "cyclic", "cyclic", "bad"][i % 4]
        lay = Layout(rng, cyc={"acyclic": 0.0, "cyclic": 0.45, "bad": 0.2}[style], bad=0.25 if style == "bad" else 0.0)
        root = os.path.join(work, "p%d" % i)
        lay.write(root)
        layouts.append(lay)
        ctx.dist("layout-" + style)
        srcs = [os.path.join(lay.dirs[m["dir"]], m["name"] + ".qml") for m in lay.mains]
        perms = list(itertools.permutations(srcs))
        if len(perms) > 6:
            perms = perms[:6]
        for pi, perm in enumerate(perms):
            cases.append({"root": root, "sources": list(perm), "dirs": lay.dirs})
            index.append((i, pi, perm))
    out = C.harness_run(vh, "project", cases, timeout=300)
    terms = []
    by_layout = {}
    for (i, pi, perm), res in zip(index, out):
        by_layout.setdefault(i, []).append((perm, res))
    for i, runs in by_layout.items():
        lay = layouts[i]
        ctx.count(("layout", i, tuple(sorted(lay.files.items()))), len(lay.dirs) >= 2)
        rep = {"files": lay.files, "sources": [list(p) for p, _ in runs], "symbolic_links": getattr(lay, "links", [])}
        if getattr(lay, "links", None):
            ctx.dist("layout-with-symlinked-components")
        if getattr(lay, "redundant", 0):
            ctx.dist("layout-with-redundant-imports")
        if getattr(lay, "case_twins", False):
            ctx.dist("layout-with-case-twin-directories")
        if getattr(lay, "empty_dir", None) is not None:
            ctx.dist("layout-with-a-directory-without-components")
        bad = [r for _, r in runs if not isinstance(r, dict) or "visited" not in r]
        if bad:
            ctx.violation("discovery/translation does not terminate normally on this layout: %s" % str(bad[0])[:300], dict(rep, impl_output=str(bad[0])[:1000],
                          theorem_or_correspondence="C18_discovery_terminates / S"))
            continue
        # only the .qml files of the layout are components: nothing else in the directories may be read (and diagnosed) as one
        known = {os.path.normpath(os.path.join(work, "p%d" % i, f)) for f in lay.files}
        stray = sorted({pd["path"] for _, r in runs for pd in r.get("project_diags", []) if os.path.normpath(pd["path"]) not in known})
        if stray:
            ctx.violation("directory entries that are not QML files were read as components: %s" % [os.path.basename(x) for x in stray][:4],
                          dict(rep, impl_output=stray, theorem_or_correspondence="S: components of a directory = its *.qml files"))
            continue
        # no import of these layouts carries a version or an alias: a diagnostic about either is spurious
        spurious = sorted({m for _, r in runs for pd in r.get("project_diags", []) for m in pd["diags"] if ("import version" in m and not lay.versioned) or "aliased import" in m})
        if spurious:
            ctx.violation("a diagnostic about import versions / aliases on a layout that has none: %s" % spurious[:2], dict(rep, impl_output=spurious))
            continue
        # order independence, per source
        ref = {d["source"]: (d.get("ui"), tuple(sorted((x["msg"], x["start"], x["end"]) for x in d.get("diags", [])))) for d in runs[0][1]["docs"]}
        for perm, r in runs[1:]:
            for d in r["docs"]:
                got = (d.get("ui"), tuple(sorted((x["msg"], x["start"], x["end"]) for x in d.get("diags", []))))
                if got != ref[d["source"]]:
                    ctx.violation("the outputs for %s depend on the order of the source arguments (%r vs %r)" % (os.path.relpath(d["source"], os.path.join(work, "p%d" % i)), list(runs[0][0]), list(perm)),
                                  dict(rep, impl_output=[ref[d["source"]][0], got[0]], theorem_or_correspondence="C18_order_independent / S"))
                    break
            if r["visited"] != runs[0][1]["visited"]:
                ctx.violation("the set of discovered directories depends on the order of the source arguments", dict(rep, impl_output=[runs[0][1]["visited"], r["visited"]]))
        # custom widgets and base-class properties
        for m, d in zip(lay.mains, sorted(runs[0][1]["docs"], key=lambda d: [os.path.join(lay.dirs[x["dir"]], x["name"] + ".qml") for x in lay.mains].index(os.path.relpath(d["source"], os.path.join(work, "p%d" % i))))):
            all_ok = all(lay.ultimate(u)[1] for u in m["used"])
            errs = [x for x in d.get("diags", []) if x["kind"] == "error"]
            if all_ok and errs:
                ctx.violation("instances of resolvable components are rejected in %s: %s" % (m["name"], errs[0]["msg"]), dict(rep, impl_output=errs, theorem_or_correspondence="inherits properties / S"))
                continue
            if not all_ok and not errs:
                ctx.violation("a component with an unresolvable or cyclic super class is instantiated without diagnostic in %s" % m["name"], dict(rep, impl_output=d.get("ui")))
                continue
            if d.get("ui") and all_ok:
                got = customwidgets(d["ui"])
                exp = []
                for u in dict.fromkeys(m["used"]):
                    exp.append((u, lay.comps[u]["root"], u.lower() + ".h"))
                if sorted(got) != sorted(exp) or len(got) != len(set(got)):
                    ctx.violation("<customwidgets> of %s: %r, expected %r" % (m["name"], got, exp), dict(rep, impl_output=d["ui"], theorem_or_correspondence="C18_customwidgets_once / S"))
        g = lay.graph()
        srcs = [m["dir"] for m in lay.mains]
        vis = sorted(k for k, v in enumerate(runs[0][1]["visited"]) if v)
        terms.append(("(%s, %s)" % (C.coq_list([C.coq_list([str(x) for x in l]) for l in g]), C.coq_list([str(s) for s in srcs])), "(Some %s)" % C.coq_list([str(x) for x in vis])))
    same_name_chains(ctx, vh, work)
    non_widget_components(ctx, vh, work)
    shutil.rmtree(work, ignore_errors=True)
    ctx.sample({"files": layouts[0].files})
    ctx.coverage["compared_with_model"] = len(terms)
    ctx.coverage["rule"] = ("directory layouts with 1-5 directories (flat and nested), 1-3 components per directory whose root is a Qt widget or another visible component "
                            "(45% in the cyclic style, closing inheritance cycles), string imports forming arbitrary graphs incl. cycles, 1-3 main documents instantiating "
                            "visible components with base-class properties; every order of the source arguments (<= 6); a quarter with super classes not visible from the "
                            "component's own file; non-trivial = at least 2 directories")
    if not ctx.model_ok:
        return
    bad = C.coq_eval_mismatches("c18", HEADER, terms, "disc_eqb", "disc_case", "(list (list nat) * list nat) * option (list nat)", shard_size=30, scope="nat_scope")
    ctx.coverage["disagreements_model"] = len(bad)
    if bad and not ctx.violations:
        j = bad[0]
        mo = C.coq_eval_terms("c18_model", HEADER, ["disc_case %s" % terms[j][0]], scope="nat_scope")
        ctx.broke("K", "qmldir.rs populate_directories vs model/Modules.v", "model and implementation differ on %d layouts; first: graph/sources %s\nmodel=%s impl=%s"
                  % (len(bad), terms[j][0], mo[0], terms[j][1]))


def non_widget_components(ctx, vh, work):
    """components whose root object is not a widget (a layout, an action, a menu, a spacer): instantiated, they are custom classes of the form like any other --
    one <customwidget> entry each, extending the root class"""
    roots = [("QHBoxLayout", "spacing: 3", "layout"), ("QGridLayout", "spacing: 2", "layout"), ("QVBoxLayout", "spacing: 1", "layout"),
             ("QAction", 'text: "t"', "action"), ("QMenu", 'title: "m"', "menu"), ("QSpacerItem", "", "spacer"), ("QPushButton", 'text: "b"', "widget")]
    cases, meta = [], []
    for k, (root_cls, prop, kind) in enumerate(roots):
        root = os.path.join(work, "nw%d" % k)
        files = {"parts/Part.qml": "import qmluic.QtWidgets\n%s {\n}\n" % root_cls, "parts/Ok.qml": "import qmluic.QtWidgets\nQPushButton {\n}\n"}
        inst = "Part { id: part; %s }" % prop
        if kind in ("layout", "spacer", "widget"):
            body = "    QVBoxLayout {\n        %s\n        Ok { id: ok }\n    }\n" % inst
        else:
            body = "    %s\n    QVBoxLayout {\n        Ok { id: ok }\n    }\n" % inst
        files["Main.qml"] = 'import qmluic.QtWidgets\nimport "parts"\nQWidget {\n%s}\n' % body
        for f, t in files.items():
            os.makedirs(os.path.dirname(os.path.join(root, f)), exist_ok=True)
            open(os.path.join(root, f), "w").write(t)
        cases.append({"root": root, "sources": ["Main.qml"], "dirs": ["parts"]})
        meta.append((root_cls, kind, files))
        ctx.dist("non-widget-component-" + kind)
    out = C.harness_run(vh, "project", cases, timeout=300)
    for (root_cls, kind, files), res in zip(meta, out):
        ctx.count(("non-widget-component", root_cls), True)
        rep = {"files": files, "sources": ["Main.qml"]}
        if not isinstance(res, dict) or "docs" not in res:
            ctx.violation("translation does not terminate normally on a %s-rooted component: %s" % (root_cls, str(res)[:300]), dict(rep, impl_output=str(res)[:1000]))
            continue
        d = res["docs"][0]
        errs = [x for x in d.get("diags", []) if x["kind"] == "error"]
        if errs or not d.get("ui"):
            ctx.violation("an instance of a component whose root is %s is rejected: %s" % (root_cls, errs[0]["msg"] if errs else "no form"), dict(rep, impl_output=errs))
            continue
        got = customwidgets(d["ui"])
        exp = sorted([("Part", root_cls, "part.h"), ("Ok", "QPushButton", "ok.h")])
        if sorted(got) != exp:
            ctx.violation("<customwidgets> with a %s-rooted component: %r, expected %r" % (root_cls, got, exp), dict(rep, impl_output=d["ui"], theorem_or_correspondence="C18_customwidgets_once / S"))


def same_name_chains(ctx, vh, work):
    """components of the SAME name in different directories, each extending the one of the next directory (an explicit import wins over the own directory):
    app/Btn.qml : Btn (of ../themed) : Btn (of ../base) : QPushButton.  The instance in app/Main.qml is ONE custom widget `Btn` extending `Btn`, and has the
    properties of the Qt class at the end of the chain."""
    base_classes = [("QPushButton", "text"), ("QGroupBox", "title"), ("QLabel", "text")]
    cases, meta = [], []
    k = 0
    for depth in (2, 3, 4):
        for (qt, prop) in base_classes:
            for nested in (False, True):
                k += 1
                root = os.path.join(work, "sn%d" % k)
                dirs = ["app"] + (["app/lvl%d" % j for j in range(1, depth)] if nested else ["lvl%d" % j for j in range(1, depth)])
                files = {}
                for j, d in enumerate(dirs):
                    if j + 1 < len(dirs):
                        rel = os.path.relpath(dirs[j + 1], d)
                        files[os.path.join(d, "Btn.qml")] = 'import qmluic.QtWidgets\nimport "%s"\nBtn {\n}\n' % rel
                    else:
                        files[os.path.join(d, "Btn.qml")] = "import qmluic.QtWidgets\n%s {\n}\n" % qt
                files["app/Main.qml"] = 'import qmluic.QtWidgets\nQWidget {\n    QVBoxLayout {\n        Btn {\n            %s: "x"\n            enabled: false\n        }\n    }\n}\n' % prop
                for f, t in files.items():
                    os.makedirs(os.path.dirname(os.path.join(root, f)), exist_ok=True)
                    open(os.path.join(root, f), "w").write(t)
                cases.append({"root": root, "sources": ["app/Main.qml"], "dirs": dirs})
                meta.append((depth, qt, files))
                ctx.dist("same-name-chain-%d" % depth)
    out = C.harness_run(vh, "project", cases, timeout=300)
    for (depth, qt, files), res in zip(meta, out):
        ctx.count(("same-name", depth, qt, tuple(sorted(files))), True)
        rep = {"files": files, "sources": ["app/Main.qml"]}
        if not isinstance(res, dict) or "docs" not in res:
            ctx.violation("discovery/translation does not terminate normally on a chain of same-named components: %s" % str(res)[:300], dict(rep, impl_output=str(res)[:1000]))
            continue
        d = res["docs"][0]
        errs = [x for x in d.get("diags", []) if x["kind"] == "error"]
        if errs or not d.get("ui"):
            ctx.violation("a component extending a same-named component of an imported directory (chain of %d) is rejected: %s" % (depth, errs[0]["msg"] if errs else "no form"),
                          dict(rep, impl_output=errs, theorem_or_correspondence="inherits properties / S"))
            continue
        got = customwidgets(d["ui"])
        if got != [("Btn", "Btn", "btn.h")]:
            ctx.violation("<customwidgets> for a chain of same-named components: %r, expected one entry Btn extends Btn (btn.h)" % got, dict(rep, impl_output=d["ui"], theorem_or_correspondence="C18_customwidgets_once / S"))

"""C12 -- Layout items land in the documented cells; per-row/column settings follow.

P: props/C12.v.  K: real pipeline (QML document -> .ui) vs model/Layout.v on generated layouts (attributes of <layout>,
of every <item>, and the layout diagnostics in order).  S: implementation vs the specification spec/LayoutSpecCase.v;
a difference confined to rowminimumheight with an off-diagonal carrier is the listed finding F1.
"""
import itertools
import json
import re
from . import common as C
from . import qml

TARGETS = ["props/C12.vo"]
PINS = "pins/C12.v"
HEADER = "From QV Require Import model.Base model.Layout spec.LayoutSpec spec.LayoutSpecCase."
TRUSTED = ["harness/src/uigen.rs + xml.etree reading of the .ui", "the attached values are produced by the expression layer (C03's subject); here they are integer literals"]
KINDS = {"grid": ("QGridLayout", "LGrid"), "form": ("QFormLayout", "LForm"), "vbox": ("QVBoxLayout", "LVBox"), "hbox": ("QHBoxLayout", "LHBox")}
FIELDS = [("row", "row"), ("col", "column"), ("rowspan", "rowSpan"), ("colspan", "columnSpan"),
          ("cmw", "columnMinimumWidth"), ("cst", "columnStretch"), ("rmh", "rowMinimumHeight"), ("rst", "rowStretch")]


def gen_child(rng, style):
    a = {}
    pidx = 0.35 if style != "plain" else 0.0
    for key in ("row", "col"):
        if rng.random() < pidx:
            a[key] = rng.choice([0, 0, 1, 1, 2, 3, 4, 5, -1, 70000, 40, 65536, 2 ** 31 - 1, 2 ** 31, 2 ** 32, 2 ** 32 + 1, 2 ** 33 + 2, -2 ** 32, 2 ** 63 - 1] if style == "wild" else [0, 1, 2, 3])
    for key in ("rowspan", "colspan"):
        if rng.random() < 0.15:
            a[key] = rng.choice([1, 2, 3])
    for key in ("cmw", "cst", "rmh", "rst"):
        if rng.random() < (0.3 if style != "plain" else 0.15):
            a[key] = rng.choice([0, 1, 2, 20, 30] + ([2 ** 32 + 7, 2 ** 31] if style == "wild" else []))
    if rng.random() < 0.2:
        a["_align"] = rng.choice(["Qt.AlignRight", "Qt.AlignTop", "Qt.AlignHCenter", "Qt.AlignLeft | Qt.AlignBottom"])
    # the kind of the child does not matter to the flow rule: spacers and nested layouts occupy a cell / a position like widgets do
    r = rng.random()
    if r < 0.2:
        a["_cls"] = "QSpacerItem"
    elif r < 0.3:
        a["_cls"] = "QHBoxLayout"
    return a


def gen_layout(rng, ctx):
    kind = rng.choice(["grid", "grid", "grid", "form", "vbox", "hbox"])
    style = rng.choice(["plain", "explicit", "explicit", "wild"])
    lay = {"kind": kind, "ltr": True, "flow_given": False, "columns": None, "rows": None}
    if kind == "grid":
        r = rng.random()
        if r < 0.35:
            lay["ltr"] = False; lay["flow_given"] = True
        elif r < 0.6:
            lay["flow_given"] = True
        for key in ("columns", "rows"):
            if rng.random() < 0.55:
                lay[key] = rng.choice([1, 2, 2, 3, 3, 4] if style != "wild" else [1, 2, 3, 0, -2, 65536, 65537, 2 ** 32 + 2, 2 ** 32, 2 ** 31, 2 ** 33 + 3])
    lay["kids"] = [gen_child(rng, style) for _ in range(rng.choice([0, 1, 2, 3, 4, 5, 6, 8]))]
    ctx.dist("layout-%s-%s" % (kind, style))
    return lay


def enum_small(maxlen):
    """exhaustive: all child sequences up to maxlen over a small attachment alphabet, grid LTR columns=2 and TTB rows=2"""
    alpha = [{}, {"row": 1}, {"col": 1}, {"row": 0, "col": 1}, {"rmh": 20}, {"rmh": 30, "cst": 2}, {"rst": 2, "col": 0}, {"row": 2, "rmh": 20}]
    out = []
    for n in range(1, maxlen + 1):
        for seq in itertools.product(alpha, repeat=n):
            for ltr in (True, False):
                out.append({"kind": "grid", "ltr": ltr, "flow_given": not ltr, "columns": 2 if ltr else None, "rows": None if ltr else 2,
                            "kids": [dict(a) for a in seq]})
    return out


def to_qml(lay):
    cls = KINDS[lay["kind"]][0]
    lines = ["import qmluic.QtWidgets", "QWidget {", "  %s {" % cls]
    if lay["kind"] == "grid":
        if lay["flow_given"]:
            lines.append("    flow: QGridLayout.%s" % ("LeftToRight" if lay["ltr"] else "TopToBottom"))
        for key in ("columns", "rows"):
            if lay[key] is not None:
                lines.append("    %s: %d" % (key, lay[key]))
    for a in lay["kids"]:
        # "mixed": the attached settings of one child written through TWO spellings of the attaching type (the concrete layout class for the row-wise ones, QLayout for
        # the others) -- refused today; if ever accepted, both spellings mean the one attached object and every setting counts
        pre = lambda k: cls if (lay.get("mixed") and k in ("row", "rowspan", "rmh", "rst")) else "QLayout"
        body = "; ".join(["%s.%s: %d" % (pre(k), q, a[k]) for k, q in FIELDS if k in a] + (["QLayout.alignment: %s" % a["_align"]] if "_align" in a else []))
        lines.append("    %s { %s }" % (a.get("_cls", "QLabel"), body))
    lines += ["  }", "}"]
    return "\n".join(lines)


def opt(v):
    return "None" if v is None else "(Some (%d))" % v


I32_MAX, I32_MIN = 2 ** 31 - 1, -2 ** 31


def sat32(v):
    """uigen/property.rs get_i32: `d as i32` on the evaluated number (a saturating cast)"""
    return v if v is None else max(I32_MIN, min(I32_MAX, v))


def coq_input(lay, sat=False):
    """sat: the values as layout.rs receives them from get_i32 (the model's input); otherwise the values as written (the specification's input)"""
    f = sat32 if sat else (lambda v: v)
    kids = C.coq_list(["{| a_row := %s; a_col := %s; a_rowspan := %s; a_colspan := %s; a_cmw := %s; a_cst := %s; a_rmh := %s; a_rst := %s |}"
                       % tuple(opt(f(a.get(k))) for k, _ in FIELDS) for a in lay["kids"]])
    return "(%s, %s, %s, %s, %s)" % (KINDS[lay["kind"]][1], "true" if lay["ltr"] else "false", opt(f(lay["columns"])), opt(f(lay["rows"])), kids)


DIAG_PATTERNS = [
    (re.compile(r"^negative (row|column) is not allowed$"), lambda m: (0, 0 if m.group(1) == "row" else 1)),
    (re.compile(r"^(row|column) is too large$"), lambda m: (1, 0 if m.group(1) == "row" else 1)),
    (re.compile(r"^mismatched with the value previously set: (-?\d+)$"), lambda m: (2, int(m.group(1)))),
    (re.compile(r"^negative or zero (columns|rows) is not allowed$"), lambda m: (3, 0 if m.group(1) == "columns" else 1)),
    (re.compile(r"^(columns|rows) is too large$"), lambda m: (4, 0 if m.group(1) == "columns" else 1)),
]


def observe(res):
    """implementation result -> (arrays, items, diag codes) or None"""
    if not isinstance(res, dict) or res.get("ui") is None:
        return None
    root = qml.parse_ui(res["ui"])
    lay = root.find("widget").find("layout")

    def arr(name):
        v = lay.get(name)
        return [] if v is None else [int(x) for x in v.split(",")]
    arrays = [arr("columnminimumwidth"), arr("columnstretch"), arr("rowminimumheight"), arr("rowstretch"), arr("stretch")]

    def oi(e, n):
        return None if e.get(n) is None else int(e.get(n))
    items = [(oi(i, "row"), oi(i, "column"), oi(i, "rowspan"), oi(i, "colspan")) for i in lay.findall("item")]
    codes = []
    unused = 0
    for d in res["diags"]:
        if d["msg"] == "unused or unsupported dynamic binding to attached property":
            unused += 1   # pushed after the form is built, in hash-map order: counted, not ordered
            continue
        for pat, f in DIAG_PATTERNS:
            m = pat.match(d["msg"])
            if m:
                codes.append(f(m)); break
        else:
            codes.append((9, 0))
    if unused:
        codes.append((5, unused))
    return arrays, items, codes


def coq_expected(obs, with_diags=True):
    arrays, items, codes = obs
    a = C.coq_list([C.coq_list(["(%d)" % x for x in ar]) for ar in arrays])
    i = C.coq_list(["(%s, %s, %s, %s)" % tuple(opt(x) for x in it) for it in items])
    if not with_diags:
        return "(%s, %s)" % (a, i)
    return "(%s, %s, %s)" % (a, i, C.coq_list(["(%d, %d)" % c for c in codes]))


def run(ctx):
    ctx.proof_leg(TARGETS, PINS, k_targets=["spec/LayoutSpecCase.vo", "model/Layout.vo"])
    vh = ctx.need_harness()
    rng = ctx.rng
    corpus = [
        {"kind": "grid", "ltr": True, "flow_given": False, "columns": 2, "rows": None, "kids": [{"rmh": 20}, {}, {"rmh": 30}]},      # F1 witness
        {"kind": "grid", "ltr": True, "flow_given": False, "columns": 3, "rows": None,
         "kids": [{}, {}, {}, {}, {"row": 2}, {}, {"col": 2, "rst": 3}, {"row": 5, "col": 1, "cst": 4}]},
        {"kind": "grid", "ltr": False, "flow_given": True, "columns": None, "rows": 2, "kids": [{}, {}, {}, {"col": 3}, {"row": 1, "rmh": 5}]},
        {"kind": "grid", "ltr": True, "flow_given": False, "columns": None, "rows": None, "kids": [{"row": 65535, "col": 65535}, {}, {"col": 65536}, {"row": 65536}]},
        {"kind": "grid", "ltr": True, "flow_given": True, "columns": 65536, "rows": 65537, "kids": [{"col": 65535}, {}]},
        # values beyond 32 bits are values like any other (too large), not their remainder modulo 2^32
        {"kind": "grid", "ltr": True, "flow_given": False, "columns": 3, "rows": None, "kids": [{}, {}, {}, {}, {"row": 2 ** 32, "rst": 5}, {}]},
        {"kind": "grid", "ltr": True, "flow_given": False, "columns": 2 ** 32 + 2, "rows": None, "kids": [{}, {}, {}]},
        {"kind": "grid", "ltr": False, "flow_given": True, "columns": None, "rows": 2 ** 33 + 2, "kids": [{}, {}, {}]},
        {"kind": "form", "ltr": True, "flow_given": False, "columns": None, "rows": None, "kids": [{}, {"row": 2 ** 32 + 1}, {"col": 2 ** 32 + 1}]},
        {"kind": "vbox", "ltr": True, "flow_given": False, "columns": None, "rows": None, "kids": [{"rst": 2 ** 32 + 3}, {}]},
    ]
    if ctx.replay:
        lays = [ctx.replay["case"]]
    else:
        lays = corpus + enum_small(4 if ctx.tier == "thorough" else 3) + [gen_layout(rng, ctx) for _ in range(4000 if ctx.tier == "thorough" else 600)]
        for _ in range(300 if ctx.tier == "thorough" else 60):
            ml = gen_layout(rng, ctx)
            if any(any(k in a for k in ("row", "rowspan", "rmh", "rst")) and any(k in a for k in ("col", "colspan", "cmw", "cst")) for a in ml["kids"]):
                ml["mixed"] = True
                lays.append(ml)
                ctx.dist("layout-mixed-spelling")
    docs = [to_qml(l) for l in lays]
    impl = qml.run_docs(vh, docs)
    terms, sterms, idx = [], [], []
    for i, (l, r) in enumerate(zip(lays, impl)):
        nontrivial = len(l["kids"]) >= 2
        ctx.count(json.dumps(l, sort_keys=True), nontrivial)
        if isinstance(r, dict) and ("panic" in r or "crash" in r or "hang" in r):
            ctx.violation("layout document makes the pipeline panic/crash: %r" % (r,), {"case": l, "qml": docs[i], "impl_output": r,
                          "theorem_or_correspondence": "C12_grid (no panic)"})
            continue
        obs = observe(r)
        if l.get("mixed") and (obs is None or any(d["kind"] == "error" and "attached" in d["msg"] for d in r.get("diags", []))):
            ctx.dist("mixed-spelling-refused")
            continue
        if obs is None:
            ctx.violation("no .ui produced for a layout document", {"case": l, "qml": docs[i], "impl_output": r})
            continue
        # explicit alignment is copied to the item of the child that carries it (widget, spacer or nested layout alike) and to no other
        if not any(d["kind"] == "error" for d in r.get("diags", [])):
            its = qml.parse_ui(r["ui"]).find("widget").find("layout").findall("item")
            want = [a.get("_align") for a in l["kids"]]
            got = [it.get("alignment") for it in its]
            if len(its) == len(want) and [None if w is None else w.replace("Qt.", "Qt::").replace(" ", "") for w in want] != got:
                ctx.violation("the alignments of the items are %r; the children carry %r" % (got, want), {"case": l, "qml": docs[i], "impl_output": r["ui"],
                              "theorem_or_correspondence": "S: explicit alignment is copied to the item"})
                continue
        terms.append((coq_input(l, sat=True), coq_expected(obs)))
        sterms.append((coq_input(l), coq_expected(obs, with_diags=False)))
        idx.append(i)
    ctx.sample({"layout": lays[1], "qml": docs[1], "impl": observe(impl[1]) if len(lays) > 1 else None})
    ctx.coverage["rule"] = ("layouts: corpus + exhaustive child sequences (length <= %d over an 8-letter attachment alphabet, both flows) + random "
                            "(4 layout kinds, explicit/out-of-range indices, conflicting values); non-trivial = at least 2 children; distinct by layout"
                            % (4 if ctx.tier == "thorough" else 3))
    ctx.coverage["exhaustive_subspaces"] = ["grid child sequences up to length %d over the 8-letter alphabet x 2 flows" % (4 if ctx.tier == "thorough" else 3)]
    if not ctx.model_ok:
        return
    ty = "(lkind * bool * option Z * option Z * list attach) * (list (list Z) * list (option Z * option Z * option Z * option Z) * list (Z * Z))"
    zl = "(list_eqb Z.eqb)"
    oz = "(fun a b : option Z => match a, b with Some x, Some y => x =? y | None, None => true | _, _ => false end)"
    items_eq = "(list_eqb (fun (a b : option Z * option Z * option Z * option Z) => let '(a1,a2,a3,a4) := a in let '(b1,b2,b3,b4) := b in %s a1 b1 && %s a2 b2 && %s a3 b3 && %s a4 b4))" % (oz, oz, oz, oz)
    pre = ("Fixpoint list_eqb {A} (e : A -> A -> bool) (a b : list A) : bool := match a, b with [] , [] => true | x :: r, y :: s => e x y && list_eqb e r s | _, _ => false end.\n"
           "Open Scope Z_scope.\n")
    eqf = ("(fun (m : res (list (list Z) * list (option Z * option Z * option Z * option Z) * list (Z * Z))) e => match m with Ok (a, i, d) => "
           "let '(ea, ei, ed) := e in list_eqb %s a ea && %s i ei && list_eqb (fun p q : Z * Z => (fst p =? fst q) && (snd p =? snd q)) d ed | _ => false end)" % (zl, items_eq))
    bad = C.coq_eval_mismatches("c12", HEADER + "\n" + pre, terms, eqf,
                                "(fun c => let '(k, ltr, co, ro, kids) := c in layout_case k ltr co ro kids)", ty, shard_size=250, scope="Z_scope")
    ctx.coverage["disagreements_model"] = len(bad)
    # S: implementation vs the specification
    sty = "(lkind * bool * option Z * option Z * list attach) * (list (list Z) * list (option Z * option Z * option Z * option Z))"
    seqf = "(fun (m e : list (list Z) * list (option Z * option Z * option Z * option Z)) => list_eqb %s (fst m) (fst e) && %s (snd m) (snd e))" % (zl, items_eq)
    sbad = C.coq_eval_mismatches("c12s", HEADER + "\n" + pre, sterms, seqf,
                                 "(fun c => let '(k, ltr, co, ro, kids) := c in spec_layout_case k ltr co ro kids)", sty, shard_size=250, scope="Z_scope")
    ctx.coverage["disagreements_spec"] = len(sbad)
    # the same comparison with the rowminimumheight array masked out: what still differs is NOT the listed finding
    seqf2 = ("(fun (m e : list (list Z) * list (option Z * option Z * option Z * option Z)) => "
             "let mask := fun l : list (list Z) => match l with a :: b :: c :: r => a :: b :: r | _ => l end in "
             "list_eqb %s (mask (fst m)) (mask (fst e)) && %s (snd m) (snd e))" % (zl, items_eq))
    sbad2 = set(C.coq_eval_mismatches("c12t", HEADER + "\n" + pre, sterms, seqf2,
                                      "(fun c => let '(k, ltr, co, ro, kids) := c in spec_layout_case k ltr co ro kids)", sty, shard_size=250, scope="Z_scope")) if sbad else set()
    # ... and with the specification's arrays cut off at 2^31 - 1: what then agrees is the listed finding F26 (a setting above that is recorded saturated, undiagnosed)
    seqf3 = ("(fun (m e : list (list Z) * list (option Z * option Z * option Z * option Z)) => "
             "list_eqb %s (map (map (Z.min 2147483647)) (fst m)) (fst e) && %s (snd m) (snd e))" % (zl, items_eq))
    big = lambda l: any(a.get(k) is not None and a[k] > I32_MAX for a in l["kids"] for k in ("cmw", "cst", "rmh", "rst"))
    cand = [j for j in sbad if big(lays[idx[j]])]
    sbad3 = set(cand[k] for k in C.coq_eval_mismatches("c12u", HEADER + "\n" + pre, [sterms[j] for j in cand], seqf3,
                "(fun c => let '(k, ltr, co, ro, kids) := c in spec_layout_case k ltr co ro kids)", sty, shard_size=250, scope="Z_scope")) if cand else set()
    # both listed findings in one layout: cut off AND the rowminimumheight array masked
    seqf4 = ("(fun (m e : list (list Z) * list (option Z * option Z * option Z * option Z)) => "
             "let mask := fun l : list (list Z) => match l with a :: b :: c :: r => a :: b :: r | _ => l end in "
             "list_eqb %s (mask (map (map (Z.min 2147483647)) (fst m))) (mask (fst e)) && %s (snd m) (snd e))" % (zl, items_eq))
    cand4 = [j for j in cand if j in sbad3 and j in sbad2 and is_f1(lays[idx[j]], observe(impl[idx[j]]))]
    both = set(cand4) - set(cand4[k] for k in C.coq_eval_mismatches("c12v", HEADER + "\n" + pre, [sterms[j] for j in cand4], seqf4,
                "(fun c => let '(k, ltr, co, ro, kids) := c in spec_layout_case k ltr co ro kids)", sty, shard_size=250, scope="Z_scope")) if cand4 else set()
    known_n = 0
    sat_n = 0
    kc = ctx.known_classes()
    new = []
    for j in sbad:
        l = lays[idx[j]]
        if j in both and "stretch_or_minimum_above_i32_saturates" in kc and "row_min_height_indexed_by_column" in kc:
            sat_n += 1
            known_n += 1
        elif j in cand and j not in sbad3 and "stretch_or_minimum_above_i32_saturates" in kc:
            sat_n += 1
        elif j not in sbad2 and is_f1(l, observe(impl[idx[j]])):
            known_n += 1
        else:
            new.append(j)
    if sat_n:
        ctx.known_finding("stretch_or_minimum_above_i32_saturates", kc["stretch_or_minimum_above_i32_saturates"]["what_fails"] + " (%d layouts in this run)" % sat_n)
    if known_n:
        if "row_min_height_indexed_by_column" in kc:
            ctx.known_finding("row_min_height_indexed_by_column", kc["row_min_height_indexed_by_column"]["what_fails"] + " (%d layouts in this run)" % known_n)
        else:
            new = sbad
    if new:
        sub = new[:5]
        spec = C.coq_eval_terms("c12_spec", HEADER, ["let '(k, ltr, co, ro, kids) := %s in spec_layout_case k ltr co ro kids" % sterms[j][0] for j in sub], scope="Z_scope")
        for j, sp in zip(sub, spec):
            ctx.violation("layout output differs from the documented flow/array rule", {"case": lays[idx[j]], "qml": docs[idx[j]],
                          "impl_output": observe(impl[idx[j]]), "oracle_output": sp, "theorem_or_correspondence": "S: .ui layout vs spec/LayoutSpecCase.v"})
    if bad and not ctx.violations:
        j = bad[0]
        mo = C.coq_eval_terms("c12_model", HEADER, ["let '(k, ltr, co, ro, kids) := %s in layout_case k ltr co ro kids" % terms[j][0]], scope="Z_scope")
        ctx.broke("K", "uigen/layout.rs vs model/Layout.v", "model and implementation differ on %d layouts; first: %s model=%s impl=%s"
                  % (len(bad), json.dumps(lays[idx[j]]), mo[0][:1200], observe(impl[idx[j]])))


def is_f1(lay, obs):
    """the listed class: grid layout, a child carrying rowMinimumHeight whose row differs from its column, and the only
    difference from the specification is the rowminimumheight array"""
    if lay["kind"] != "grid" or obs is None:
        return False
    arrays, items, _ = obs
    off = any("rmh" in a and it[0] != it[1] for a, it in zip(lay["kids"], items))
    return off

"""Executing / compiling the emitted support header: the E0 classes as widgets (so that the real uigen accepts documents over them),
the document wrapper around a G-prog program, a C++ API model generated from the same class table (vlib/e0.py), and the g++ driver."""
import json
import os
import re
import subprocess
from . import common as C
from . import e0
from . import prog

E0W = os.path.join(C.VERIF, "data", "verif_e0w_metatypes.json")
OBJECT_DECLS = [("a", "VObj"), ("b", "VObj"), ("sub", "VSub"), ("oth", "VOther"), ("plain", "QWidget"), ("tgt", "VObj")]


def write_e0w():
    """E0 with QWidget as the root class (the real QObject/QWidget come from the Qt metatypes)"""
    mt = e0.metatypes()
    classes = []
    for c in mt[0]["classes"]:
        if c["className"] == "QObject":
            continue
        c = dict(c)
        c["superClasses"] = [{"name": "QWidget" if s["name"] == "QObject" else s["name"], "access": "public"} for s in c["superClasses"]]
        classes.append(c)
    text = json.dumps([{"classes": classes, "inputFile": "verif_e0w.h", "outputRevision": 68}], indent=1)
    if not os.path.exists(E0W) or open(E0W).read() != text:
        open(E0W, "w").write(text)
    return E0W


def document(bindings, handlers=(), extra_objects=()):
    """bindings: [(object id, property name, qml source of the value)]; handlers: [(object id, handler name, qml source)]"""
    lines = ["import qmluic.QtWidgets", "VObj {", "    id: root"]
    by = {}
    for (o, p, src) in bindings:
        by.setdefault(o, []).append("%s: %s" % (p, src))
    for (o, h, src) in handlers:
        by.setdefault(o, []).append("%s: %s" % (h, src))
    for l in by.get("root", []):
        lines.append("    " + l)
    for (name, cls) in list(OBJECT_DECLS) + list(extra_objects):
        lines.append("    %s {" % cls)
        lines.append("        id: %s" % name)
        for l in by.get(name, []):
            lines += ["        " + x for x in l.split("\n")]
        lines.append("    }")
    lines.append("}")
    return "\n".join(lines) + "\n"


# ---------------------------------------------------------------- the API model, generated from the class table
CONST_REF = ("QString", "QStringList", "QVariant", "QList<")


def cxx_type(t):
    return {"qreal": "double"}.get(t, t)


def arg_type(t):
    t = cxx_type(t)
    return "const %s &" % t if t.startswith(CONST_REF) or t == "VGadget" else t


def cap(s):
    return s[0].upper() + s[1:]


def default_value(t):
    if t in ("bool",):
        return "false"
    if t in ("int", "uint", "double"):
        return "0"
    if t.endswith("*"):
        return "nullptr"
    return t + "()"


METHOD_BODIES = {
    ("VObj", "compute"): "return (a0 & 1023) + 7;",
    ("VObj", "child"): "return next_;",
    ("VObj", "put"): "",
    ("VObj", "label"): "return s_;",
    ("VObj", "ratio"): "return a0 - a1;",
    ("VObj", "flag"): "return b_;",
    ("VObj", "act"): "",
    ("VObj", "act2"): "",
    ("VObj", "over"): "",
    ("VObj", "setNext"): None,      # the property setter
    ("VSub", "subOnly"): "return extra_ + 1;",
}


def api_header():
    out = ['#pragma once', '#include "qtmock.h"', "class VObj; class VSub; class VOther;",
           "struct VGadget { int x_ = 0; QString t_; int x() const { return x_; } void setX(int v) { x_ = v; } QString t() const { return t_; } void setT(const QString &v) { t_ = v; }",
           "  friend bool operator==(const VGadget &a, const VGadget &b) { return a.x_ == b.x_ && a.t_ == b.t_; } friend bool operator!=(const VGadget &a, const VGadget &b) { return !(a == b); } };",
           "std::string show(bool v); std::string show(int v); std::string show(uint v); std::string show(double v); std::string show(const QString &v); std::string show(const QObject *p);",
           "std::string show(const VGadget &g); std::string show(const QVariant &v);",
           "template <typename T, typename = std::enable_if_t<std::is_enum<T>::value>> std::string show(T e) { return \"e:\" + std::to_string((long long)e); }",
           "template <typename T> std::string show(const QFlags<T> &f) { return \"e:\" + std::to_string(f.i); }",
           "template <typename T> std::string show(const QList<T> &l) { std::string s = \"[\"; for (size_t i = 0; i < l.v.size(); ++i) { if (i) s += \",\"; s += show(l.v[i]); } return s + \"]\"; }",
           "inline std::string show(const QStringList &l) { return show(static_cast<const QList<QString> &>(l)); }",
           "inline std::string nameOf(const QObject *p) { return p ? p->objectName_ : std::string(\"null\"); }"]
    for c in e0.CLASSES:
        if c["name"] in ("QObject", "VGadget"):
            continue
        sup = "QWidget" if c["supers"] == ["QObject"] else c["supers"][0]
        out.append("class %s : public %s {" % (c["name"], sup))
        out.append("public:")
        for en in c["enums"]:
            if en["flag"]:
                out.append("    typedef QFlags<%s> %s;" % (en["alias"], en["name"]))
            elif en["scoped"]:
                out.append("    enum class %s { %s };" % (en["name"], ", ".join(en["values"])))
            else:
                # flag enums get power-of-two values so that | & ^ are meaningful
                isflagbase = any(e2["flag"] and e2["alias"] == en["name"] for e2 in c["enums"])
                vals = ["%s = %d" % (v, (1 << i) if isflagbase else i) for i, v in enumerate(en["values"])]
                out.append("    enum %s { %s };" % (en["name"], ", ".join(vals)))
        for p in c["props"]:
            t = cxx_type(p["type"])
            out.append("    %s %s_ = %s;" % (t, p["name"], default_value(t)))
            if p["read"]:
                out.append("    %s %s() const { return %s_; }" % (t, p["name"], p["name"]))
            if p["write"]:
                sig = None
                if p.get("notify"):
                    sig = [s for s in c["signals"] if s[0] == p["notify"]][0]
                emit = ""
                if sig:
                    emit = " %s(%s);" % (sig[0], "v" if sig[1] else "")
                out.append("    void set%s(%s v) { trace().add(\"set \" + objectName_ + \".%s \" + show(v)); if (%s_ == v) return; %s_ = v;%s }"
                           % (cap(p["name"]), arg_type(p["type"]), p["name"], p["name"], p["name"], emit))
        for (n, args, ret) in c["signals"]:
            decl = ", ".join("%s a%d" % (arg_type(a), i) for i, a in enumerate(args))
            ptr = "static_cast<void (%s::*)(%s)>(&%s::%s)" % (c["name"], ", ".join(arg_type(a) for a in args), c["name"], n)
            out.append("    void %s(%s) { activate(%s%s); }" % (n, decl, ptr, "".join(", a%d" % i for i in range(len(args)))))
        for kind in ("slots", "methods"):
            for (n, args, ret) in c[kind]:
                body = METHOD_BODIES.get((c["name"], n), "")
                if body is None:
                    continue
                decl = ", ".join("%s a%d" % (arg_type(a), i) for i, a in enumerate(args))
                shows = " + ".join(['" " + show(a%d)' % i for i in range(len(args))]) or '""'
                out.append("    %s %s(%s) { trace().add(\"call \" + objectName_ + \".%s\" + %s); %s }" % (cxx_type(ret), n, decl, n, shows, body))
        out.append("};")
    out += ["inline std::string show(bool v) { return v ? \"b:1\" : \"b:0\"; }", "inline std::string show(int v) { return \"i:\" + std::to_string(v); }",
            "inline std::string show(uint v) { return \"u:\" + std::to_string(v); }",
            "inline std::string show(double v) { uint64_t b; std::memcpy(&b, &v, 8); return \"d:\" + std::to_string(b); }",
            "inline std::string show(const QString &v) { return \"s:\" + v.hex(); }", "inline std::string show(const QObject *p) { return \"p:\" + nameOf(p); }",
            "inline std::string show(const VGadget &g) { return \"g:\" + std::to_string(g.x_) + \",\" + g.t_.hex(); }",
            "inline std::string show(const QVariant &v) { return \"v:\" + std::to_string(v.kind); }",
            "template <typename T> QDebug &QDebug::operator<<(T *p) { sep(); buf += \"p:\" + nameOf(p); return *this; }"]
    return "\n".join(out) + "\n"


def ui_header(objects):
    """ui_mytype.h: what uic would generate, reduced to the object pointers"""
    lines = ['#pragma once', '#include "e0api.h"', "namespace Ui { struct MyType {"]
    for n, c in objects:
        lines.append("    %s *%s = nullptr;" % (c, n))
    lines.append("}; }")
    return "\n".join(lines) + "\n"


def write_runtime(dirpath, objects):
    os.makedirs(dirpath, exist_ok=True)
    for name, text in (("qtmock.h", open(os.path.join(C.VERIF, "cxxrt", "qtmock.h")).read()), ("e0api.h", api_header()), ("ui_mytype.h", ui_header(objects)),
                       ("QtDebug", '#include "qtmock.h"\n')):
        p = os.path.join(dirpath, name)
        if not os.path.exists(p) or open(p).read() != text:
            open(p, "w").write(text)


def syntax_check(dirpath, header_text, name="uisupport_mytype.h", extra_flags=()):
    """g++ -std=c++17 -fsyntax-only on a translation unit that includes the API model and the emitted header"""
    hp = os.path.join(dirpath, name)
    open(hp, "w").write(header_text)
    tu = os.path.join(dirpath, name.replace(".h", "_tu.cpp"))
    open(tu, "w").write('#include "e0api.h"\n#include "%s"\nint main() { return 0; }\n' % name)
    pr = subprocess.run(["g++", "-std=c++17", "-fsyntax-only", "-Wall", "-Wno-unused", "-I", dirpath] + list(extra_flags) + [tu], capture_output=True, text=True, timeout=300)
    return pr.returncode, pr.stderr


def undeclared_temporaries(header):
    """[(function, temporary)] for every aN read or written in a member function body without a declaration in that body (the emitted functions declare all their
    locals at the top, one `T aN;` per local)"""
    out = []
    for m in re.finditer(r"\n    (?:[\w:<>\*&\s]+?)\b((?:eval|on)\w+)\(([^()]*)\)(?: const)?\n    \{\n(.*?)\n    \}\n", header, re.S):
        name, params, body = m.group(1), m.group(2), m.group(3)
        declared = set(re.findall(r"^\s+[\w:<>\*&\s,]+?\b(a\d+);$", body, re.M)) | set(re.findall(r"\b(a\d+)\b", params))
        used = set(re.findall(r"(?<![\w>.])\b(a\d+)\b", body))
        for t in sorted(used - declared):
            out.append((name, t))
    return out

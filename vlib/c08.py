"""C08 -- Determinism: identical inputs give byte-identical outputs.

P: props/C08.v (for EVERY order of the binding maps: equal form, header, callbacks; the diagnostics a permutation).
K: the model vs the real outputs on the wide documents (so that the theorem speaks about this code).
S: the implementation itself, the same document translated R times -- in one process (a fresh RandomState per map each time,
   other documents in between) and in fresh processes: .ui bytes, header bytes, and the multiset of diagnostics (message, kind,
   range) must be identical.  Documents: "wide" ones (every map as large as the catalogue allows: up to 9 properties, 5 font
   members, 3 handlers, attached bindings, both system includes), documents with many errors, the repository's example and
   test documents (palettes, string lists, ...), mutants.
"""
import hashlib
import re
from . import common as C
from . import docs as D
from . import qml
from . import uigenk as U

TARGETS = ["props/C08.vo"]
PINS = "pins/C08.v"
TRUSTED = ["the real hasher is sampled (R runs per document), the theorem covers all orders of the modelled maps; a forgotten sort in code outside the model "
           "(palette roles, gadget attributes, includes) is only caught by the repeated runs", "harness uigen; processes = harness shards"]


def digest(res):
    if not isinstance(res, dict) or "diags" not in res:
        return ("ERR", str(res)[:200])
    ds = tuple(sorted((d["msg"], d["kind"], d["start"], d["end"], tuple(map(tuple, d["labels"]))) for d in res["diags"]))
    return (res.get("ui"), res.get("header"), ds, tuple(sorted(map(str, res.get("syntax_errors", [])))))


ROLES = ["window", "windowText", "base", "alternateBase", "text", "button", "buttonText", "brightText", "highlight", "highlightedText", "toolTipBase", "toolTipText", "link", "mid", "dark"]
COLORS = ['"black"', '"white"', '"#112233"', '"red"', '"#80ff0000"', '"gray"', '"steelblue"']


def palette_documents(rng, n):
    """palettes mixing palette-level default roles with explicit colour groups (each a hash map; defaults are merged into the groups)"""
    docs = []
    for _ in range(n):
        lines = ["import qmluic.QtWidgets", "QWidget {"]
        for r in rng.sample(ROLES, rng.randrange(1, 7)):
            lines.append("    palette.%s: %s" % (r, rng.choice(COLORS)))
        for g in rng.sample(["active", "inactive", "disabled"], rng.randrange(1, 4)):
            for r in rng.sample(ROLES, rng.randrange(1, 6)):
                lines.append("    palette.%s.%s: %s" % (g, r, rng.choice(COLORS)))
        lines.append("    QLabel {")
        lines.append("        palette { window: %s; disabled { windowText: %s; base: %s } }" % (rng.choice(COLORS), rng.choice(COLORS), rng.choice(COLORS)))
        lines.append("    }")
        lines.append("}")
        docs.append("\n".join(lines) + "\n")
    return docs


def multi_dependency_documents(rng, n):
    """bindings that read several objects, some of them more than once (the order of the connections in setup<Binding>() must not depend on a hash seed)"""
    docs = []
    for _ in range(n):
        k = rng.randrange(3, 7)
        lines = ["import qmluic.QtWidgets", "QWidget {"]
        for i in range(k):
            lines.append("    QLineEdit { id: e%d }" % i)
            lines.append("    QCheckBox { id: c%d }" % i)
        reads = [rng.randrange(k) for _ in range(rng.randrange(4, 10))]
        lines.append("    QLabel { text: %s }" % " + \" \" + ".join("e%d.text" % i for i in reads))
        reads = [rng.randrange(k) for _ in range(rng.randrange(4, 9))]
        lines.append("    QPushButton { enabled: %s }" % " && ".join(("c%d.checked" if rng.random() < 0.7 else "!c%d.checked") % i for i in reads))
        lines.append("    windowTitle: %s" % " + ".join("e%d.text" % i for i in [rng.randrange(k) for _ in range(6)]))
        lines.append("}")
        docs.append("\n".join(lines) + "\n")
    return docs


KIND_ROOTS = ["QMenu", "QWidget", "QAction", "QPushButton", "QVBoxLayout", "QGroupBox", "QLabel"]


def homonym_components(ctx, vh, rng):
    """documents translated before in the same process: each directory has its OWN component `Tools` (a menu here, a widget, an action, a layout there)
    and a Main.qml using it.  Every Main.qml must come out the same translated alone, after the others and before them (one BuildContext per run)."""
    import os
    import shutil
    os.environ["VERIF_EXTRA_METATYPES"] = ""
    work = os.path.join(C.BUILD, "c08h")
    shutil.rmtree(work, ignore_errors=True)
    cases, meta = [], []
    for k in range(12 if ctx.tier == "thorough" else 4):
        root = os.path.join(work, "h%d" % k)
        kinds = rng.sample(KIND_ROOTS, rng.choice([2, 3]))
        if k == 0:
            kinds = ["QMenu", "QWidget"]
        if k == 1:
            kinds = ["QAction", "QPushButton"]
        files = {}
        for j, q in enumerate(kinds):
            d = "d%d" % j
            files[os.path.join(d, "Tools.qml")] = "import qmluic.QtWidgets\n%s {\n}\n" % q
            files[os.path.join(d, "Main.qml")] = ("import qmluic.QtWidgets\nQWidget {\n    QVBoxLayout {\n        Tools { id: tools }\n        QLabel { text: \"x\" }\n    }\n"
                                                  "    Tools { id: tools2 }\n}\n")
        for f, t in files.items():
            os.makedirs(os.path.dirname(os.path.join(root, f)), exist_ok=True)
            open(os.path.join(root, f), "w").write(t)
        mains = ["d%d/Main.qml" % j for j in range(len(kinds))]
        orders = [[m] for m in mains] + [mains, list(reversed(mains))]
        for o in orders:
            cases.append({"root": root, "sources": o, "dirs": []})
            meta.append((k, tuple(kinds), tuple(o), files))
        ctx.dist("homonym-components")
    out = C.harness_run(vh, "project", cases, timeout=300)
    alone = {}
    for (k, kinds, o, files), res in zip(meta, out):
        ctx.count(("homonym", k, kinds, o), len(o) > 1)
        if not isinstance(res, dict) or "docs" not in res:
            ctx.violation("translation does not terminate normally on directories with same-named components: %s" % str(res)[:300], {"files": files, "sources": list(o), "impl_output": str(res)[:1000]})
            continue
        for d in res["docs"]:
            rel = os.path.relpath(d["source"], os.path.join(work, "h%d" % k))
            got = (d.get("ui"), tuple(sorted((x["msg"], x["kind"], x["start"], x["end"]) for x in d.get("diags", []))))
            if len(o) == 1:
                alone[(k, rel)] = got
            elif (k, rel) in alone and got != alone[(k, rel)]:
                ctx.violation("the output for %s depends on the documents translated before it in the same run (%r): component Tools is a %s here and a different kind in the other directories"
                              % (rel, list(o), kinds[int(rel[1])]),
                              {"files": files, "sources": list(o), "impl_output": [alone[(k, rel)][0], got[0]], "oracle_output": alone[(k, rel)][0],
                               "theorem_or_correspondence": "S: a document's outputs are a function of the document and the types it names"})
    shutil.rmtree(work, ignore_errors=True)


def ambiguous_component_imports(ctx, vh, rng):
    """a component file whose own directory and the directories it imports ALL provide the type its root object names (Pane.qml here, there and there): which one
    is meant is decided by the order of the imports in that file -- the same in every run, in every process"""
    import os
    import shutil
    work = os.path.join(C.BUILD, "c08amb")
    shutil.rmtree(work, ignore_errors=True)
    cases = []
    roots = ["QWidget", "QMenu", "QPushButton", "QGroupBox", "QAction", "QVBoxLayout"]
    nlay = 6 if ctx.tier == "thorough" else 3
    reps = 16 if ctx.tier == "thorough" else 8
    for k in range(nlay):
        root = os.path.join(work, "a%d" % k)
        kinds = rng.sample(roots, 4)
        dirs = ["base", "other", "third"][:rng.choice([2, 3])]
        files = {"Pane.qml": "import qmluic.QtWidgets\n%s {\n}\n" % kinds[0]}
        for d, q in zip(dirs, kinds[1:]):
            files[os.path.join(d, "Pane.qml")] = "import qmluic.QtWidgets\n%s {\n}\n" % q
        files["Section.qml"] = "import qmluic.QtWidgets\n" + "".join('import "%s"\n' % d for d in dirs) + "Pane {\n}\n"
        files["Main.qml"] = "import qmluic.QtWidgets\nQWidget {\n    Section { id: first }\n    QVBoxLayout {\n        Section { id: second }\n        QLabel { text: \"x\" }\n    }\n}\n"
        for f, t in files.items():
            os.makedirs(os.path.dirname(os.path.join(root, f)) or root, exist_ok=True)
            open(os.path.join(root, f), "w").write(t)
        for _ in range(reps):
            cases.append(({"root": root, "sources": ["Main.qml"], "dirs": []}, k, files))
        ctx.dist("ambiguous-component-imports")
    # one case per process: fresh hash seeds
    import concurrent.futures
    with concurrent.futures.ThreadPoolExecutor(max_workers=C.NCPU) as ex:
        out = [r[0] if r else None for r in ex.map(lambda c: C.harness_run(vh, "project", [c[0]], timeout=300), cases)]
    seen = {}
    for (c, k, files), res in zip(cases, out):
        ctx.count(("ambiguous-imports", k, len(seen.get(k, []))), True)
        if not isinstance(res, dict) or "docs" not in res:
            ctx.violation("translation does not terminate normally on a component with several candidates for its root type: %s" % str(res)[:300], {"files": files, "impl_output": str(res)[:600]})
            continue
        d = res["docs"][0]
        got = (d.get("ui"), tuple(sorted((x["msg"], x["kind"], x["start"], x["end"]) for x in d.get("diags", []))))
        seen.setdefault(k, []).append((got, files))
    for k, lst in seen.items():
        distinct = {g for g, _ in lst}
        if len(distinct) > 1:
            a, b = list(distinct)[:2]
            ctx.violation("%d translations of the same sources give %d different results: which Pane.qml the component Section.qml means changes from run to run" % (len(lst), len(distinct)),
                          {"files": lst[0][1], "sources": ["Main.qml"], "impl_output": [a[0], b[0]], "theorem_or_correspondence": "C08 / repeated runs in fresh processes"})
    shutil.rmtree(work, ignore_errors=True)


def cli_repeated_runs(ctx):
    """the command itself, several sources in one invocation, one of them faulty: the same files are written, the same diagnostics printed and the same status returned
    in every run (the order in which the sources are translated is the order of the arguments); two sources whose outputs share a lower-cased name: the last one wins, always"""
    import os
    import shutil
    import subprocess
    from . import c07
    cli = c07.build_cli()
    work = os.path.join(C.BUILD, "c08cli")
    shutil.rmtree(work, ignore_errors=True)
    good = lambda t: "import qmluic.QtWidgets\nQWidget { QLabel { text: \"%s\" } }\n" % t
    bad = lambda p: "import qmluic.QtWidgets\nQWidget { QLabel { %s: 1 } }\n" % p
    layouts = [("one-faulty", {"Good.qml": good("g"), "BadA.qml": bad("unknownA"), "BadB.qml": bad("unknownB"), "Last.qml": good("l")}, ["Good.qml", "BadA.qml", "BadB.qml", "Last.qml"]),
               ("faulty-first", {"BadA.qml": bad("unknownA"), "Good.qml": good("g"), "Other.qml": good("o")}, ["BadA.qml", "Good.qml", "Other.qml"]),
               ("same-lowercase-name", {"Panel.qml": good("first"), "PANEL.qml": good("second"), "PaNeL.qml": good("third")}, ["Panel.qml", "PANEL.qml", "PaNeL.qml"]),
               ("many", dict(("S%d.qml" % i, good(str(i))) for i in range(9)), ["S%d.qml" % i for i in range(9)])]
    reps = 10 if ctx.tier == "thorough" else 6
    for name, files, args in layouts:
        seen = {}
        for k in range(reps):
            d = os.path.join(work, "%s_%d" % (name, k))
            os.makedirs(d)
            for f, t in files.items():
                open(os.path.join(d, f), "w").write(t)
            pr = subprocess.run([cli, "generate-ui", "--foreign-types", os.path.join(C.REPO, "contrib", "metatypes")] + args, cwd=d, capture_output=True, text=True, timeout=120,
                                env=dict(os.environ, NO_COLOR="1"))
            outs = tuple(sorted((f, open(os.path.join(d, f)).read()) for f in os.listdir(d) if not f.endswith(".qml")))
            order = tuple(l.strip() for l in pr.stderr.split("\n") if "processing" in l or "error" in l)
            seen.setdefault((pr.returncode, outs, order), []).append(k)
            ctx.count(("cli-repeat", name, k), True)
        ctx.dist("cli-repeated-runs")
        if len(seen) > 1:
            a, b = list(seen)[:2]
            ctx.violation("%d runs of `generate-ui %s` give %d different outcomes (exit status, files written, report): e.g. exit %d with %s vs exit %d with %s"
                          % (reps, " ".join(args), len(seen), a[0], [f for f, _ in a[1]], b[0], [f for f, _ in b[1]]),
                          {"cli_args": ["generate-ui"] + args, "files": files, "impl_output": [list(a[2]), list(b[2])], "theorem_or_correspondence": "C08 / repeated runs of the command"})
    shutil.rmtree(work, ignore_errors=True)


def shared_context_documents(ctx, vh, rng, wide, others):
    """documents translated before in the same process, through ONE BuildContext (as the command line does): the same document must give the same form and the
    same diagnostics first in the run, last in the run and alone.  The documents share ids and generated names (o1, srcS, action, label ...), so anything the
    context remembers by name is visible."""
    from . import c11
    from . import qml
    docs = list(wide[:6]) + [d for d in others if "\x00" not in d and "import \"" not in d][:60 if ctx.tier == "thorough" else 24]
    for _ in range(40 if ctx.tier == "thorough" else 12):
        t = c11.TreeGen(rng, misplace=0.0, max_depth=3).document()
        c11.assign_names(t)
        docs.append(c11.render(t))
    # pairs built to collide: the generated name `action` is a separator in one document and an ordinary action in the other, `label` a buddy target here and not there
    docs += ["import qmluic.QtWidgets\nQMenu {\n    QAction { id: cut; text: \"Cut\" }\n    QAction { separator: true }\n    QAction { text: \"Paste\" }\n}\n",
             "import qmluic.QtWidgets\nQMenu {\n    QAction { text: \"About\" }\n    QAction { separator: true }\n    QAction { id: cut; separator: true }\n}\n",
             "import qmluic.QtWidgets\nQWidget {\n    QLabel { text: \"a\" }\n    QLabel { id: cut; text: \"b\"; buddy: edit }\n    QLineEdit { id: edit }\n}\n",
             "import qmluic.QtWidgets\nQWidget {\n    QLineEdit { id: edit; text: cut.text }\n    QLabel { id: cut }\n    QLabel { text: edit.text }\n}\n"]
    rng.shuffle(docs)
    for _ in docs:
        ctx.dist("shared-context")
    res = qml.run_docs_shared(vh, docs, "c08", group=6, orders=("forward", "reverse"))
    alone = qml.run_docs_shared(vh, docs, "c08a", group=1)["forward"]

    def dg(r):
        if not isinstance(r, dict):
            return ("?", str(r)[:100])
        return (re.sub(r"<class>Doc\d+</class>", "<class>Doc</class>", r["ui"]) if r.get("ui") else r.get("ui"), tuple(sorted((x["msg"], x["kind"], x["start"], x["end"]) for x in r.get("diags", []))), r.get("syntax_error"), r.get("not_loaded"))
    for i, d in enumerate(docs):
        a, f, b = dg(alone[i]), dg(res["forward"][i]), dg(res["reverse"][i])
        ctx.count(("shared", d), True)
        if not (a == f == b):
            g0 = (i // 6) * 6
            ctx.violation("the output for a document depends on the documents translated before it through the same BuildContext (alone / forward / reverse agree: %s %s)" % (a == f, a == b),
                          {"qml": d, "same_run": docs[g0:g0 + 6], "position_in_run": i - g0, "impl_output": [a[0], f[0], b[0]], "oracle_output": a[0],
                           "theorem_or_correspondence": "S: a document's outputs are a function of the document and the types it names"})
    ctx.coverage["shared_context_documents"] = len(docs)


def run(ctx):
    ctx.proof_leg(TARGETS, PINS, k_targets=U.K_TARGETS)
    vh = ctx.need_harness()
    rng = ctx.rng
    reps = 30 if ctx.tier == "thorough" else 10
    nwide = 150 if ctx.tier == "thorough" else 16
    roots, wide = [], []
    for i in range(nwide):
        g = U.Gen(rng, wide=True, p_bad=0.15 if i % 2 else 0.0, p_dyn=0.4)
        r = g.document()
        roots.append(r)
        wide.append(U.render(r))
        ctx.dist("wide" + ("-with-errors" if i % 2 else ""))
    corpus = D.corpus()
    others = list(corpus) + palette_documents(rng, 12 if ctx.tier == "thorough" else 5) + multi_dependency_documents(rng, 12 if ctx.tier == "thorough" else 5)
    for src in corpus[: (len(corpus) if ctx.tier == "thorough" else 40)]:
        others.append(D.mutate(rng, src))
    # generated names: id-less objects of classes whose name prefixes collide (QLabel x n next to Label1, Page / Page1 / Page12): the counters of different
    # prefixes interact, so the ORDER in which objects are named is visible in the output
    from . import c10
    import os
    os.environ["VERIF_EXTRA_METATYPES"] = c10.EXTRA
    naming = [{"cls": "QWidget", "id": None, "kids": [{"cls": c, "id": None, "kids": []} for c in cs]} for cs in
              (["QLabel", "QLabel", "Label1"], ["Label1", "QLabel", "QLabel", "QLabel"], ["Page", "Page1", "Page", "Page12", "Page1", "Page"])]
    naming += [c10.gen_tree(rng, 3, [], False) for _ in range(20 if ctx.tier == "thorough" else 8)]
    for t in naming:
        c10.flat(t, [])
        others.append(c10.to_qml(t) + "\n")
        ctx.dist("naming")
    # attached properties written through the layout base class AND through the concrete layout class on one object (two spellings that may
    # name one attached type): whatever is done with them, it is done the same way every time
    for lay, a1, a2 in (("QGridLayout", "QLayout.row: 1", "QGridLayout.column: 2"), ("QGridLayout", "QGridLayout.row: 1", "QLayout.column: 2"),
                        ("QGridLayout", "QLayout.row: -1", "QGridLayout.column: 2"), ("QVBoxLayout", "QLayout.rowStretch: 2", "QVBoxLayout.alignment: Qt.AlignRight"),
                        ("QFormLayout", "QLayout.row: 1", "QFormLayout.column: 1"), ("QHBoxLayout", "QBoxLayout.columnStretch: 3", "QLayout.alignment: Qt.AlignTop")):
        others.append("import qmluic.QtWidgets\nQWidget {\n    %s {\n        QLabel { %s; %s }\n        QLabel { %s; %s; text: \"t\" }\n        QLabel { }\n    }\n}\n" % (lay, a1, a2, a2, a1))
        ctx.dist("attached-two-spellings")
    # enumerators whose enum has a flags twin of the same values (Orientation / Orientations, WindowType / WindowFlags, ToolBarArea(s), DockWidgetArea(s)): the type a
    # variant gets shows in the typed temporaries of the header and in diagnostics that quote it -- the same in every process
    for b in ("QSlider { orientation: chk.checked ? Qt.Vertical : Qt.Horizontal }", "QLabel { text: Qt.Horizontal }", "QToolBar { allowedAreas: chk.checked ? Qt.TopToolBarArea : Qt.BottomToolBarArea }",
              "QWidget { windowFlags: chk.checked ? Qt.Dialog : Qt.Window }", "QDockWidget { allowedAreas: chk.checked ? Qt.LeftDockWidgetArea : Qt.RightDockWidgetArea }",
              "QLabel { alignment: chk.checked ? Qt.AlignLeft : Qt.AlignRight }", "QLabel { text: Qt.AlignLeft }", "QSlider { orientation: { let o = Qt.Vertical; return chk.checked ? o : Qt.Horizontal } }",
              "QPushButton { onClicked: { let o = Qt.Horizontal; let f = Qt.Dialog | Qt.Window; console.log(o, f) } }", "QSplitter { orientation: chk.checked ? Qt.Vertical : Qt.Horizontal; opaqueResize: Qt.Vertical }"):
        others.append("import qmluic.QtWidgets\nQMainWindow {\n  QCheckBox { id: chk }\n  %s\n}\n" % b)
        ctx.dist("enumerators-with-a-flags-twin")
    for _ in others:
        ctx.dist("corpus/mutant")
    srcs = wide + others
    modes = ["generate"] * len(srcs) + ["reject"] * len(wide) + ["omit"] * len(wide)
    cases1 = [{"source": s, "mode": m} for s, m in zip(srcs + wide + wide, modes)]
    rounds = []
    for k in range(reps):
        order = list(range(len(cases1)))
        rng.shuffle(order)          # a different neighbourhood (documents translated before) every round
        rounds.append(order)
    flat = [cases1[i] for order in rounds for i in order]
    out = C.harness_run(vh, "uigen", flat, timeout=600)
    by_case = {}
    pos = 0
    for order in rounds:
        for i in order:
            by_case.setdefault(i, []).append(digest(out[pos]))
            pos += 1
    maxmap = 0
    for r in roots:
        for o in U.walk(r):
            maxmap = max(maxmap, len(o["props"]), max([len(b.get("members", [])) for b in o["props"]] + [0]))
    nondet = 0
    for i, ds in by_case.items():
        ctx.count((cases1[i]["source"], cases1[i]["mode"]), i < len(wide) or len(ds[0][2]) >= 2 if isinstance(ds[0], tuple) and len(ds[0]) == 4 else False)
        if len(set(ds)) != 1:
            nondet += 1
            what = []
            a = ds[0]
            b = next(x for x in ds if x != a)
            if len(a) == 4 and len(b) == 4:
                for name, x, y in (("the .ui", a[0], b[0]), ("the support header", a[1], b[1]), ("the diagnostics", a[2], b[2]), ("the syntax errors", a[3], b[3])):
                    if x != y:
                        what.append(name)
            ctx.violation("%s differ(s) between two translations of the same document (%s mode; %d distinct results in %d runs)" % (" and ".join(what) or "results", cases1[i]["mode"], len(set(ds)), len(ds)),
                          {"qml": cases1[i]["source"], "mode": cases1[i]["mode"], "impl_output": [a, b], "theorem_or_correspondence": "C08_order_irrelevant / repeated runs"})
    ctx.coverage["documents"] = len(cases1)
    ctx.coverage["runs_per_document"] = reps
    ctx.coverage["largest_map_in_wide_documents"] = maxmap
    ctx.coverage["nondeterministic_documents"] = nondet
    ctx.coverage["sha256_of_all_outputs"] = hashlib.sha256(repr(sorted((i, by_case[i][0]) for i in by_case)).encode()).hexdigest()
    ctx.sample({"qml": wide[0]})
    homonym_components(ctx, vh, rng)
    shared_context_documents(ctx, vh, rng, wide, others)
    ambiguous_component_imports(ctx, vh, rng)
    cli_repeated_runs(ctx)
    ctx.coverage["rule"] = ("wide generated documents (all catalogue properties per object, all font/geometry members, all handlers, attached bindings; half with 15%% ill-typed "
                            "bindings) in the three modes, the repository's example/test documents and mutants in generate mode; each translated %d times, every round in a "
                            "different order, spread over fresh processes; non-trivial = wide document or at least 2 diagnostics" % reps)
    # ---- K: the model on the wide documents
    terms = []
    first = {i: out_i for i, out_i in zip(rounds[0], out[:len(cases1)])}
    for i, r in enumerate(roots):
        res = first[i]
        if isinstance(res, dict) and res.get("ui"):
            obs, loose = U.observe(r, res)
            if not loose:
                terms.append((U.coq_case("generate", r), U.coq_expected(obs)))
    ctx.coverage["compared_with_model"] = len(terms)
    if not ctx.model_ok:
        return
    bad = C.coq_eval_mismatches("c08", U.HEADER, terms, "doc_eqb", "run_case", U.CASE_TYPE, shard_size=4, scope="string_scope")
    ctx.coverage["disagreements_model"] = len(bad)
    if bad and not ctx.violations:
        j = bad[0]
        mo = C.coq_eval_terms("c08_model", U.HEADER, ["run_case %s" % terms[j][0]], scope="string_scope")
        ctx.broke("K", "uigen vs model/Uigen.v on wide documents", "model and implementation differ on %d documents; first:\n%s\nmodel=%s\nimpl=%s" % (len(bad), wide[j], mo[0][:3000], terms[j][1][:3000]))

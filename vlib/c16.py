"""C16 -- The support header is self-consistent, valid C++ over the documented Qt API.

P: props/C16.v (binding index / guard words / observer slots / name distinctness / string literal spelling).
K: the literal speller of model/Header.v vs the QStringLiteral(...) text in real headers; indices and array sizes of real headers vs
   the model's layout.
S: every emitted header is compiled (g++ -std=c++17 -fsyntax-only -Wall) against declarations generated from the same class table
   (vlib/cxx.py api_header over vlib/e0.py); token-level scan: each member function defined exactly once and every call resolves,
   one BindingIndex entry per binding, guard words >= ceil(n/32) and never a zero-sized array, observer arrays large enough for every
   observed[k], <algorithm>/<QtDebug> included when std::max/min / qDebug are used; string literals decoded by a C++ lexer model
   equal the source strings.  Inputs: generated programs of every type and handlers over E0 packed into documents with many
   bindings per object, colliding name prefixes, arbitrary string literals, operators on every admitted operand type.
"""
import os
import re
import shutil
import concurrent.futures
from . import common as C
from . import cxx
from . import prog
from . import qml

TARGETS = ["props/C16.vo"]
PINS = "pins/C16.v"
K_TARGETS = ["model/Header.vo"]
TRUSTED = ["g++ 12 as the judge of 'valid C++17'; the API declarations are generated from vlib/e0.py (the same table the metatypes given to qmluic are generated from) over the "
           "hand-written runtime cxxrt/qtmock.h (QString, QList, QVariant, QFlags, QObject::connect, QOverload, qDebug, QCoreApplication::translate)",
           "the C++ string-literal decoder in vlib/c16.py (escape sequences of C++17 [lex.ccon])"]

HANDLER_FOR = {(): "onFired", ("bool",): "onToggled", ("int",): "onIChanged", ("double",): "onDChanged", ("QString",): "onSChanged", ("int", "QString"): "onFired2"}
EXTRA_STRINGS = ["Cr\u00e9er", "caf\u00e9e", "\u00e9a1", "R\u00e9f\u00e9rences", "\u0085d", "\x01", "\x00" + "1", "a\x00", "\x1f", "\x7f", "\u0080", " ", " ", "퟿", "", "\U0001f600x", "??=", "%d", "\\n", "'", "a\rb", "\x0b\x0c", "￿", "tr(\"x\")",
                 "/*", "*/", "//", "\"\"", "\\", "0\x00" + "7", "\x08\x07", "ÿ", "\x1b[0m"]


def decode_cxx_literal(text):
    """the char16_t string a C++17 compiler reads from the inside of "..." (None = ill-formed)"""
    out = []
    i = 0
    n = len(text)
    simple = {"n": 10, "t": 9, "r": 13, "0": None, "\\": 92, '"': 34, "'": 39, "a": 7, "b": 8, "f": 12, "v": 11, "?": 63}
    while i < n:
        ch = text[i]
        if ch == '"' or ch == "\n":
            return None
        if ch != "\\":
            cp = ord(ch)
            out.append(cp)
            i += 1
            continue
        i += 1
        if i >= n:
            return None
        e = text[i]
        if e in "01234567":
            j = i
            v = 0
            while j < n and j < i + 3 and text[j] in "01234567":
                v = v * 8 + int(text[j])
                j += 1
            out.append(v)
            i = j
        elif e == "x":
            j = i + 1
            if j >= n or text[j] not in "0123456789abcdefABCDEF":
                return None
            v = 0
            while j < n and text[j] in "0123456789abcdefABCDEF":
                v = v * 16 + int(text[j], 16)
                j += 1
            if v > 0xffff:
                return None
            out.append(v)
            i = j
        elif e in ("u", "U"):
            k = 4 if e == "u" else 8
            h = text[i + 1:i + 1 + k]
            if len(h) != k or any(c not in "0123456789abcdefABCDEF" for c in h):
                return None
            v = int(h, 16)
            if v < 0xa0 and v not in (0x24, 0x40, 0x60) or 0xd800 <= v <= 0xdfff or v > 0x10ffff:
                return None
            out.append(v)
            i += 1 + k
        elif e in simple and simple[e] is not None:
            out.append(simple[e])
            i += 1
        else:
            return None
    return "".join(chr(c) for c in out)


def narrow_literal_problem(header):
    """the narrow literals of the header (the source text handed to translate(), the bare strings sent to qDebug): each has to be a well-formed C++ literal whose
    bytes are valid UTF-8.  Returns (literal, what is wrong) for the first offender, or None"""
    lits = [m.group(1) for m in re.finditer(r'translate\("(?:[^"\\]|\\.)*", "((?:[^"\\]|\\.)*)"\)', header)]
    for line in header.split("\n"):
        if "qDebug()" in line or "qWarning()" in line or "qInfo()" in line or "qCritical()" in line:
            lits += [m.group(1) for m in re.finditer(r'<< "((?:[^"\\]|\\.)*)"', line)]
    for lit in lits:
        out = bytearray()
        i = 0
        while i < len(lit):
            ch = lit[i]
            if ch != "\\":
                out += ch.encode("utf-8")
                i += 1
                continue
            e = lit[i + 1]
            if e in "01234567":
                j = i + 1
                while j < len(lit) and j < i + 4 and lit[j] in "01234567":
                    j += 1
                v = int(lit[i + 1:j], 8)
                if v > 255:
                    return (lit, "octal escape out of range")
                out.append(v)
                i = j
            elif e == "x":
                j = i + 2
                while j < len(lit) and lit[j] in "0123456789abcdefABCDEF":       # a hex escape takes EVERY hex digit that follows
                    j += 1
                if j == i + 2:
                    return (lit, "\\x without digits")
                v = int(lit[i + 2:j], 16)
                if v > 255:
                    return (lit, "hex escape out of range (it swallows the hex digits that follow: \\x%s)" % lit[i + 2:j])
                out.append(v)
                i = j
            else:
                out += {"n": b"\n", "t": b"\t", "r": b"\r", "\\": b"\\", '"': b'"', "'": b"'", "a": b"\a", "b": b"\b", "f": b"\f", "v": b"\v", "?": b"?"}.get(e, b"?")
                i += 2
        try:
            bytes(out).decode("utf-8")
        except UnicodeDecodeError:
            return (lit, "its bytes %s are not UTF-8" % bytes(out).hex())
    return None


def literal_texts(header):
    """the raw insides of QStringLiteral("...") occurrences"""
    res = []
    for m in re.finditer(r'QStringLiteral\("', header):
        i = m.end()
        j = i
        while j < len(header):
            if header[j] == "\\":
                j += 2
                continue
            if header[j] == '"':
                break
            j += 1
        res.append(header[i:j])
    return res


def scan(header):
    """token-level self-consistency; returns a list of error strings"""
    errs = []
    defs = re.findall(r"^\s{4}[\w:<>\*& ]+?\b(\w+)\((?:[^;{}]*)\)\n\s{4}\{", header, re.M)
    names = [d for d in defs if d != "MyType"]
    dup = sorted({n for n in names if names.count(n) > 1})
    if dup:
        errs.append("member functions defined more than once: %s" % dup)
    for call in set(re.findall(r"this->(\w+)\(", header)):
        if call not in names:
            errs.append("this->%s() is called but not defined" % call)
    m = re.search(r"enum class BindingIndex : unsigned \{(.*?)\};", header, re.S)
    idx = [x.strip() for x in m.group(1).split(",") if x.strip()] if m else []
    if len(idx) != len(set(idx)):
        errs.append("BindingIndex entries are not distinct: %s" % idx)
    updates = [n for n in names if n.startswith("update")]
    if len(updates) != len(idx):
        errs.append("%d update functions but %d BindingIndex entries" % (len(updates), len(idx)))
    for u in updates:
        if u[len("update"):] not in idx:
            errs.append("%s has no BindingIndex entry" % u)
    g = re.search(r"quint32 bindingGuard_\[(\d+)\]", header)
    if idx:
        if not g:
            errs.append("bindings but no bindingGuard_ array")
        elif int(g.group(1)) * 32 < len(idx) or int(g.group(1)) == 0:
            errs.append("bindingGuard_[%s] is too small for %d bindings" % (g.group(1), len(idx)))
    elif g:
        if int(g.group(1)) == 0:
            errs.append("zero-sized bindingGuard_ array")
    for m in re.finditer(r"PropertyObserver (\w+)\[(\d+)\];", header):
        if int(m.group(2)) == 0:
            errs.append("zero-sized observer array %s" % m.group(1))
    # observed[k] inside evalX must be < the size of observedX_
    for fm in re.finditer(r"^\s{4}[\w:<>\*& ]+? (eval\w+)\(\)\n\s{4}\{(.*?)^\s{4}\}", header, re.M | re.S):
        body = fm.group(2)
        ks = [int(k) for k in re.findall(r"observed\[(\d+)\]", body)]
        if ks:
            decl = re.search(r"auto &observed = (\w+);", body)
            size = re.search(r"PropertyObserver %s\[(\d+)\];" % re.escape(decl.group(1)), header) if decl else None
            if not decl or not size:
                errs.append("%s uses observed[] without a declared observer array" % fm.group(1))
            elif max(ks) >= int(size.group(1)):
                errs.append("%s uses observed[%d] but the array has %s slots" % (fm.group(1), max(ks), size.group(1)))
    if re.search(r"std::(max|min)\(", header) and "#include <algorithm>" not in header:
        errs.append("std::max/min used without #include <algorithm>")
    if re.search(r"\bq(Debug|Info|Warning|Critical)\(\)", header) and "#include <QtDebug>" not in header:
        errs.append("qDebug()/qInfo()/... used without #include <QtDebug>")
    return errs


def observer_indices_out_of_bounds(header):
    """(array, index, declared size) of the first use of an observer array beyond its declaration, or None"""
    sizes = {m.group(1): int(m.group(2)) for m in re.finditer(r"PropertyObserver (observed\w+_)\[(\d+)\];", header)}
    for m in re.finditer(r"auto &observed = (observed\w+_);(.*?)\n    }\n", header, re.S):
        name, body = m.group(1), m.group(2)
        for ix in re.findall(r"\bobserved\[(\d+)\]", body):
            if name not in sizes or int(ix) >= sizes[name]:
                return (name, int(ix), sizes.get(name, 0))
    for m in re.finditer(r"\b(observed\w+_)\[(\d+)\]\.", header):
        if m.group(1) not in sizes or int(m.group(2)) >= sizes[m.group(1)]:
            return (m.group(1), int(m.group(2)), sizes.get(m.group(1), 0))
    return None


def run(ctx):
    ctx.proof_leg(TARGETS, PINS, k_targets=K_TARGETS)
    vh = ctx.need_harness()
    rng = ctx.rng
    os.environ["VERIF_EXTRA_METATYPES"] = cxx.write_e0w()
    n = 3000 if ctx.tier == "thorough" else 500
    # ---- 1. single programs: which ones are accepted, and with which source text
    items = []
    for i in range(n):
        g = prog.Gen(rng, mutate=0.0, max_depth=rng.choice([2, 3, 4]))
        p, t = g.program()
        src = prog.qml_program(p)
        if p[0] == "callback_func":
            key = tuple(".".join(ty) if ty else "?" for _, ty in p[1])
            h = HANDLER_FOR.get(key)
            if h is None:
                continue
            items.append(("handler", h, src, None))
        elif t is None:
            items.append(("handler", "onFired", src, None))
        else:
            items.append(("binding", prog.PROP_OF[t], src, t))
    for s in EXTRA_STRINGS + prog.STRINGS:
        items.append(("binding", "s", prog.qml_str(s), "string"))
        items.append(("binding", "s", "a.s + " + prog.qml_str(s), "string"))
        items.append(("binding", "names", "[a.s, %s]" % prog.qml_str(s), "strlist"))
        items.append(("handler", "onFired", "console.log(%s, a.s)" % prog.qml_str(s), None))
        if "\x00" not in s:
            items.append(("binding", "s", "a.b ? qsTr(%s) : a.s" % prog.qml_str(s), "string"))
    # operators on every operand type the checker may admit
    for op in ["+", "-", "*", "/", "%", "&", "|", "^", "<<", ">>", "<", "<=", "==", "!="]:
        for (ty, l, r) in [("int", "a.i", "b.i"), ("int", "a.i", "7"), ("uint", "a.u", "b.u"), ("uint", "a.u", "3"), ("double", "a.d", "b.d"), ("double", "a.d", "2.5"),
                           ("string", "a.s", "b.s"), ("bool", "a.b", "b.b"), ("mode", "a.e", "b.e"), ("opts", "a.f", "b.f")]:
            res_t = "bool" if op in ("<", "<=", "==", "!=") else ty
            items.append(("binding", prog.PROP_OF[res_t], "%s %s %s" % (l, op, r), res_t))
    # ... and every UNARY operator on every kind of operand, every binary operator on MIXED operand kinds, as a value that is only logged (no property type in the way):
    # whatever the checker admits, C++ has to take
    kinds = [("a.i", "int"), ("a.u", "uint"), ("a.d", "double"), ("a.b", "bool"), ("a.s", "string"), ("a.e", "mode"), ("a.f", "opts"), ("a.lv", "level"), ("a.next", "vobj"), ("a.names", "strlist")]
    for op in ("~", "-", "+", "!"):
        for (x, _) in kinds:
            items.append(("handler", "onFired", "console.log(%s%s)" % (op, x), None))
            items.append(("handler", "onFired", "{ let t = %s%s; console.log(t) }" % (op, x), None))
    mixed = [(l, op, r) for op in ["+", "-", "*", "/", "&", "|", "^", "<<", ">>", "<", "==", "&&", "||"] for (l, lk) in kinds[:8] for (r, rk) in kinds[:8] if lk != rk]
    rng.shuffle(mixed)
    for (l, op, r) in mixed[:(len(mixed) if ctx.tier == "thorough" else 120)]:
        items.append(("handler", "onFired", "console.log(%s %s %s)" % (l, op, r.replace("a.", "b.")), None))
    for f in ("Math.max", "Math.min"):
        for (ty, l, r) in [("int", "a.i", "b.i"), ("int", "a.i", "3"), ("int", "a.i", "3000000000"), ("int", "2", "a.i"), ("uint", "a.u", "3"), ("uint", "a.u", "4294967296"),
                           ("double", "a.d", "2.5"), ("double", "a.d", "b.d"), ("string", "a.s", "b.s")]:
            items.append(("binding", prog.PROP_OF[ty], "%s(%s, %s)" % (f, l, r), ty))
    # variants of a scoped enum (enum class) and of plain enums / flags in run-time code: each must be spelled so that C++ finds it
    for src, pn, t in [("a.b ? VObj.Level.High : VObj.Level.Low", "lv", "level"), ("a.lv == VObj.Level.High ? VObj.Level.Low : a.lv", "lv", "level"),
                       ("a.lv != VObj.Level.Low", "b", "bool"), ("a.b ? VObj.ModeB : VObj.ModeC", "e", "mode"), ("a.e == VObj.ModeD", "b", "bool"),
                       ("a.b ? VObj.OptA | VObj.OptC : a.f", "f", "opts")]:
        items.append(("binding", pn, src, t))
    items.append(("handler", "onFired", "{ a.lv = a.b ? VObj.Level.High : VObj.Level.Low; if (a.lv == VObj.Level.High) { a.e = VObj.ModeA; } }", None))
    # a gadget passed to a handler: read, written through (its setters are not const), re-assigned as a whole
    for body in ["{ g.x = a.i; g.t = a.s; a.g = g; }", "{ a.i = g.x; console.log(g.t); }", "{ g = a.g; a.i = g.x; }", "{ g.x = g.x + 1; a.i = g.x; }",
                 "{ if (a.b) { g.t = \"s\"; } a.s = g.t; }", "{ let h = g; h.x = 3; a.g = h; a.i = g.x; }"]:
        items.append(("handler", "onGPicked", "function(g: VGadget) %s" % body, None))
    # constants that fold to a non-finite double (F19, repaired: they must be spelled with something C++ knows)
    for c in ["(1e308 * 100.0)", "(0.5 / 0.0)", "(-0.5 / 0.0)", "(1e-2 / 5e-324)", "(0.0 / 0.0)", "-(1e308 * 100.0)", "(1e308 * 100.0 - 1e308 * 100.0)", "(1e308 + 1e308)"]:
        items.append(("binding", "d", "a.d + %s" % c, "double"))
        items.append(("binding", "b", "a.d < %s" % c, "bool"))
        items.append(("handler", "onFired", "{ a.d = %s; }" % c, None))
    # several returns unified through a wildcard (null, [], an integer literal): accepted only if ALL of them have one common type
    for (pn, t, r1, r2, r3) in [("next", "vobj", "oth", "null", "a"), ("next", "vobj", "a", "null", "oth"), ("next", "vobj", "sub", "null", "a"), ("next", "vobj", "a", "null", "b"),
                                ("names", "strlist", "a.nums", "[]", "a.names"), ("names", "strlist", "a.names", "[]", "b.names"), ("nums", "intlist", "a.names", "[]", "a.nums"),
                                ("u", "uint", "a.i", "1", "a.u"), ("s", "string", "a.i", "1", "a.s")]:
        items.append(("binding", pn, "{ if (a.b) { return %s } if (b.b) { return %s } return %s }" % (r1, r2, r3), t))
        items.append(("binding", pn, "{ switch (a.i) { case 0: return %s; case 1: return %s; } return %s }" % (r1, r2, r3), t))
    singles = []
    for kind, name, src, t in items:
        if kind == "binding":
            singles.append(cxx.document([("tgt", name, src)]))
        else:
            singles.append(cxx.document([], [("a", name, src)]))
    res1 = qml.run_docs(vh, singles)
    accepted = [it for it, r in zip(items, res1) if isinstance(r, dict) and r.get("header") and not r["has_error"]]
    ctx.coverage["programs_generated"] = len(items)
    ctx.coverage["programs_accepted"] = len(accepted)
    for it in accepted:
        ctx.dist("accepted-" + it[0] + ("-" + it[3] if it[3] else ""))
    # ---- 2. documents: the accepted programs packed with many bindings per object, colliding prefixes, > 32 and > 64 bindings
    docs = []
    # constructs of the listed findings go into documents of their own, so that the packed documents are judged as a whole
    suspect = re.compile(r"Math\.(max|min)\(|%|\.[ef]\b[^;\n]*[&|^]|[&|^][^;\n]*\.[ef]\b|~\s*\(?\s*\w+\.(e|f|lv)\b")
    pool = [it for it in accepted if not suspect.search(it[2])]
    alone = [it for it in accepted if suspect.search(it[2])]
    ctx.coverage["programs_compiled_alone"] = len(alone)
    for it in alone:
        kind, name, src, t = it
        docs.append((cxx.document([("tgt", name, src)]) if kind == "binding" else cxx.document([], [("a", name, src)]), [it], [("root", "VObj")] + cxx.OBJECT_DECLS))
    rng.shuffle(pool)
    sizes = [1, 2, 5, 12, 31, 32, 33, 40, 64, 65, 70]
    while pool:
        k = min(len(pool), rng.choice(sizes))
        chunk, pool = pool[:k], pool[k:]
        bindings, handlers, extra = [], [], []
        used = {}
        for j, (kind, name, src, t) in enumerate(chunk):
            # targets: one object per binding of the same property; ids chosen so that capitalised id + property collide as prefixes (t, tI, tIc ...)
            slot = used.get((kind, name), 0)
            used[(kind, name)] = slot + 1
            oid = ["t", "tI", "tS", "tB", "tN", "tE", "tU", "tD", "tF"][slot % 9] + ("" if slot < 9 else str(slot // 9))
            if (oid, "VObj") not in extra:
                extra.append((oid, "VObj"))
            if kind == "binding":
                bindings.append((oid, name, src))
            else:
                handlers.append((oid, name, src))
        docs.append((cxx.document(bindings, handlers, extra), chunk, [("root", "VObj")] + cxx.OBJECT_DECLS + extra))
    # grouped (gadget) sub-bindings: the same programs as members of the VGadget property g, alone in their document so that nothing else brings the includes in
    gad = [it for it in accepted if it[0] == "binding" and it[3] in ("int", "string")]
    rng.shuffle(gad)
    for it in gad[:(200 if ctx.tier == "thorough" else 40)]:
        member = "font.pointSize" if it[3] == "int" else "font.family"
        docs.append((cxx.document([("tgt", member, it[2])]), [("binding", member, it[2], it[3])], [("root", "VObj")] + cxx.OBJECT_DECLS))
        ctx.dist("gadget-member-binding")
    for member, src in (("font.pointSize", "Math.max(a.i, 1)"), ("font.pointSize", "Math.min(a.i, b.i)"), ("font.family", '{ console.log("x"); return a.s }'),
                        ("font.pointSize", "{ console.warn(a.i); return a.i }"),
                        # a path that falls off the end / breaks out without a value, a value of the wrong type: rejected -- if accepted, `return;` in a value function
                        ("font.bold", "{ if (a.b) return true; }"), ("font.pointSize", "{ switch (a.i) { case 0: break; default: return a.i; } }"),
                        ("font.family", "{ if (a.b) { return a.s } }"), ("font.bold", "a.s"), ("font.pointSize", "{ if (a.b) { return a.i } else { return a.s } }")):
        docs.append((cxx.document([("tgt", member, src)]), [("binding", member, src, None)], [("root", "VObj")] + cxx.OBJECT_DECLS))
    # names of the generated member functions: object id + signal (or property) names chosen so that DIFFERENT pairs concatenate to the same text
    # (t + dPicked = tD + picked, t + iChanged = tI + changed ...); every function of the class needs a name of its own
    for hs in ([("t", "onDPicked", "a.act(1)"), ("tD", "onPicked", "a.act(2)")], [("tD", "onPicked", "a.act(2)"), ("t", "onDPicked", "a.act(1)")],
               [("t", "onGPicked", "a.act(1)"), ("tG", "onPicked", "a.act(2)"), ("t", "onDPicked", "a.act(3)"), ("tD", "onPicked", "a.act(4)")],
               [("t", "onIChanged", "a.act(1)"), ("tI", "onToggled", "a.act(2)"), ("tIChanged", "onToggled", "a.act(3)")],
               [("t", "onFired2", "a.act(1)"), ("tFired", "onFired", "a.act(2)"), ("tFired2", "onFired", "a.act(2)")]):
        ex2 = []
        for o, _, _ in hs:
            if (o, "VObj") not in ex2:
                ex2.append((o, "VObj"))
        bs = [("t", "i", "a.i"), ("tI", "i", "a.i + 1")] if any(o == "tI" for o, _, _ in hs) else []
        docs.append((cxx.document(bs, hs, ex2), [("handler", h, src, None) for _, h, src in hs], [("root", "VObj")] + cxx.OBJECT_DECLS + ex2))
        ctx.dist("colliding-callback-names")
    # observer arrays: several properties read through run-time chosen objects in ONE block, some of them announced by the same signal (m1 / m2 by multiChanged), in every order
    sel = lambda c, x, y: "%s.b ? %s : %s" % (c, x, y)
    for k, reads in enumerate((["p.m1", "p.m2", "q.i"], ["q.i", "p.m1", "p.m2"], ["p.m1", "q.i", "p.m2"], ["p.m1", "p.m2", "p.m1", "q.m2", "q.i"], ["p.i", "p.i", "q.i"], ["p.m1", "p.m2", "q.m1", "q.m2", "p.i", "q.i"])):
        osrc = "{ let p = %s; let q = %s; return %s }" % (sel("a", "a", "b"), sel("b", "b", "a"), " + ".join(reads))
        docs.append((cxx.document([("tgt", "i", osrc)]), [("binding", "i", osrc, "int")], [("root", "VObj")] + cxx.OBJECT_DECLS))
        ctx.dist("observer-array-shapes")
    # element writes whose INDEX is computed at run time and read nowhere else; results that are discarded; locals used once
    for hsrc in ('{ let names = ["-", "-"]; names[a.i & 1] = a.s; b.s = names[0] + names[1] }', '{ let l = [1, 2]; l[a.b ? 1 : 0] = a.i; b.i = l[0] + l[1] }',
                 '{ let k = a.i & 1; let l = ["x", "y"]; l[k] = a.s; b.s = l[0] }', '{ let l = [1, 2, 3]; l[a.compute(1) & 1] = 5; l[0] = a.i; b.i = l[1] }',
                 '{ a.compute(1); a.label(); a.flag(); let unused = a.i + 1; b.i = 2 }', '{ let l = ["a"]; l[0] = a.s; }'):
        docs.append((cxx.document([], [("a", "onFired", hsrc)]), [("handler", "onFired", hsrc, None)], [("root", "VObj")] + cxx.OBJECT_DECLS))
        ctx.dist("element-writes-and-discarded-results")
    for bsrc, bt in (('{ let l = ["x", "y"]; l[a.b ? 1 : 0] = a.s; return l[0] }', "s"), ('{ let l = [1, 2]; l[a.i & 1] = a.i; return l[0] + l[1] }', "i")):
        docs.append((cxx.document([("tgt", bt, bsrc)]), [("binding", bt, bsrc, None)], [("root", "VObj")] + cxx.OBJECT_DECLS))
        ctx.dist("element-writes-and-discarded-results")
    # console.* takes operands of any type: whatever is accepted has to be something C++ can send to the stream (an empty list literal has no type: F27, repaired)
    for k, arg in enumerate(["[]", "null", "[], null", "[1, 2]", "a", "a.names", "VObj.ModeA", "\"s\"", "1.5", "a.next", "[a.s, \"x\"]", "a.nums", "true ? [] : []", "[[]]"]):
        hsrc = "console.%s(%s)" % (["log", "warn", "info", "debug", "error"][k % 5], arg)
        docs.append((cxx.document([], [("a", "onFired", hsrc)]), [("handler", "onFired", hsrc, None)], [("root", "VObj")] + cxx.OBJECT_DECLS))
        ctx.dist("console-operands")
    res2 = qml.run_docs(vh, [d for d, _, _ in docs])
    work = os.path.join(C.BUILD, "c16")
    shutil.rmtree(work, ignore_errors=True)
    jobs = []
    for k, ((doc, chunk, objects), r) in enumerate(zip(docs, res2)):
        ctx.count(doc, len(chunk) >= 5)
        if not isinstance(r, dict) or not r.get("header"):
            ctx.violation("no support header for a document of individually accepted bindings: %s" % str(r.get("diags") if isinstance(r, dict) else r)[:300], {"qml": doc, "impl_output": str(r)[:800]})
            continue
        if r["has_error"]:
            ctx.dist("packed-document-rejected")
            continue
        d = os.path.join(work, "d%d" % k)
        cxx.write_runtime(d, objects)
        jobs.append((k, d, doc, chunk, r["header"]))
    with concurrent.futures.ThreadPoolExecutor(max_workers=C.NCPU) as ex:
        results = list(ex.map(lambda j: cxx.syntax_check(j[1], j[4]), jobs))
    nbind = []
    lit_terms = []
    known = ctx.known_classes()
    seen_known = {}
    for (k, d, doc, chunk, header), (rc, err) in zip(jobs, results):
        rep = {"qml": doc, "impl_output": header}
        nl = narrow_literal_problem(header)
        if nl:
            ctx.violation("a narrow string literal of the support header is wrong: \"%s\" -- %s" % (nl[0][:80], nl[1]), dict(rep, theorem_or_correspondence="C16_literal_denotes_source / S (narrow literals)"))
            continue
        und = cxx.undeclared_temporaries(header)
        if und:
            ctx.violation("the support header uses the temporary %s in %s() without declaring it" % (und[0][1], und[0][0]), dict(rep, theorem_or_correspondence="every temporary is declared / header scan"))
            continue
        oob = observer_indices_out_of_bounds(header)
        if oob:
            ctx.violation("the support header uses %s[%d], the array is declared with %d elements" % oob, dict(rep, theorem_or_correspondence="observer arrays hold every index used / header scan"))
            continue
        nbind.append(len(re.findall(r"void update\w+\(\)", header)))
        if rc != 0:
            first = next((l for l in err.split("\n") if "error" in l), err[:300])
            # narrow down to the offending binding: recompile each one alone
            culprit = None
            ones = [cxx.document([("tgt", name, src)]) if kind == "binding" else cxx.document([], [("a", name, src)]) for (kind, name, src, t) in chunk]
            r1s = qml.run_docs(vh, ones)

            def one_job(a):
                idx, r1 = a
                d1 = os.path.join(work, "single%d_%d" % (k, idx))
                cxx.write_runtime(d1, [("root", "VObj")] + cxx.OBJECT_DECLS)
                return cxx.syntax_check(d1, r1["header"])
            with concurrent.futures.ThreadPoolExecutor(max_workers=C.NCPU) as ex2:
                outs1 = list(ex2.map(one_job, list(enumerate(r1s))))
            for (kind, name, src, t), one, r1, (rc1, err1) in zip(chunk, ones, r1s, outs1):
                if rc1 != 0:
                    culprit = (kind, name, src, next((l for l in err1.split("\n") if "error" in l), ""), one, r1["header"])
                    break
            if culprit:
                what = "the support header of an accepted binding is not valid C++: %s: %s  --  %s" % (culprit[1], culprit[2][:120], culprit[3][-200:])
                cls = classify_known(culprit[2], culprit[3])
                if cls and cls in known:
                    seen_known[cls] = seen_known.get(cls, 0) + 1
                    if seen_known[cls] == 1:
                        ctx.known_finding(cls, what.replace("\n", " "))
                    continue
                ctx.violation(what, {"qml": culprit[4], "impl_output": culprit[5], "compiler": culprit[3], "theorem_or_correspondence": "valid C++17 against the API declarations / g++"})
            else:
                ctx.violation("the support header does not compile although each binding alone does (name clash?): %s" % first[-300:], dict(rep, compiler=err[:2000]))
            continue
        errs = scan(header)
        if errs:
            ctx.violation("support header not self-consistent: " + "; ".join(errs[:3]), dict(rep, theorem_or_correspondence="C16_index / C16_names_distinct / scan"))
            continue
        # string literals: what the C++ lexer reads is a source string of the document
        want = set()
        for (kind, name, src, t) in chunk:
            for m in re.finditer(r'"((?:[^"\\]|\\.)*)"', src):
                want.add(m.group(0))
        for lit in literal_texts(header):
            dec = decode_cxx_literal(lit)
            if dec is None:
                ctx.violation("ill-formed string literal in the header: %r" % lit[:60], dict(rep, theorem_or_correspondence="C16_literal_denotes_source / S"))
                break
            lit_terms.append((C.coq_list([str(ord(ch)) for ch in dec]) if dec else "[]", C.coq_list([str(ord(ch)) for ch in lit]) if lit else "[]"))
    # ---- K: the speller of model/Header.v vs the literals of the real headers
    lit_terms = list(dict.fromkeys(lit_terms))
    ctx.coverage["literals_compared_with_model"] = len(lit_terms)
    if ctx.model_ok and lit_terms:
        hdr = "From QV Require Import model.Base model.Names model.Header.\nFixpoint nl_eqb (a b : list N) : bool := match a, b with [] , [] => true | x :: r, y :: s => N.eqb x y && nl_eqb r s | _, _ => false end."
        badk = C.coq_eval_mismatches("c16", hdr, lit_terms, "nl_eqb", "spell", "list N * list N", shard_size=100, scope="N_scope")
        ctx.coverage["disagreements_model"] = len(badk)
        if badk and not ctx.violations:
            j = badk[0]
            mo = C.coq_eval_terms("c16_model", hdr, ["spell %s" % lit_terms[j][0]], scope="N_scope")
            ctx.broke("K", "binding.rs format_cxx_utf16_string_literal vs model/Header.v spell", "model and implementation spell %d strings differently; first: string %s\nmodel=%s\nimpl=%s"
                      % (len(badk), lit_terms[j][0], mo[0][:500], lit_terms[j][1][:500]))
    ctx.coverage["known_finding_instances"] = seen_known
    ctx.coverage["documents_compiled"] = len(jobs)
    ctx.coverage["max_bindings_in_a_document"] = max(nbind) if nbind else 0
    ctx.coverage["documents_with_more_than_32_bindings"] = sum(1 for x in nbind if x > 32)
    ctx.sample({"qml": docs[0][0] if docs else None})
    shutil.rmtree(work, ignore_errors=True)
    ctx.coverage["rule"] = ("generated binding programs of every type and handlers (0-2 parameters) over E0, all string literals of a list of awkward strings (control characters, NUL + "
                            "digit, DEL, non-BMP, trigraph-like, comment-like), every binary operator x operand type the checker admits, Math.max/min with literals beyond the "
                            "operand type; accepted ones packed into documents of 1..70 bindings with colliding object-id prefixes; each header compiled with g++ -fsyntax-only "
                            "and scanned; non-trivial = at least 5 bindings")


def classify_known(src, err):
    """the listed findings, identified by the construct and the compiler's complaint"""
    if re.search(r"Math\.(max|min)\(", src) and re.search(r"no matching function for call to .(max|min)\(", err):
        return "minmax_operands_of_different_cxx_types"
    if "%" in src and re.search(r"invalid operands of types .*double.* to binary .operator%", err):
        return "modulo_on_double"
    if re.search(r"[&|^~]", src) and re.search(r"invalid conversion from .int. to .\w+::\w+", err):
        return "bitwise_operator_on_plain_enums"
    if "~" in src and re.search(r"no match for .operator~. \(operand type is .\w+::\w+.\)", err):
        return "bitwise_operator_on_plain_enums"
    if "[" in src and re.search(r"narrowing conversion of .-?\d+. from .(long int|int|long unsigned int). to .(int|unsigned int|uint).", err):
        return "integer_constant_outside_element_type_in_list"
    return None


def es_value(body):
    """the ECMAScript value of a string body made of plain characters and the escapes the generator prints"""
    out = []
    i = 0
    while i < len(body):
        ch = body[i]
        if ch != "\\":
            out.append(ch)
            i += 1
            continue
        e = body[i + 1]
        if e == "x":
            out.append(chr(int(body[i + 2:i + 4], 16)))
            i += 4
        elif e == "u" and body[i + 2] == "{":
            j = body.index("}", i)
            out.append(chr(int(body[i + 3:j], 16)))
            i = j + 1
        elif e == "u":
            out.append(chr(int(body[i + 2:i + 6], 16)))
            i += 6
        else:
            out.append({"n": "\n", "t": "\t", "r": "\r", "0": "\0", "b": "\b", "f": "\f", "v": "\v"}.get(e, e))
            i += 2
    return "".join(out)

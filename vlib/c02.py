"""C02 -- Dynamic bindings stay current when any property they read changes.

P: props/C02.v: over an abstract world, a binding that is connected to every key it reads (coverage) and whose evaluation depends
   only on the keys it reads (frame) equals its expression after setup() and after EVERY history of changes (C02_stays_current);
   without coverage it goes stale (refuted witness).  The two hypotheses are what the real generated code must satisfy; they are
   tested on the real output by S.
S = the property itself, per binding and history: the real support header is compiled against the API model (setters emit the notify
   signal on change, QObject::connect / disconnect really dispatch), setup() is run, then a random history of property changes --
   values, re-pointing and nulling of intermediate `next` pointers, no-op changes -- is applied through the setters; after setup and
   after every step each target is compared with model/Sem.v's value of the source expression in the current world.
   Bindings reading a non-constant property without notify signal must be rejected ('unobservable property').
"""
import os
import re
import shutil
import concurrent.futures
from . import common as C
from . import cxx, exe, prog, qml, sgen

TARGETS = ["props/C02.vo"]
PINS = "pins/C02.v"
TRUSTED = ["g++ 12 and the API model: setters trace, compare and emit the notify signal on change; connections are dispatched synchronously in connection order; object deletion "
           "and queued connections are outside", "model/Sem.v as the value of the expression; bindings are generated total (null-guarded pointer chains, no overflow), so every step is comparable",
           "the frame/coverage hypotheses of C02_stays_current are NOT proved for the generated code: they are what the histories test"]
HDR = "From Coq Require Import DecimalString.\n" + exe.HEADER


def apply_step(w, step):
    k, p, v = step
    w = [dict(x) for x in w]
    w[k][p] = v
    return w


def step_line(step):
    k, p, v = step
    if p == "b":
        sv = "1" if v else "0"
    elif p in ("i", "u", "m1", "m2"):
        sv = str(v)
    elif p == "s":
        sv = exe.hexs(v)
    elif p == "d":
        sv = str(v)
    else:
        sv = "null" if v is None else exe.NAMES[v]
    return "C %d %s %s" % (k, p, sv)


def history(rng, w, n, multi=False):
    out = []
    for _ in range(n):
        k = rng.choice([0, 1, 2, 0, 1])
        p = rng.choice(["b", "i", "u", "s", "next", "next", "i", "d"] + (["m2"] * 6 if multi else []))
        if rng.random() < 0.1:
            v = w[k][p]                 # setting the same value again: no signal
        elif p == "b":
            v = not w[k]["b"]
        elif p in ("i", "m2"):
            v = rng.choice(exe.INTS)
        elif p == "u":
            v = rng.choice(exe.UINTS)
        elif p == "s":
            v = rng.choice(exe.STRS)
        elif p == "d":
            # the setter compares with ==: a zero of the other sign is "the same value" and is not stored -- not generated
            v = rng.choice([x for x in exe.DOUBLES if x != exe.DBL(-0.0) or w[k]["d"] not in (0, exe.DBL(-0.0))])
            if v == 0 and w[k]["d"] == exe.DBL(-0.0):
                v = exe.DBL(1.5)
        else:
            v = rng.choice([None, 0, 1, 2])
        out.append((k, p, v))
        w = apply_step(w, (k, p, v))
    return out


def position_reads(rng, n):
    """int bindings whose control skeleton (switch with break / fall-through / return clauses and a default anywhere, if/else, both nested) has a
    read of a DIFFERENT property in every position -- discriminant, each clause, after the switch (reached only through the backward `break`
    edges), after an if whose arms both return: every one of them must be connected, wherever the builder lays its block out"""
    reads = [("member", ("ident", o), pn) for o in ("a", "b", "sub") for pn in ("i", "m1", "m2")]
    out = []
    for k in range(n):
        rs = list(reads)
        rng.shuffle(rs)
        nxt = iter(rs)
        ncl = rng.choice([1, 2, 2, 3])
        ends = [rng.choice(["break", "break", "fall", "return"]) for _ in range(ncl)] if k % 3 else ["break"] * ncl
        cases = []
        for j in range(ncl):
            body = [("expr", ("assign", ("ident", "r"), ("binary", "^", ("ident", "r"), next(nxt))))]      # ^: defined for all int values
            if ends[j] == "break":
                body.append(("break", False))
            elif ends[j] == "return":
                body.append(("return", ("ident", "r")))
            cases.append((("int", j + 1), body))
        default = None
        if rng.random() < 0.6:
            dbody = [("expr", ("assign", ("ident", "r"), next(nxt)))] + ([("break", False)] if (k % 3 == 0 or rng.random() < 0.6) else [])
            default = (rng.randrange(0, ncl + 1), dbody)
        sw = ("switch", next(nxt), cases, default)
        stmts = [("decl", "let", [("r", None, ("int", 0))])]
        if k % 4 == 3:
            stmts.append(("if", ("binary", ">", next(nxt), ("int", 0)), ("block", [sw]), ("block", [("expr", ("assign", ("ident", "r"), ("int", 5)))])))
        else:
            stmts.append(sw)
        stmts.append(("return", ("binary", "^", ("ident", "r"), next(nxt))))
        out.append(("binding_block", stmts))
    return out


def run(ctx):
    ctx.proof_leg(TARGETS, PINS, k_targets=exe.K_TARGETS + ["model/Signals.vo", "proofs/PropdepProofs.vo", "model/TirCase.vo", "gen/GenE0.vo"])
    vh = ctx.need_harness()
    rng = ctx.rng
    os.environ["VERIF_EXTRA_METATYPES"] = cxx.write_e0w()
    n = 1500 if ctx.tier == "thorough" else 240
    nsteps = 40 if ctx.tier == "thorough" else 12
    nhist = 4 if ctx.tier == "thorough" else 2
    progs = []
    for i in range(n):
        g = sgen.TotalGen(rng, max_depth=rng.choice([1, 2, 3]))
        p, t = g.binding()
        progs.append((p, t, prog.qml_program(p)))
        ctx.dist("binding-%s-%s" % (p[0].split("_")[1], t))
    for p in position_reads(rng, 60 if ctx.tier == "thorough" else 24):
        progs.append((p, "int", prog.qml_program(p)))
        ctx.dist("binding-position-reads")
    singles = exe.accepted_singles(vh, [("binding", sgen.PROP[t], src) for p, t, src in progs])
    acc = []
    static_ok = []
    for (p, t, src), r in zip(progs, singles):
        ok = isinstance(r, dict) and r.get("header") and not r["has_error"]
        dynamic = ok and re.search(r"\bevalTgt\w+\(\)", r["header"]) is not None
        ctx.count(src, bool(dynamic))
        if dynamic:
            acc.append((p, t, src))
        elif ok:
            static_ok.append((p, t, src, r))
        elif not ok and isinstance(r, dict) and r.get("diags"):
            ctx.coverage.setdefault("rejection_samples", [])
            if len(ctx.coverage["rejection_samples"]) < 5:
                ctx.coverage["rejection_samples"].append({"qml": src[:200], "diag": r["diags"][0]["msg"]})
    ctx.coverage["programs_generated"] = n
    ctx.coverage["dynamic_bindings_accepted"] = len(acc)
    # ---- a binding accepted WITHOUT an update function is a constant written into the .ui: the value of its source must then be the same in every state
    static_ok = static_ok[:200 if ctx.tier == "thorough" else 60]
    if static_ok and ctx.model_ok:
        ws = [exe.world(rng) for _ in range(6)]
        sterms = ["bind_all \"%s\" %s %s" % (sgen.PROP[t], prog.coq_program(p), C.coq_list([exe.coq_world(w) for w in ws])) for p, t, src, r in static_ok]
        souts = C.coq_eval_terms("c02_static", HDR, sterms, scope="Z_scope", timeout=900)
        for (p, t, src, r), o in zip(static_ok, souts):
            vals = [exe.canon_doubles(x) for x in re.findall(r'"([^"]*)"', o)]
            defined = sorted({v for v in vals if v and not v.startswith("UNDEF") and not v.startswith("STUCK")})
            ctx.dist("binding-accepted-as-constant")
            if len(defined) > 1:
                ctx.violation("the binding %s is accepted with NO update function (its value is written into the .ui once) although the value of its source differs between states: %s"
                              % (src, defined[:3]), {"qml": cxx.document([("tgt", sgen.PROP[t], src)]), "worlds": [exe.world_line(w) for w in ws], "oracle_output": vals,
                                                     "impl_output": r.get("header"), "theorem_or_correspondence": "C02_stays_current / S (constant classification)"})
    # ---- targets of every kind of object (real Qt classes): an accepted dynamic binding has its update function (the setter call) and the connection from the notify
    # signal of what it reads -- a binding on a layout or an action stays current like one on a widget
    kinds = [("QVBoxLayout { id: t; spacing: spin.value; QLabel { } }", "->t->setSpacing(", "QSpinBox::valueChanged"), ("QGridLayout { id: t; horizontalSpacing: spin.value; QLabel { } }", "->t->setHorizontalSpacing(", "QSpinBox::valueChanged"),
             ("QFormLayout { id: t; verticalSpacing: spin.value + 1 }", "->t->setVerticalSpacing(", "QSpinBox::valueChanged"), ("QHBoxLayout { id: t; contentsMargins.left: spin.value }", "->t->setContentsMargins(", "QSpinBox::valueChanged"),
             ("QLabel { id: t; text: edit.text }", "->t->setText(", "QLineEdit::textChanged"), ("QAction { id: t; enabled: chk.checked }", "->t->setEnabled(", "QAbstractButton::toggled"),
             ("QAction { id: t; text: edit.text }", "->t->setText(", "QLineEdit::textChanged"), ("QSlider { id: t; maximum: spin.value }", "->t->setMaximum(", "QSpinBox::valueChanged"),
             ("QMenu { id: t; title: edit.text }", "->t->setTitle(", "QLineEdit::textChanged"), ("QGroupBox { id: t; title: edit.text; QVBoxLayout { spacing: spin.value } }", "->setSpacing(", "QSpinBox::valueChanged"),
             ("QTabWidget { id: t; QWidget { id: page; enabled: chk.checked } }", "->page->setEnabled(", "QAbstractButton::toggled"), ("QLabel { id: t; font.pointSize: spin.value }", "->t->setFont(", "QSpinBox::valueChanged"),
             # one grouped value whose members read ONE object through properties announced by DIFFERENT signals (and several objects): every signal is connected
             ("QAction { id: act; checkable: true }\n  QLabel { id: t; font.bold: act.checked; font.strikeout: !act.enabled }", "->t->setFont(", "QAction::toggled|QAction::changed"),
             ("QAction { id: act; checkable: true }\n  QLabel { id: t; font.bold: act.checked && act.enabled }", "->t->setFont(", "QAction::toggled|QAction::changed"),
             ("QLabel { id: t; font { bold: chk.checked; pointSize: spin.value; family: edit.text } }", "->t->setFont(", "QAbstractButton::toggled|QSpinBox::valueChanged|QLineEdit::textChanged"),
             ("QLabel { id: t; minimumSize { width: spin.value; height: spin.maximum } }", "->t->setMinimumSize(", "QSpinBox::valueChanged"),
             ("QAction { id: act; checkable: true }\n  QLabel { id: t; text: act.text; enabled: act.checked && act.enabled }", "->t->setEnabled(", "QAction::toggled|QAction::changed")]
    saved = os.environ.get("VERIF_EXTRA_METATYPES", "")
    os.environ["VERIF_EXTRA_METATYPES"] = ""
    kdocs = ["import qmluic.QtWidgets\nQWidget {\n  QSpinBox { id: spin }\n  QLineEdit { id: edit }\n  QCheckBox { id: chk }\n  %s\n}\n" % k for k, _, _ in kinds]
    kres = qml.run_docs(vh, kdocs)
    os.environ["VERIF_EXTRA_METATYPES"] = saved
    for (k, setter, signal), d, r in zip(kinds, kdocs, kres):
        ctx.count(("target-kind", k), True)
        ctx.dist("binding-on-real-qt-object")
        if not isinstance(r, dict) or "diags" not in r:
            ctx.violation("no result for a dynamic binding on %s" % k.split(" ")[0], {"qml": d, "impl_output": str(r)[:300]})
            continue
        if r["has_error"] or any(x["kind"] == "error" for x in r["diags"]):
            continue
        h = r.get("header") or ""
        missing = [sg for sg in signal.split("|") if sg not in h]
        if setter not in h or missing:
            ctx.violation("the dynamic binding `%s` is accepted, but the support header has %s: the target does not follow what it reads"
                          % (k, "no call of the setter (%s)" % setter.strip("->(") if setter not in h else "no connection from %s" % ", ".join(missing)),
                          {"qml": d, "impl_output": h, "theorem_or_correspondence": "C02_stays_current / S (targets of every kind)"})
    # ---- unobservable reads are rejected
    unobs = [("i", "a.quiet", True), ("i", "a.next != null ? a.next.quiet : 0", True), ("i", "{ let p = a.next; if (p != null) { return p.quiet } return 0 }", True),
             ("i", "a.quietNext != null ? a.quietNext.i : 0", True), ("b", "a.quietNext == b", True), ("i", "{ let p = a.quietNext; return p != null ? p.i : 1 }", True),
             ("i", "a.ci", False), ("i", "a.next != null ? a.next.ci : 0", False), ("i", "a.i + a.quiet", True), ("b", "a.quiet > 0 || a.b", True)]
    ures = qml.run_docs(vh, [cxx.document([("tgt", pn, src)]) for pn, src, _ in unobs])
    for (pn, src, must), r in zip(unobs, ures):
        ctx.count(("unobservable", src), True)
        got = any("unobservable property" in d["msg"] for d in r.get("diags", []))
        if got != must:
            ctx.violation("%s: a binding reading %s is %s" % (src, "a non-constant property without notify signal" if must else "a CONSTANT property", "accepted (it would go stale)" if must else "rejected"),
                          {"qml": cxx.document([("tgt", pn, src)]), "impl_output": r.get("diags")})
    # ---- the coverage checker (proofs/PropdepProofs.v covered_b) on the implementation's OWN dependency-analysed IR
    from . import tircheck, tirtok
    pool = tircheck.Pool(ctx)
    pool.add_generated(3000 if ctx.tier == "thorough" else 500, mutate_every=0, max_depth=4)
    pool.add([(p, "total") for p, t, src in acc])
    pool.run()
    cterms, cidx = [], []
    for i, r in enumerate(pool.impl):
        if isinstance(r, dict) and r.get("ok") and r.get("dep_code") and not r.get("dep_diags"):
            cterms.append((tirtok.q_code(r["dep_code"]), "true"))
            cidx.append(i)
    chdr = tircheck.HEADER.replace("model.TirCase gen.GenE0.", "model.TirCase proofs.PropdepProofs gen.GenE0.")
    if ctx.model_ok and cterms:
        ctx.k_extra = ["proofs/PropdepProofs.vo"]
        unc = C.coq_eval_mismatches("c02cov", chdr, cterms, "Bool.eqb", "(code_covered_b E0)", "code * bool", shard_size=60, scope="nat_scope")
        ctx.coverage["ir_coverage_checked"] = len(cterms)
        ctx.coverage["ir_coverage_failures"] = len(unc)
        for j in unc[:5]:
            i = cidx[j]
            ctx.violation("the dependency-analysed IR of an accepted program has a property read that is neither a static dependency nor immediately preceded by its observation: %s" % pool.sources[i][:300],
                          {"qml": pool.sources[i], "case": {"program": pool.programs[i][0]}, "impl_output": pool.impl[i]["dep_code"],
                           "theorem_or_correspondence": "C02_dependency_complete_ir (checker covered_b on the implementation's IR)"})
    work = os.path.join(C.BUILD, "c02")
    shutil.rmtree(work, ignore_errors=True)
    chunks = [acc[i:i + 8] for i in range(0, len(acc), 8)]
    docs = []
    for ci, chunk in enumerate(chunks):
        extra = [("t%d" % k, "VObj") for k in range(len(chunk))]
        bindings = [("t%d" % k, sgen.PROP[t], src) for k, (p, t, src) in enumerate(chunk)]
        docs.append((cxx.document(bindings, [], extra), chunk, [("root", "VObj")] + cxx.OBJECT_DECLS + extra))
    res = qml.run_docs(vh, [d for d, _, _ in docs])
    jobs = []
    for ci, ((doc, chunk, objects), r) in enumerate(zip(docs, res)):
        if not isinstance(r, dict) or not r.get("header") or r["has_error"]:
            ctx.violation("a document of individually accepted bindings is rejected: %s" % str(r.get("diags") if isinstance(r, dict) else r)[:300], {"qml": doc})
            continue
        targets = [("t%d" % k, sgen.PROP[t]) for k, (p, t, src) in enumerate(chunk)]
        jobs.append((ci, os.path.join(work, "d%d" % ci), doc, chunk, objects, r["header"], targets))
    with concurrent.futures.ThreadPoolExecutor(max_workers=C.NCPU) as ex:
        built = list(ex.map(lambda j: exe.build(j[1], j[4], j[5], [], [], targets=j[6]), jobs))
    hist = {}
    terms, where = [], []
    for (ci, d, doc, chunk, objects, header, targets) in jobs:
        hs = []
        for h in range(nhist):
            w0 = exe.world(rng)
            steps = history(rng, w0, nsteps)
            ws = [w0]
            for st in steps:
                ws.append(apply_step(ws[-1], st))
            hs.append((w0, steps, ws))
        hist[ci] = hs
        for k, (p, t, src) in enumerate(chunk):
            for h, (w0, steps, ws) in enumerate(hs):
                terms.append("bind_all \"%s\" %s %s" % (sgen.PROP[t], prog.coq_program(p), C.coq_list([exe.coq_world(w) for w in ws])))
                where.append((ci, k, h))
    if not ctx.model_ok:
        return
    shard = 30
    with concurrent.futures.ThreadPoolExecutor(max_workers=C.NCPU) as ex:
        parts = list(ex.map(lambda i: C.coq_eval_terms("c02_%d" % i, HDR, terms[i:i + shard], scope="Z_scope", timeout=900), range(0, len(terms), shard)))
    outs = [o for part in parts for o in part]
    expected = {}
    for key, o in zip(where, outs):
        expected[key] = [exe.canon_doubles(x) for x in re.findall(r'"([^"]*)"', o)]
        if len(expected[key]) != nsteps + 1:
            ctx.broke("K", "model/Sem.v evaluation", "the reference evaluator gave no result list for a binding: %s" % o[:600])
            return
    ncmp = nskip = 0
    for (ci, d, doc, chunk, objects, header, targets), (rc, err) in zip(jobs, built):
        if rc != 0:
            first = next((l for l in err.split("\n") if "error" in l), err[:300])
            ctx.violation("the support header does not compile: %s" % first[-300:], {"qml": doc, "impl_output": header, "compiler": err[:2000]})
            continue
        for h, (w0, steps, ws) in enumerate(hist[ci]):
            # a fresh process per history: setup() runs in the initial world
            script = [exe.world_line(w0), "S", "T"]
            for st in steps:
                script += [step_line(st), "T"]
            got, rcode, tail = exe.run_script(d, script)
            dumps = [got[j] for j in range(len(got)) if j >= 2 and (j - 2) % 2 == 0]
            bad = False
            for si in range(nsteps + 1):
                if si >= len(dumps):
                    ctx.violation("the process stopped during the history (exit %s): %s" % (rcode, " ".join(t for t in tail if t)[-400:]),
                                  {"qml": doc, "history": [exe.world_line(w0)] + [step_line(s) for s in steps[:si]], "impl_output": tail})
                    bad = True
                    break
                vals = dumps[si].split()
                for k, (p, t, src) in enumerate(chunk):
                    want = expected[(ci, k, h)][si]
                    if want == "UNDEF" or want.startswith("STUCK"):
                        nskip += 1
                        continue
                    ncmp += 1
                    have = vals[k] if k < len(vals) else "?"
                    # the property setter of the API model (like Qt's) compares with ==: a zero of the other sign is not stored
                    if have != want and not ({have, want} <= {"d:0", "d:9223372036854775808"}):
                        ctx.violation("after %s the bound property holds %s but the expression is worth %s in the current state" % ("setup()" if si == 0 else "step %d (%s)" % (si, step_line(steps[si - 1])), have, want),
                                      {"qml": cxx.document([("tgt", sgen.PROP[t], src)]), "binding": src, "initial_world": {exe.NAMES[q]: w0[q] for q in range(4)},
                                       "history": [step_line(s) for s in steps[:si]], "impl_output": have, "oracle_output": want, "case": {"program": p, "type": t},
                                       "theorem_or_correspondence": "C02 (the property itself): target vs model/Sem.v after every step; hypotheses of C02_stays_current"})
                        bad = True
                        break
                if bad:
                    break
    shutil.rmtree(work, ignore_errors=True)
    shared_notify(ctx, vh, rng, nsteps)
    ctx.coverage["target_values_compared"] = ncmp
    ctx.coverage["skipped_undefined"] = nskip
    ctx.coverage["histories_per_document"] = nhist
    ctx.coverage["steps_per_history"] = nsteps
    ctx.sample({"qml": docs[0][0] if docs else None})
    ctx.coverage["rule"] = ("total binding expressions/blocks over property reads through named objects, ternary-selected objects, null-guarded next chains of depth <= 2 and local "
                            "variables; 8 bindings per document; per document %d histories of %d steps over a/b/sub x {b, i, u, s, next} with boundary values, re-pointing "
                            "(incl. cycles) and nulling of next, and no-op changes; all targets compared after setup() and after every step; plus 7 unobservable/constant reads"
                            % (nhist, nsteps))


def shared_notify(ctx, vh, rng, nsteps):
    """bindings ON the objects a / b whose target (m1) and a property they read (m2) are announced by the SAME notify signal of the SAME object -- as
    `visible: act.enabled` on a QAction.  Release semantics (QT_NO_DEBUG): the target must follow every change.  With the debug-build guard the update
    function is re-entered through the target's own notify signal: the listed finding F24."""
    def m2(o):
        return ("member", ("ident", o), "m2")
    shapes = [("a", m2("a")), ("a", ("ident", "m2")), ("b", ("binary", "&", m2("b"), ("int", 1023))), ("a", ("binary", "^", m2("a"), ("member", ("ident", "b"), "i"))),
              ("b", ("ternary", ("member", ("ident", "a"), "b"), m2("b"), ("member", ("ident", "a"), "m2"))),
              ("a", ("binary", "|", ("binary", "&", m2("a"), ("int", 255)), ("binary", "&", ("member", ("ident", "sub"), "i"), ("int", 3))))]
    work = os.path.join(C.BUILD, "c02m")
    shutil.rmtree(work, ignore_errors=True)
    docs = []
    for k, (o, e) in enumerate(shapes):
        pr = ("binding_expr", e)
        src = prog.qml_program(pr)
        docs.append((o, pr, src, cxx.document([(o, "m1", src)])))
    res = qml.run_docs(vh, [d[3] for d in docs])
    objects = [("root", "VObj")] + cxx.OBJECT_DECLS
    jobs = []
    for k, ((o, pr, src, doc), r) in enumerate(zip(docs, res)):
        ctx.count(("shared-notify", src), True)
        if not isinstance(r, dict) or not r.get("header") or r["has_error"]:
            ctx.violation("a binding reading a property of its own object is rejected: %s" % str(r.get("diags") if isinstance(r, dict) else r)[:300], {"qml": doc})
            continue
        jobs.append((k, o, pr, src, doc, r["header"]))
    ncmp = 0
    loops = 0
    for mode in ("release", "debug"):
        for (k, o, pr, src, doc, header) in jobs:
            d = os.path.join(work, "%s%d" % (mode, k))
            rc, err = exe.build(d, objects, header, [], [], targets=[(o, "m1")], defines=(["QT_NO_DEBUG"] if mode == "release" else []))
            if rc != 0:
                ctx.violation("the support header does not compile: %s" % err[:300], {"qml": doc, "impl_output": header})
                continue
            w0 = exe.world(rng)
            steps = history(rng, w0, nsteps, multi=True)
            ws = [w0]
            for st in steps:
                ws.append(apply_step(ws[-1], st))
            outs = C.coq_eval_terms("c02m_%s%d" % (mode, k), HDR, ["map (fun w => show_res (run_binding NAMES %d%%nat w \"m1\" %s)) %s" % (exe.NAMES.index(o), prog.coq_program(pr), C.coq_list([exe.coq_world(w) for w in ws]))], scope="Z_scope", timeout=600)
            want = [exe.canon_doubles(x) for x in re.findall(r'"([^"]*)"', outs[0])] if outs else []
            if len(want) != nsteps + 1:
                ctx.broke("K", "model/Sem.v evaluation", "the reference evaluator gave no result list for a shared-notify binding: %s" % (outs[0][:400] if outs else ""))
                return
            script = [exe.world_line(w0), "S", "T"]
            for st in steps:
                script += [step_line(st), "T"]
            got, rcode, tail = exe.run_script(d, script)
            dumps = [got[j] for j in range(len(got)) if j >= 2 and (j - 2) % 2 == 0]
            if mode == "debug" and len(dumps) < nsteps + 1 and any("binding loop detected" in t for t in tail if t):
                loops += 1
                continue
            for si in range(nsteps + 1):
                have = dumps[si].split()[0] if si < len(dumps) else "<the process stopped (exit %s): %s>" % (rcode, " ".join(t for t in tail if t)[-300:])
                ncmp += 1
                if have != want[si]:
                    ctx.violation("after %s the bound property holds %s but the expression is worth %s in the current state (%s build)"
                                  % ("setup()" if si == 0 else "step %d (%s)" % (si, step_line(steps[si - 1])), have, want[si], mode),
                                  {"qml": doc, "binding": "%s.m1: %s" % (o, src), "initial_world": {exe.NAMES[q]: w0[q] for q in range(4)}, "history": [step_line(x) for x in steps[:si]],
                                   "impl_output": have, "oracle_output": want[si], "theorem_or_correspondence": "C02 (the property itself): a target and a read property sharing one notify signal"})
                    break
    if loops:
        kc = ctx.known_classes()
        if "update_reentered_through_shared_notify_signal" in kc:
            ctx.known_finding("update_reentered_through_shared_notify_signal", kc["update_reentered_through_shared_notify_signal"]["what_fails"] + " (%d of %d bindings in this run)" % (loops, len(jobs)))
        else:
            ctx.violation("a binding whose target shares its notify signal with a property it reads aborts with 'binding loop detected' in a debug build", {"qml": jobs[0][4]})
    ctx.coverage["shared_notify_values_compared"] = ncmp
    ctx.coverage["shared_notify_debug_guard_aborts"] = loops
    shutil.rmtree(work, ignore_errors=True)

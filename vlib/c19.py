"""C19 -- Colour strings are read the way Qt reads them.

P: props/C19.v (model_color = spec_color for EVERY string; table translated from color.rs = independent SVG table).
K: Color::from_str (real code) vs model_color on exhaustive 3-digit (quick) / 3+4-digit (thorough) hex, sampled
   6/8-digit, every keyword in lower/upper/mixed case, near-miss and random strings; plus the whole pipeline
   (QML document with colour bindings -> .ui <color> elements).
S: on a disagreement the input is judged against spec_color (the property itself), evaluated in Coq.
"""
import json
from . import common as C

TARGETS = ["props/C19.vo"]
PINS = "pins/C19.v"
HEADER = "From QV Require Import model.Base model.Color spec.ColorSpec."  # model + spec only: K must run when a proof is broken
TRUSTED = ["spec/SvgColors.v typed in from the SVG 1.1 keyword list (cross-read once against X11 rgb.txt; the 4 SVG/X11 differences checked by hand)",
           "the reading of '#argb'/'#aarrggbb' (alpha first) and digit doubling is taken from the property text"]
HEX = "0123456789abcdef"


def impl_to_expected(r):
    """implementation result -> Coq term of type option (N*N*N*N) as (alpha, r, g, b) after the gadget conversion"""
    if isinstance(r, list):
        if r[0] == "rgb":
            return "(Some (255, %d, %d, %d))" % (r[1], r[2], r[3])
        return "(Some (%d, %d, %d, %d))" % (r[4], r[1], r[2], r[3])
    if r in ("InvalidHex", "UnknownName"):
        return "None"
    return None  # panic / crash


def gen_cases(ctx):
    rng = ctx.rng
    cases = []

    def add(s, kind):
        cases.append(s)
        ctx.dist(kind)

    for a in HEX:
        for b in HEX:
            for c in HEX:
                add("#" + a + b + c, "hex3-exhaustive")
    if ctx.tier == "thorough":
        for a in HEX:
            for b in HEX:
                for c in HEX:
                    for d in HEX:
                        add("#" + a + b + c + d, "hex4-exhaustive")
    else:
        for _ in range(3000):
            add("#" + "".join(rng.choice(HEX + "ABCDEF") for _ in range(4)), "hex4-sampled")
    n68 = 20000 if ctx.tier == "thorough" else 3000
    for _ in range(n68):
        n = rng.choice((6, 8))
        add("#" + "".join(rng.choice(HEX + "ABCDEF") for _ in range(n)), "hex%d-sampled" % n)
    # other lengths, invalid digits, signs, separators, non-ASCII
    for n in (0, 1, 2, 5, 7, 9, 10, 11, 16, 17):
        for _ in range(20):
            add("#" + "".join(rng.choice(HEX) for _ in range(n)), "hex-badlen")
    for _ in range(400):
        n = rng.choice((3, 4, 6, 8))
        s = [rng.choice(HEX) for _ in range(n)]
        s[rng.randrange(n)] = rng.choice("gGzZ+-_ .xXé１٠#")
        add("#" + "".join(s), "hex-baddigit")
    # keywords: table of the implementation is not visible here; use the spec's keyword list via Coq file names
    import re, os
    kws = re.findall(r'\("([a-z]+)",', open(os.path.join(C.COQ, "spec", "SvgColors.v")).read())
    kws.append("transparent")
    for k in kws:
        add(k, "keyword-lower")
        add(k.upper(), "keyword-upper")
        add(k.capitalize(), "keyword-mixed")
        add("".join(ch.upper() if rng.random() < 0.5 else ch for ch in k), "keyword-mixed")
        # near misses
        add(k + " ", "keyword-nearmiss")
        add(" " + k, "keyword-nearmiss")
        add(k[:-1], "keyword-nearmiss")
        add(k.replace("e", "é", 1) if "e" in k else k + "ı", "keyword-nearmiss")
    # colour names of other vocabularies (CSS Color 4, X11) that are NOT SVG 1.1 keywords: Qt reads none of them
    for s in ["rebeccapurple", "RebeccaPurple", "lightgoldenrod", "navyblue", "violetred", "grey0", "gray100", "darkslategray4", "mediumforestgreen", "lightslateblue", "currentcolor",
              "accentcolor", "canvas", "linktext", "systemcolor", "orange1", "red1", "webgray", "x11gray"]:
        add(s, "foreign-colour-name")
    for s in ["", "#", "rgb(1,2,3)", "rgba(0,0,0,0)", "0xff0000", "ff0000", "Qt::red", "#ff0000 ", " #ff0000", "##ff0000",
              "hsl(0,0%,0%)", "none", "currentColor", "inherit", "KHAKI", "grеy", "TRANSPARENT", "tRaNsPaReNt", "transparent\u0000"]:
        add(s, "other")
    alphabet = "abcdefghijklmnopqrstuvwxyzABCDEFGHIJKLMNOPQRSTUVWXYZ0123456789#_- éıK"
    for _ in range(500):
        add("".join(rng.choice(alphabet) for _ in range(rng.randrange(0, 12))), "random")
    # valid colours with blanks inside or around them: Qt reads none of them as a colour
    for _ in range(150):
        base = rng.choice(["#123abc", "#8fc", "#80123abc", "#1234", rng.choice(kws), rng.choice(kws), "transparent"])
        k = rng.randrange(0, len(base) + 1)
        add(base[:k] + rng.choice([" ", "\t", "  ", " \t"]) + base[k:], "blank-inside")
    return cases


def run(ctx):
    ctx.proof_leg(TARGETS, PINS, k_targets=["spec/ColorSpec.vo", "model/Color.vo"])
    vh = ctx.need_harness()
    cases = gen_cases(ctx) if not ctx.replay else [ctx.replay["case"]]
    impl = C.harness_run(vh, "color", cases)
    terms = []
    idx = []
    for i, (s, r) in enumerate(zip(cases, impl)):
        nontrivial = isinstance(r, list) or (s.startswith("#") and len(s) > 1)
        ctx.count(s, nontrivial)
        e = impl_to_expected(r)
        if e is None:
            ctx.violation("Color::from_str panicked/crashed on %r: %r" % (s, r), {"case": s, "impl_output": r})
            continue
        terms.append((C.coq_bytes(s), e))
        idx.append(i)
    for s, r in list(zip(cases, impl))[::max(1, len(cases) // 6)][:6]:
        ctx.sample({"input": s, "impl": r})
    ctx.coverage["rule"] = ("strings generated by class (exhaustive 3-digit hex%s, sampled 4/6/8-digit, bad lengths, bad digits, every SVG keyword "
                            "in 4 letter cases + near misses, random); non-trivial = accepted by the implementation or a '#'-prefixed candidate; distinct by string"
                            % (" and 4-digit hex" if ctx.tier == "thorough" else ""))
    ctx.coverage["exhaustive"] = False
    ctx.coverage["exhaustive_subspaces"] = ["#rgb over 16 lowercase digits"] + (["#argb over 16 lowercase digits"] if ctx.tier == "thorough" else [])
    if not ctx.model_ok:
        return  # neither model nor spec compile: P already recorded as broken, nothing to compare against
    eqf = "(fun (a b : option (N*N*N*N)) => match a, b with Some (a1,a2,a3,a4), Some (b1,b2,b3,b4) => (a1 =? b1) && (a2 =? b2) && (a3 =? b3) && (a4 =? b4) | None, None => true | _, _ => false end)"
    ty = "list N * option (N*N*N*N)"
    bad = C.coq_eval_mismatches("c19", HEADER, terms, eqf, "(fun b => model_color (string_of_bytes b))", ty, shard_size=1500)
    # S: the property itself -- implementation against Qt's reading (spec_color) on every case of this run
    bad_spec = C.coq_eval_mismatches("c19s", HEADER, terms, eqf, "(fun b => spec_color (string_of_bytes b))", ty, shard_size=1500)
    if bad_spec:
        sub = bad_spec[:5]
        spec = C.coq_eval_terms("c19_spec", HEADER, ["spec_color (string_of_bytes %s)" % terms[j][0] for j in sub])
        model = C.coq_eval_terms("c19_model", HEADER, ["model_color (string_of_bytes %s)" % terms[j][0] for j in sub])
        for j, sp, mo in zip(sub, spec, model):
            s = cases[idx[j]]
            ctx.violation("colour string %r: implementation gives %s, Qt's reading (spec_color) gives %s" % (s, impl[idx[j]], sp),
                          {"case": s, "impl_output": impl[idx[j]], "model_output": mo, "oracle_output": sp, "failing_inputs_total": len(bad_spec),
                           "theorem_or_correspondence": "S: Color::from_str + gadget conversion vs spec_color (spec/ColorSpec.v)"})
    elif bad:
        ctx.broke("K", "Color::from_str vs model/Color.v", "model and implementation differ on %d inputs, e.g. %r, but the implementation agrees with spec_color there"
                  % (len(bad), cases[idx[bad[0]]]))
    ctx.coverage["disagreements_model"] = len(bad)
    ctx.coverage["disagreements_spec"] = len(bad_spec)
    pipeline(ctx, vh, cases, impl)


def pipeline(ctx, vh, cases, impl):
    """the strings as colour / brush bindings of documents: what uigen makes of a string is what Color::from_str (tied to Qt's reading above) makes of it"""
    import os
    from . import qml, prog
    os.environ["VERIF_EXTRA_METATYPES"] = ""
    rng = ctx.rng
    pick = [i for i, c in enumerate(cases) if ctx.generator_kind(i) in ("blank-inside", "other", "keyword-nearmiss", "hex-baddigit", "hex-badlen")] if hasattr(ctx, "generator_kind") else []
    special = [i for i, c in enumerate(cases) if (" " in c or "\t" in c or c.count("#") != 1 or not c.isascii())]
    idxs = sorted(set(special[:400] + rng.sample(range(len(cases)), min(len(cases), 300 if ctx.tier != "thorough" else 3000))))
    idxs = [i for i in idxs if "\x00" not in cases[i] and "\n" not in cases[i] and "\r" not in cases[i]]
    docs = []
    styles = ["Qt.SolidPattern", "Qt.NoBrush", "Qt.Dense4Pattern", "Qt.CrossPattern", None]
    for k, i in enumerate(idxs):
        q = prog.qml_str(cases[i])
        st, st2 = styles[k % 5], styles[(k // 5 + 1) % 5]
        # every place a colour string is read: a colour property, a brush given as a string, a brush given as a map (with every style, also the empty one: Qt keeps
        # the colour of such a brush), palette roles given as a string and as a map
        docs.append("import qmluic.QtWidgets\nQWidget {\n QColorDialog { id: d; currentColor: %s }\n QGraphicsView { id: v; backgroundBrush: %s\n foregroundBrush {\n color: %s\n%s }\n }\n"
                    " QLabel { id: l; palette.window: %s\n palette.active.text {\n color: %s\n%s }\n }\n}\n"
                    % (q, q, q, "" if st is None else " style: %s\n" % st, q, q, "" if st2 is None else " style: %s\n" % st2))
    NCOL = 7      # currentColor, backgroundBrush, foregroundBrush, palette.window in three groups, palette.active.text
    res = qml.run_docs(vh, docs, mode="generate")
    n = 0
    for i, doc, r in zip(idxs, docs, res):
        s = cases[i]
        ctx.count(("pipeline", s), True)
        if not isinstance(r, dict) or "diags" not in r:
            ctx.violation("pipeline crashes on a colour string %r" % s, {"case": s, "qml": doc, "impl_output": str(r)[:500]})
            continue
        want = impl[i]
        accepted = r.get("ui") is not None and not any(d["kind"] == "error" for d in r["diags"])
        if isinstance(want, list) != accepted:
            ctx.violation("colour string %r: as a binding it is %s, Qt's reading (Color::from_str, compared with spec_color in this run) %s" %
                          (s, "accepted" if accepted else "rejected", "gives %r" % (want,) if isinstance(want, list) else "rejects it"),
                          {"case": s, "qml": doc, "impl_output": r.get("ui") if accepted else [d["msg"] for d in r["diags"]], "oracle_output": want,
                           "theorem_or_correspondence": "S: uigen colour / brush binding vs spec_color"})
            continue
        if accepted:
            root = qml.parse_ui(r["ui"])
            cols = [c for c in root.iter("color")]
            if len(cols) != NCOL:
                ctx.violation("colour string %r: the document binds it in %d places, the .ui holds %d <color> elements -- a colour is dropped or repeated" % (s, NCOL, len(cols)),
                              {"case": s, "qml": doc, "impl_output": r["ui"], "theorem_or_correspondence": "S: every bound colour is embedded"})
                continue
            for c in cols:
                got = [int(c.find(k).text) for k in ("red", "green", "blue")]
                alpha = int(c.get("alpha")) if c.get("alpha") is not None else 255
                exp = want[1:4] + [want[4] if want[0] == "rgba" else 255]
                if got + [alpha] != exp:
                    ctx.violation("colour string %r is embedded as %r; Qt reads %r" % (s, got + [alpha], exp), {"case": s, "qml": doc, "impl_output": r["ui"], "oracle_output": exp})
                    break
        n += 1
    ctx.coverage["pipeline_colour_bindings"] = n

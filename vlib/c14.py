"""C14 -- The dynamic-binding mode changes only the support code and its diagnostics.

P: props/C14.v over model/Uigen.v.  K: the real pipeline in the three modes vs the model (form, header bindings/callbacks,
diagnostics per object).  S (no model, on the real outputs): the .ui bytes are identical under generate / reject / omit whenever
produced; accepted in reject <=> accepted in generate with a header that sets up nothing; errors(omit) is a sub-multiset of
errors(generate) and of errors(reject); a header in generate mode only.  Inputs: generated documents (clean / ill-typed /
with planted faults), the repository's example and test documents and their mutants.
"""
import re
from . import common as C
from . import docs as D
from . import qml
from . import uigenk as U

TARGETS = ["props/C14.vo"]
PINS = "pins/C14.v"
TRUSTED = ["harness uigen (the three DynamicBindingHandling values through uigen::build + serialisation)", "labels of generated bindings; diagnostic classes by message text"]


def header_is_empty(h):
    m = re.search(r"void setup\(\)\s*\{(.*?)\}", h, re.S)
    return m is not None and m.group(1).strip() == ""


def dkey(d):
    return (d["msg"], d["kind"], d["start"], d["end"])


def sub_multiset(a, b):
    b = list(b)
    for x in a:
        if x in b:
            b.remove(x)
        else:
            return x
    return None


def s_relations(ctx, src, rs, rep):
    g, r, o = rs["generate"], rs["reject"], rs["omit"]
    if any(not isinstance(x, dict) or "diags" not in x for x in (g, r, o)):
        ctx.violation("a mode panics / gives no result: %s" % [str(x)[:100] for x in (g, r, o)], dict(rep, impl_output=str(rs)[:1500]))
        return False
    if g.get("syntax_error"):
        return True
    uis = {m: x.get("ui") for m, x in rs.items()}
    produced = {m: u for m, u in uis.items() if u is not None}
    if len(set(produced.values())) > 1 or (produced and len(produced) != 3):
        ctx.violation("the .ui differs between the modes (produced under: %s)" % sorted(produced), dict(rep, impl_output=uis, theorem_or_correspondence="C14_form_mode_free / S"))
        return False
    acc_r = not r["has_error"]
    acc_g = not g["has_error"]
    empty = g.get("header") is not None and header_is_empty(g["header"])
    if acc_r != (acc_g and empty):
        ctx.violation("accepted in reject mode: %s; accepted in generate mode: %s with an empty header: %s" % (acc_r, acc_g, empty),
                      dict(rep, impl_output={"reject": r["diags"], "generate": g["diags"], "header": g.get("header")}, theorem_or_correspondence="C14_reject_iff / S"))
        return False
    errs = {m: [dkey(d) for d in x["diags"] if d["kind"] == "error"] for m, x in rs.items()}
    for other in ("generate", "reject"):
        x = sub_multiset(errs["omit"], errs[other])
        if x is not None:
            ctx.violation("an error of the omit mode is not reported in %s mode: %r" % (other, x), dict(rep, impl_output=errs, theorem_or_correspondence="C14_omit_subset / S"))
            return False
    if r.get("header") is not None or o.get("header") is not None or (g.get("ui") is not None and g.get("header") is None):
        ctx.violation("support header presence: generate=%s reject=%s omit=%s" % tuple(rs[m].get("header") is not None for m in ("generate", "reject", "omit")),
                      dict(rep, impl_output=None, theorem_or_correspondence="C14_header_only_in_generate / S"))
        return False
    return True


def cli_histories(ctx):
    """the relations on what the COMMAND LINE leaves behind, over edit histories of one source in one output directory: after every step, the document is accepted by
    --no-dynamic-binding exactly when generate mode accepts it and the support header on disk sets up nothing; the .ui on disk is the same under both modes"""
    import os, shutil, tempfile
    from . import c07
    cli = c07.build_cli()
    head = "import qmluic.QtWidgets\nQWidget {\n    QLineEdit { id: srcS }\n    QCheckBox { id: srcB }\n    QLabel { id: lbl; %s }\n    QPushButton { id: btn; %s }\n}\n"
    steps = [("text: \"a\"", ""), ("text: \"a\"; enabled: srcB.checked", ""), ("text: \"a\"", ""), ("text: \"a\"", "onClicked: srcS.clear()"), ("text: \"a\"", ""),
             ("text: \"b\"", ""), ("text: \"b\"; wordWrap: srcB.checked", "onClicked: lbl.clear()"), ("text: \"b\"; wordWrap: srcB.checked", ""), ("text: \"b\"; wordWrap: true", ""),
             ("text: srcS.text", ""), ("text: \"b\"; wordWrap: true", "")]
    orders = [steps, list(reversed(steps)), [steps[0], steps[3], steps[0], steps[1], steps[1], steps[2]]]
    td = tempfile.mkdtemp(prefix="verif-c14-")
    n = 0
    try:
        for k, hist in enumerate(orders):
            d = os.path.join(td, "h%d" % k)
            os.makedirs(d)
            for j, (a, b) in enumerate(hist):
                src = head % (a, b)
                with open(os.path.join(d, "W.qml"), "w") as f:
                    f.write(src)
                rc_g, out_g = C.sh([cli, "generate-ui", "--foreign-types", C.REPO + "/contrib/metatypes", "W.qml"], cwd=d, timeout=120)
                fresh = os.path.join(td, "r%d_%d" % (k, j))
                os.makedirs(fresh)
                shutil.copy(os.path.join(d, "W.qml"), fresh)
                rc_r, out_r = C.sh([cli, "generate-ui", "--no-dynamic-binding", "--foreign-types", C.REPO + "/contrib/metatypes", "W.qml"], cwd=fresh, timeout=120)
                n += 1
                ctx.dist("cli-history-step")
                ctx.count(("cli", k, j), bool(b) or "src" in a)
                hp = os.path.join(d, "uisupport_w.h")
                h = open(hp, encoding="utf-8").read() if os.path.exists(hp) else None
                rep = {"history": [head % x for x in hist[:j + 1]], "theorem_or_correspondence": "C14_reject_iff / S (command line, one output directory)"}
                if rc_g != 0:
                    ctx.violation("generate mode refuses a well-formed document at step %d of an edit history (exit %d)" % (j, rc_g), dict(rep, impl_output=out_g[-600:]))
                    break
                if h is None:
                    ctx.violation("generate mode accepted the document but there is no support header on disk (step %d)" % j, rep)
                    break
                if (rc_r == 0) != header_is_empty(h):
                    ctx.violation("step %d of an edit history: --no-dynamic-binding %s the document while the support header that generate mode leaves on disk sets up %s"
                                  % (j, "accepts" if rc_r == 0 else "refuses", "nothing" if header_is_empty(h) else "bindings or callbacks"),
                                  dict(rep, impl_output={"header_on_disk": h[:1500], "reject_mode": out_r[-400:]}))
                    break
                if os.path.exists(os.path.join(fresh, "uisupport_w.h")):
                    ctx.violation("--no-dynamic-binding leaves a support header on disk (step %d): a header is produced in generate mode only" % j, rep)
                    break
                if rc_r == 0:
                    a_ui, b_ui = open(os.path.join(d, "w.ui"), "rb").read(), open(os.path.join(fresh, "w.ui"), "rb").read()
                    if a_ui != b_ui:
                        ctx.violation("step %d of an edit history: the .ui on disk differs between generate and --no-dynamic-binding" % j, rep)
                        break
    finally:
        shutil.rmtree(td, ignore_errors=True)
    ctx.coverage["cli_history_steps"] = n


def run(ctx):
    ctx.proof_leg(TARGETS, PINS, k_targets=U.K_TARGETS)
    vh = ctx.need_harness()
    rng = ctx.rng
    n = 2700 if ctx.tier == "thorough" else 150
    roots, docs = [], []
    for i in range(n):
        g = U.Gen(rng, p_bad=0.12 if i % 3 == 1 else 0.0, clean=(i % 3 == 0), p_dyn=rng.choice([0.0, 0.1, 0.3]), p_handler=rng.choice([0.0, 0.25]))
        r = g.document()
        if i % 5 == 4:
            U.plant_fault(rng, r)
        roots.append(r)
        docs.append(U.render(r))
        ctx.dist("generated-" + ("clean" if i % 3 == 0 else "any") + ("-fault" if i % 5 == 4 else ""))
    # one binding per document, of every kind on every kind of object: the cross-mode relations are sharpest when nothing else is in the document
    singles = []
    one = [("QSpacerItem", "orientation: srcB.checked ? Qt.Horizontal : Qt.Vertical"), ("QSpacerItem", "sizeHint { width: srcI.value }"), ("QSpacerItem", "orientation: Qt.Vertical"),
           ("QVBoxLayout", "spacing: srcI.value"), ("QGridLayout", "columns: srcI.value"), ("QGridLayout", "columns: 2"), ("QVBoxLayout", "contentsMargins.left: srcI.value"),
           ("QLabel", "text: srcS.text"), ("QLabel", "text: 1 + 2"), ("QLabel", "hasSelectedText: srcB.checked"), ("QLabel", "hasSelectedText: true"), ("QLabel", "geometry { x: srcI.value }"),
           ("QLabel", "font.bold: srcB.checked"), ("QLabel", "font.bold: true"), ("QComboBox", "model: [srcS.text]"), ("QComboBox", "model: [\"a\"]"), ("QTableView", "model: [\"a\"]"),
           ("QTableView", "horizontalHeader.visible: srcB.checked"), ("QTableView", "horizontalHeader.visible: false"), ("QTreeView", "header.font.bold: srcB.checked"),
           ("QLabel", "QLayout.rowStretch: srcI.value"), ("QLabel", "QLayout.rowStretch: 1"), ("QLabel", "QLayout.row: 1"), ("QPushButton", "onClicked: srcS.clear()"),
           ("QPushButton", "onFooBar: srcS.clear()"), ("QLabel", "fooBar: 1"), ("QLabel", "actions: []"), ("QWidget", "sizePolicy.horizontalPolicy: QSizePolicy.Expanding"),
           # nested binding maps of every depth and kind: palette -> colour group -> brush -> member (the colour group is a map that is NOT one of the gadget kinds)
           ("QLabel", "palette.active.window.style: srcB.checked ? Qt.Dense4Pattern : Qt.SolidPattern"), ("QLabel", "palette.active.window.style: Qt.Dense4Pattern"),
           ("QLabel", "palette.window.style: srcB.checked ? Qt.Dense4Pattern : Qt.SolidPattern"), ("QLabel", "palette.disabled.text.color: srcS.text"), ("QLabel", "palette.inactive.base: srcS.text"),
           ("QLabel", "palette.inactive.base: \"red\""), ("QLabel", "palette { active { window { color: srcS.text } } }"), ("QLabel", "palette { disabled { text: \"blue\"; base: srcS.text } }"),
           ("QLabel", "palette.window: srcS.text"), ("QLabel", "palette.window: \"#102030\""), ("QLabel", "font.family: srcS.text"), ("QLabel", "font { bold: true; family: srcS.text }"),
           ("QLabel", "locale.fooBar: srcS.text"), ("QLabel", "locale.fooBar: 1"), ("QLabel", "cursor.shape: srcI.value"), ("QPushButton", "icon.name: srcS.text"), ("QPushButton", "icon.name: \"go\""),
           ("QPushButton", "icon { normalOff: srcS.text }"), ("QLabel", "minimumSize.width: srcI.value"), ("QLabel", "geometry.width: srcI.value + 1"),
           ("QTableView", "horizontalHeader.font.bold: srcB.checked"), ("QTableView", "horizontalHeader.palette.active.window.color: srcS.text"),
           ("QTableView", "horizontalHeader.palette.window: \"red\""),
           # a value that is a constant although its code READS a property (the read is discarded): whatever generate mode says about that read (a property without
           # notify signal cannot be observed), the other modes say too
           ("QLabel", "text: { srcS.width; \"x\" }"), ("QLabel", "text: { srcS.text; \"x\" }"), ("QLabel", "enabled: { srcS.width; true }"),
           ("QLabel", "text: { let w = srcS.width; return \"x\" }"), ("QLabel", "text: { let w = srcS.text; return \"x\" }"), ("QLabel", "font.bold: { srcS.height; true }"),
           ("QLabel", "text: { srcS.width; return srcS.text }"), ("QLabel", "text: { srcI.maximum; \"x\" }"), ("QLabel", "QLayout.rowStretch: { srcS.width; 1 }"),
           ("QPushButton", "onClicked: { srcS.width; srcS.clear() }")]
    for cls, b in one:
        singles.append("import qmluic.QtWidgets\nQWidget {\n    QLineEdit { id: srcS }\n    QCheckBox { id: srcB }\n    QSpinBox { id: srcI }\n    QVBoxLayout {\n        %s {\n            %s\n        }\n    }\n}\n" % (cls, b))
    for b in ("text: srcS.text", "separator: srcB.checked", "separator: true", "checkable: srcB.checked", "onTriggered: srcS.clear()"):
        singles.append("import qmluic.QtWidgets\nQWidget {\n    QLineEdit { id: srcS }\n    QCheckBox { id: srcB }\n    QAction {\n        id: act\n        %s\n    }\n}\n" % b)
    # object ids that are ordinary QML identifiers but words of other languages (C++ keywords, Qt macros, Rust / Python keywords): whatever a mode says about them, every mode says
    for ident in ("union", "register", "auto", "signals", "slots", "emit", "goto", "and", "not", "template", "namespace", "fn", "lambda", "match", "self", "ui", "root_", "ui_"):
        singles.append("import qmluic.QtWidgets\nQWidget {\n    QLineEdit { id: srcS }\n    QLabel { id: %s; text: \"static\" }\n}\n" % ident)
        singles.append("import qmluic.QtWidgets\nQWidget {\n    QLineEdit { id: srcS }\n    QLabel { id: %s; text: srcS.text }\n}\n" % ident)
    # the same documents with something that draws a WARNING (a versioned import, a return type on a handler function): a warning changes nothing else
    singles += [x.replace("import qmluic.QtWidgets\n", "import qmluic.QtWidgets 6.2\n", 1) for x in list(singles)]
    singles.append("import qmluic.QtWidgets\nQWidget {\n    QLineEdit { id: srcS }\n    QPushButton {\n        onClicked: function(): void { srcS.clear() }\n    }\n}\n")
    singles.append("import qmluic.QtWidgets\nQWidget {\n    QLineEdit { id: srcS }\n    QLabel { text: srcS.text }\n    QPushButton {\n        onClicked: function(): void { srcS.clear() }\n    }\n}\n")
    for _ in singles:
        ctx.dist("single-binding")
    corpus = D.corpus()
    extra = list(corpus) + singles
    for src in corpus:
        for _ in range(6 if ctx.tier == "thorough" else 1):
            extra.append(D.mutate(rng, src))
    for _ in extra:
        ctx.dist("corpus/mutant")
    allsrc = docs + extra
    impl = {m: qml.run_docs(vh, allsrc, mode=m) for m in ("generate", "reject", "omit")}
    terms, idx = [], []
    stats = {"accepted_generate": 0, "accepted_reject": 0, "accepted_omit": 0}
    for i, src in enumerate(allsrc):
        rs = {m: impl[m][i] for m in impl}
        ctx.count(src, "." in src and ":" in src)
        rep = {"qml": src}
        if not s_relations(ctx, src, rs, rep):
            continue
        for m in rs:
            if not rs[m].get("syntax_error") and not rs[m]["has_error"]:
                stats["accepted_" + m] += 1
        if i < len(docs) and not roots[i].get("faulted") and not any(o["faults"] for o in U.walk(roots[i])):
            for m in ("generate", "reject", "omit"):
                obs, loose = U.observe(roots[i], rs[m])
                if loose:
                    ctx.violation("a diagnostic lies outside every binding (%s mode): %r" % (m, [(d["msg"], d["start"]) for d in loose][:2]), dict(rep, impl_output=rs[m]["diags"]))
                    break
                terms.append((U.coq_case(m, roots[i]), U.coq_expected(obs)))
                idx.append((i, m))
    if not ctx.replay:
        cli_histories(ctx)
    ctx.coverage.update(stats)
    ctx.sample({"qml": docs[0]})
    ctx.coverage["compared_with_model"] = len(terms)
    ctx.coverage["rule"] = ("generated documents (clean / 12% ill-typed / one planted fault; dynamic share 0, 0.1, 0.3; with and without handlers) and the repository's example and "
                            "inline test documents with mutants, each through the three modes; non-trivial = has a binding; K on the generated fault-free ones x 3 modes")
    if not ctx.model_ok:
        return
    bad = C.coq_eval_mismatches("c14", U.HEADER, terms, "doc_eqb", "run_case", U.CASE_TYPE, shard_size=25, scope="string_scope")
    ctx.coverage["disagreements_model"] = len(bad)
    if bad and not ctx.violations:
        j = bad[0]
        mo = C.coq_eval_terms("c14_model", U.HEADER, ["run_case %s" % terms[j][0]], scope="string_scope")
        ctx.broke("K", "uigen::build under %s vs model/Uigen.v" % idx[j][1],
                  "model and implementation differ on %d (document, mode) pairs; first (%s):\n%s\nmodel=%s\nimpl=%s" % (len(bad), idx[j][1], allsrc[idx[j][0]], mo[0][:3000], terms[j][1][:3000]))

"""G-doc: generator of well-formed QML documents over the real Qt 5 metatypes, as a structured tree (so that the checks know
what every binding is) plus a renderer.  Objects: {"cls", "id", "bindings": [..], "children": [..], "kind"}.
Bindings: {"name", "src", "class": "const" | "dyn" | "handler" | "gadget-const" | "gadget-dyn" | "attached", "prop"}"""
from . import prog

LEAVES = {
    "QLabel": {"const": [("text", "str"), ("wordWrap", "bool"), ("toolTip", "str"), ("alignment", "align"), ("indent", "int")],
               "dyn_target": [("text", "str"), ("enabled", "bool"), ("visible", "bool")], "src": [], "signals": []},
    "QPushButton": {"const": [("text", "str"), ("checkable", "bool"), ("flat", "bool"), ("default_", "bool"), ("toolTip", "str")],
                    "dyn_target": [("text", "str"), ("enabled", "bool"), ("checked", "bool")], "src": [("checked", "bool")],
                    "signals": [("onClicked", 0), ("onToggled", 1), ("onPressed", 0)]},
    "QCheckBox": {"const": [("text", "str"), ("checked", "bool"), ("tristate", "bool")],
                  "dyn_target": [("enabled", "bool"), ("checked", "bool"), ("text", "str")], "src": [("checked", "bool")],
                  "signals": [("onToggled", 1), ("onClicked", 0)]},
    "QLineEdit": {"const": [("text", "str"), ("placeholderText", "str"), ("readOnly", "bool"), ("maxLength", "int")],
                  "dyn_target": [("text", "str"), ("enabled", "bool"), ("readOnly", "bool")], "src": [("text", "str")],
                  "signals": [("onTextChanged", 1), ("onReturnPressed", 0), ("onEditingFinished", 0)]},
    "QComboBox": {"const": [("editable", "bool"), ("currentIndex", "int"), ("toolTip", "str")],
                  "dyn_target": [("currentIndex", "int"), ("enabled", "bool")], "src": [("currentIndex", "int"), ("currentText", "str")],
                  "signals": [("onCurrentTextChanged", 1), ("onEditTextChanged", 1)]},
    "QSpinBox": {"const": [("minimum", "int"), ("maximum", "int"), ("value", "int"), ("singleStep", "int")],
                 "dyn_target": [("value", "int"), ("enabled", "bool"), ("maximum", "int")], "src": [("value", "int")],
                 "signals": [("onEditingFinished", 0)]},
    "QSlider": {"const": [("minimum", "int"), ("maximum", "int"), ("value", "int"), ("orientation", "orient")],
                "dyn_target": [("value", "int"), ("enabled", "bool")], "src": [("value", "int")], "signals": [("onValueChanged", 1), ("onSliderMoved", 1)]},
    "QProgressBar": {"const": [("minimum", "int"), ("maximum", "int"), ("value", "int"), ("textVisible", "bool")],
                     "dyn_target": [("value", "int"), ("maximum", "int")], "src": [("value", "int")], "signals": []},
}
CONTAINERS = ["QWidget", "QGroupBox", "QFrame"]
LAYOUTS = ["QVBoxLayout", "QHBoxLayout", "QGridLayout", "QFormLayout"]
STRINGS = ["", "Hello", "a b", "x<y & \"z\"", "tab\there", "line\nbreak", "é ü", "日本語", "😀", " lead", "trail ", "it's", "&File", "100%", "]]>"]


def var_prefix(cls):
    s = cls[1:] if cls[0] in "QK" and len(cls) > 1 and cls[1].isalpha() else cls
    out = []
    i = 0
    while i < len(s):
        out.append(s[i].lower())
        if not s[i].isupper():
            i += 1
            break
        i += 1
    return "".join(out) + s[i:]


class DocGen:
    def __init__(self, rng, dyn=0.3, handlers=0.25, max_depth=3):
        self.rng = rng
        self.dyn = dyn
        self.handlers = handlers
        self.max_depth = max_depth
        self.n = 0
        self.objs = []          # leaf objects usable as sources: (id, cls)

    def pick(self, xs):
        return xs[self.rng.randrange(len(xs))]

    def new_id(self, cls):
        self.n += 1
        return "%s_%d" % (var_prefix(cls), self.n)

    def const_src(self, ty):
        r = self.rng
        if ty == "str":
            s = self.pick(STRINGS)
            return ("qsTr(%s)" % prog.qml_str(s) if r.random() < 0.3 else prog.qml_str(s)), ("str", s)
        if ty == "bool":
            b = r.random() < 0.5
            return ("true" if b else "false"), ("bool", b)
        if ty == "int":
            v = r.choice([0, 1, 2, 5, 10, 42, 100, 255])
            if r.random() < 0.2:
                w = r.choice([1, 2, 3])
                return "%d + %d" % (v, w), ("int", v + w)
            return str(v), ("int", v)
        if ty == "align":
            a = r.sample(["Qt.AlignLeft", "Qt.AlignTop", "Qt.AlignRight", "Qt.AlignBottom"], r.randrange(1, 3))
            return " | ".join(a), ("set", [x.replace("Qt.", "Qt::") for x in a])
        if ty == "orient":
            o = r.choice(["Horizontal", "Vertical"])
            return "Qt." + o, ("enum", "Qt::" + o)
        raise KeyError(ty)

    def dyn_src(self, ty):
        """an expression of type ty that reads another object's property (or None when no source is available)"""
        cands = [(i, c, p) for (i, c) in self.objs for (p, t) in LEAVES[c]["src"] if t == ty]
        if not cands:
            return None
        i, c, p = self.pick(cands)
        r = self.rng.random()
        if ty == "bool":
            return self.pick(["%s.%s" % (i, p), "!%s.%s" % (i, p), "%s.%s && true" % (i, p)])
        if ty == "int":
            return self.pick(["%s.%s" % (i, p), "%s.%s + 1" % (i, p), "%s.%s > 3 ? 1 : 2" % (i, p)])
        return self.pick(["%s.%s" % (i, p), "%s.%s + \"!\"" % (i, p), "qsTr(\"%%1\").arg(%s.%s)" % (i, p)])

    def handler_src(self, nargs):
        cands = [(i, c) for (i, c) in self.objs]
        acts = ["console.log(\"x\")"]
        for i, c in cands:
            if c == "QLineEdit":
                acts += ["%s.clear()" % i, "%s.text = \"clicked\"" % i]
            if c in ("QCheckBox", "QPushButton"):
                acts += ["%s.toggle()" % i, "%s.checked = true" % i]
            if c in ("QSpinBox", "QSlider", "QProgressBar"):
                acts += ["%s.value = 1" % i]
        a = self.pick(acts)
        r = self.rng.random()
        if r < 0.5:
            return a
        if r < 0.8:
            return "{ %s; %s }" % (a, self.pick(acts))
        return "function() { %s }" % a

    def leaf(self, parent_layout=None):
        cls = self.pick(list(LEAVES))
        spec = LEAVES[cls]
        o = {"cls": cls, "id": None, "bindings": [], "children": [], "kind": "widget"}
        if self.rng.random() < 0.7:
            o["id"] = self.new_id(cls)
        used = set()
        for _ in range(self.rng.randrange(0, 4)):
            if self.rng.random() < self.dyn:
                p, ty = self.pick(spec["dyn_target"])
                if p in used:
                    continue
                src = self.dyn_src(ty)
                if src is None:
                    continue
                used.add(p)
                o["bindings"].append({"name": p, "src": src, "class": "dyn", "prop": p})
            else:
                p, ty = self.pick(spec["const"])
                if p in used:
                    continue
                used.add(p)
                src, val = self.const_src(ty)
                o["bindings"].append({"name": p, "src": src, "class": "const", "prop": p, "value": val})
        if self.rng.random() < 0.25:
            g = self.rng.random()
            if g < 0.4:
                o["bindings"].append({"name": "font.bold", "src": "true", "class": "gadget-const", "prop": "font"})
                if self.rng.random() < 0.5:
                    o["bindings"].append({"name": "font.pointSize", "src": "12", "class": "gadget-const", "prop": "font"})
            elif g < 0.7:
                o["bindings"].append({"name": "sizePolicy.horizontalPolicy", "src": "QSizePolicy.Expanding", "class": "gadget-const", "prop": "sizePolicy"})
                o["bindings"].append({"name": "sizePolicy.verticalPolicy", "src": "QSizePolicy.Fixed", "class": "gadget-const", "prop": "sizePolicy"})
            else:
                src = self.dyn_src("bool")
                if src:
                    o["bindings"].append({"name": "font.bold", "src": src, "class": "gadget-dyn", "prop": "font"})
                    o["bindings"].append({"name": "font.italic", "src": "true", "class": "gadget-const", "prop": "font"})
        if spec["signals"] and self.rng.random() < self.handlers:
            s, n = self.pick(spec["signals"])
            o["bindings"].append({"name": s, "src": self.handler_src(n), "class": "handler", "prop": s})
        if o["id"]:
            self.objs.append((o["id"], cls))
        return o

    def attach(self, o, layout_cls, columns=3):
        r = self.rng
        if layout_cls == "QGridLayout" and r.random() < 0.4:
            if r.random() < 0.5:
                o["bindings"].append({"name": "QLayout.row", "src": str(r.randrange(0, 4)), "class": "attached", "prop": "QLayout.row"})
            if r.random() < 0.5:
                o["bindings"].append({"name": "QLayout.column", "src": str(r.randrange(0, columns)), "class": "attached", "prop": "QLayout.column"})
            if r.random() < 0.2:
                o["bindings"].append({"name": "QLayout.columnStretch", "src": "1", "class": "attached", "prop": "QLayout.columnStretch"})
        if layout_cls in ("QVBoxLayout",) and r.random() < 0.2:
            o["bindings"].append({"name": "QLayout.rowStretch", "src": str(r.randrange(0, 3)), "class": "attached", "prop": "QLayout.rowStretch"})
        if layout_cls in ("QHBoxLayout",) and r.random() < 0.2:
            o["bindings"].append({"name": "QLayout.columnStretch", "src": str(r.randrange(0, 3)), "class": "attached", "prop": "QLayout.columnStretch"})
        if r.random() < 0.1:
            o["bindings"].append({"name": "QLayout.alignment", "src": "Qt.AlignLeft", "class": "attached", "prop": "QLayout.alignment"})

    def layout(self, d):
        cls = self.pick(LAYOUTS)
        o = {"cls": cls, "id": None, "bindings": [], "children": [], "kind": "layout"}
        if self.rng.random() < 0.3:
            o["id"] = self.new_id(cls)
        columns = 3
        if cls == "QGridLayout":
            columns = self.rng.randrange(1, 4)
            o["bindings"].append({"name": "columns", "src": str(columns), "class": "pseudo", "prop": "columns"})
        if self.rng.random() < 0.2:
            o["bindings"].append({"name": "spacing", "src": str(self.rng.randrange(0, 10)), "class": "const", "prop": "spacing", "value": None})
        if self.rng.random() < 0.15:
            o["bindings"].append({"name": "contentsMargins.left", "src": "5", "class": "gadget-const", "prop": "contentsMargins"})
        for _ in range(self.rng.randrange(1, 5)):
            r = self.rng.random()
            if r < 0.12 and d < self.max_depth:
                c = self.layout(d + 1)
            elif r < 0.2:
                c = {"cls": "QSpacerItem", "id": None, "bindings": [], "children": [], "kind": "spacer"}
                if self.rng.random() < 0.5:
                    c["bindings"].append({"name": "orientation", "src": "Qt.Vertical", "class": "const", "prop": "orientation", "value": ("enum", "Qt::Vertical")})
            elif r < 0.35 and d < self.max_depth:
                c = self.container(d + 1)
            else:
                c = self.leaf()
            self.attach(c, cls, columns)
            o["children"].append(c)
        return o

    def container(self, d):
        cls = self.pick(CONTAINERS)
        o = {"cls": cls, "id": None, "bindings": [], "children": [], "kind": "widget"}
        if self.rng.random() < 0.3:
            o["id"] = self.new_id(cls)
        if cls == "QGroupBox" and self.rng.random() < 0.6:
            src, val = self.const_src("str")
            o["bindings"].append({"name": "title", "src": src, "class": "const", "prop": "title", "value": val})
        if self.rng.random() < 0.7:
            o["children"].append(self.layout(d + 1))
        else:
            for _ in range(self.rng.randrange(0, 3)):
                o["children"].append(self.leaf())
        if self.rng.random() < 0.2:
            for _ in range(self.rng.randrange(1, 3)):
                a = {"cls": "QAction", "id": self.new_id("QAction"), "bindings": [], "children": [], "kind": "action"}
                if self.rng.random() < 0.25:
                    a["bindings"].append({"name": "separator", "src": "true", "class": "separator", "prop": "separator"})
                    a["id"] = None
                    a["kind"] = "separator"
                else:
                    src, val = self.const_src("str")
                    a["bindings"].append({"name": "text", "src": src, "class": "const", "prop": "text", "value": val})
                o["children"].append(a)
        return o

    def document(self):
        self.objs = []
        self.n = 0
        root_cls = self.pick(["QWidget", "QDialog", "QWidget"])
        root = {"cls": root_cls, "id": "root" if self.rng.random() < 0.5 else None, "bindings": [], "children": [], "kind": "widget"}
        if self.rng.random() < 0.5:
            src, val = self.const_src("str")
            root["bindings"].append({"name": "windowTitle", "src": src, "class": "const", "prop": "windowTitle", "value": val})
        r = self.rng.random()
        if r < 0.75:
            root["children"].append(self.layout(0))
        elif r < 0.9:
            tab = {"cls": "QTabWidget", "id": self.new_id("QTabWidget"), "bindings": [], "children": [], "kind": "widget"}
            for k in range(self.rng.randrange(1, 4)):
                page = self.container(1)
                page["bindings"].append({"name": "QTabWidget.title", "src": prog.qml_str("Tab %d" % k), "class": "attached", "prop": "QTabWidget.title"})
                tab["children"].append(page)
            root["children"].append(tab)
        else:
            for _ in range(self.rng.randrange(1, 4)):
                root["children"].append(self.leaf())
        return root


def render(o, ind=""):
    lines = ["%s%s {" % (ind, o["cls"])]
    if o["id"]:
        lines.append("%s    id: %s" % (ind, o["id"]))
    for b in o["bindings"]:
        lines.append("%s    %s: %s" % (ind, b["name"], b["src"]))
    for c in o["children"]:
        lines.append(render(c, ind + "    "))
    lines.append("%s}" % ind)
    return "\n".join(lines)


def to_qml(root):
    return "import qmluic.QtWidgets\n" + render(root) + "\n"


def walk(o, parent=None):
    yield o, parent
    for c in o["children"]:
        yield from walk(c, o)

"""C10 -- Object names are unique and every reference resolves, across both outputs.

P: props/C10.v (C10_unique: full statement, after the F4 repair).  K: names in the real .ui vs model/Names.v, objects
identified by a toolTip marker; duplicate-id diagnostics.  S: on the real .ui -- all names pairwise distinct, every
<addaction>/buddy reference denotes exactly one declared object, ids verbatim, generated names avoid ids.
"""
import json
import re
from . import common as C
from . import qml

TARGETS = ["props/C10.vo"]
PINS = "pins/C10.v"
K_TARGETS = ["model/Names.vo"]
HEADER = "From QV Require Import model.Base model.Names."
TRUSTED = ["harness uigen + xml.etree; data/verif_names_metatypes.json (synthetic classes whose names end in digits or start with K/Q)",
           "references in the support header (ui_->name) are checked against the names the .ui declares (and compiled under C16)"]
CONTAINERS = ["QWidget", "Widget2", "KWidget", "Page", "Page1", "Page12", "Q3DView", "QGroupBox", "QMenu"]
LEAVES = ["QLabel", "Label", "Label1", "QPushButton", "PushButton1", "QAction", "Action1", "QLabel", "QLabel"]
ID_POOL = ["label", "label1", "label2", "label11", "widget", "widget2", "widget21", "page", "page1", "page12", "page121", "action", "action1",
           "pushButton1", "pushButton11", "kwidget", "q3DView", "menu", "foo", "Label1", "separator", "groupBox"]
EXTRA = C.VERIF + "/data/verif_names_metatypes.json"


def gen_tree(rng, depth, ids_left, dup_ok):
    node = {"cls": rng.choice(CONTAINERS), "id": None, "kids": []}
    for _ in range(rng.choice([0, 1, 2, 3, 4, 5]) if depth > 0 else 0):
        if depth > 1 and rng.random() < 0.3:
            node["kids"].append(gen_tree(rng, depth - 1, ids_left, dup_ok))
        else:
            node["kids"].append({"cls": rng.choice(LEAVES), "id": None, "kids": []})
    for n in [node] + node["kids"]:
        if n["id"] is None and rng.random() < 0.3:
            if dup_ok and rng.random() < 0.15:
                n["id"] = rng.choice(ID_POOL)
            elif ids_left:
                n["id"] = ids_left.pop(rng.randrange(len(ids_left)))
    return node


def flat(node, out):
    for k in node["kids"]:
        flat(k, out)
    node["ix"] = len(out)
    out.append(node)
    return out


def to_qml(root):
    lines = ["import qmluic.QtWidgets"]

    def emit(n, ind):
        lines.append("%s%s {" % (ind, n["cls"]))
        if n["id"]:
            lines.append("%s  id: %s" % (ind, n["id"]))
        lines.append('%s  toolTip: "n%d"' % (ind, n["ix"]))
        for k in n["kids"]:
            emit(k, ind + "  ")
        lines.append("%s}" % ind)
    emit(root, "")
    return "\n".join(lines)


def observe(res, nnodes):
    """names by marker, plus the oracle facts"""
    root = qml.parse_ui(res["ui"])
    names = {}
    declared = []
    refs = []
    for el in root.iter():
        if el.tag in ("widget", "action", "layout", "spacer") and el.get("name") is not None:
            declared.append((el.get("name"), el.tag, el.get("class")))
            for p in el.findall("property"):
                if p.get("name") == "toolTip":
                    m = re.match(r"n(\d+)$", (p.find("string").text or ""))
                    if m:
                        names[int(m.group(1))] = el.get("name")
        if el.tag == "addaction":
            refs.append(el.get("name"))
    return names, declared, refs


def reference_matrix(ctx, vh):
    """object-valued properties x referenced object: a reference is written into the .ui only when the referenced object is of a class the property accepts
    (a widget for buddy, an action for defaultAction / actions); anything else is diagnosed"""
    objs = {"edit": "widget", "act": "action", "lay": "layout", "menu": "widget", "inner": "widget", "sp": "spacer"}
    places = [("buddy", "QLabel { id: lbl; buddy: %s }", {"widget"}), ("actions", "QToolBar { id: bar; actions: [%s] }", {"action"}), ("actions2", "QToolBar { id: bar; actions: [act, %s] }", {"action"})]
    docs, meta = [], []
    for pname, tmpl, ok_kinds in places:
        for o, kind in objs.items():
            doc = ("import qmluic.QtWidgets\nQWidget {\n  QLineEdit { id: edit }\n  QAction { id: act }\n  QMenu { id: menu }\n"
                   "  QVBoxLayout { id: lay; QLabel { id: inner } QSpacerItem { id: sp } }\n  " + tmpl % o + "\n}\n")
            docs.append(doc)
            meta.append((pname, o, kind, kind in ok_kinds))
    res = qml.run_docs(vh, docs, mode="generate")
    for (pname, o, kind, compatible), doc, r in zip(meta, docs, res):
        ctx.count(("reference-matrix", pname, o), True)
        if not isinstance(r, dict) or "diags" not in r:
            ctx.violation("pipeline gives no result on an object reference", {"qml": doc, "impl_output": str(r)[:500]})
            continue
        accepted = r.get("ui") is not None and not any(d["kind"] == "error" for d in r["diags"])
        if accepted and not compatible:
            ctx.violation("%s: a reference to the %s `%s` is accepted and written into the form -- not an object of a class the property takes" % (pname, kind, o),
                          {"qml": doc, "impl_output": r.get("ui"), "theorem_or_correspondence": "S: references denote declared objects of a compatible class"})
        elif compatible and not accepted:
            ctx.violation("%s: a reference to the %s `%s` is rejected: %s" % (pname, kind, o, [d["msg"] for d in r["diags"]][:1]), {"qml": doc, "impl_output": r["diags"]})
        elif accepted:
            if ('<cstring>%s</cstring>' % o not in r["ui"]) and ('<addaction name="%s"/>' % o not in r["ui"]):
                ctx.violation("%s: the reference to `%s` is accepted but not in the form" % (pname, o), {"qml": doc, "impl_output": r["ui"]})
    # the same for references that are CHOSEN at run time: every branch / return of the binding has to be an object the property takes (null is one); a null between two
    # returns does not make an unrelated class acceptable
    shapes = [("ternary", "c1.checked ? %s : %s", 2), ("ternary-null", "c1.checked ? %s : c2.checked ? null : %s", 2), ("returns", "{ if (c1.checked) return %s; return %s; }", 2),
              ("returns-null-between", "{ if (c1.checked) return %s; if (c2.checked) return null; return %s; }", 2),
              ("returns-null-first", "{ if (c1.checked) return null; if (c2.checked) return %s; return %s; }", 2),
              ("returns-null-last", "{ if (c1.checked) return %s; if (c2.checked) return %s; return null; }", 2),
              ("switch", "{ switch (c1.text) { case \"a\": return %s; case \"b\": return null; default: return %s; } }", 2)]
    docs2, meta2 = [], []
    for sname, tmpl, k in shapes:
        for o1, k1 in objs.items():
            for o2, k2 in objs.items():
                doc = ("import qmluic.QtWidgets\nQWidget {\n  QCheckBox { id: c1 }\n  QCheckBox { id: c2 }\n  QLineEdit { id: edit }\n  QAction { id: act }\n  QMenu { id: menu }\n"
                       "  QVBoxLayout { id: lay; QLabel { id: inner } QSpacerItem { id: sp } }\n  QLabel { id: lbl; buddy: " + tmpl % (o1, o2) + " }\n}\n")
                docs2.append(doc)
                meta2.append((sname, o1, o2, k1 == "widget" and k2 == "widget"))
    res2 = qml.run_docs(vh, docs2, mode="generate")
    for (sname, o1, o2, compatible), doc, r in zip(meta2, docs2, res2):
        ctx.count(("reference-shapes", sname, o1, o2), True)
        if not isinstance(r, dict) or "diags" not in r:
            ctx.violation("pipeline gives no result on a chosen object reference", {"qml": doc, "impl_output": str(r)[:500]})
            continue
        accepted = r.get("ui") is not None and not any(d["kind"] == "error" for d in r["diags"])
        if accepted and not compatible:
            ctx.violation("buddy (%s): a binding that may yield `%s` or `%s` is accepted -- one of them is not an object of a class the property takes" % (sname, o1, o2),
                          {"qml": doc, "impl_output": r.get("header"), "theorem_or_correspondence": "S: references denote declared objects of a compatible class"})
        ctx.dist("chosen-reference-%s-%s" % ("compatible" if compatible else "incompatible", "accepted" if accepted else "refused"))   # two unrelated widget classes have no common type: refused, which is safe
    ctx.coverage["reference_matrix"] = len(meta) + len(meta2)


def header_references(ctx, vh, rng):
    """across both outputs: every object the support header reaches through ui_-><name> is declared under that name in the .ui (uic makes a member only for a declared
    widget, layout, spacer or action); documents with dynamic bindings and handlers on every kind of object, separators with run-time properties among them"""
    from . import uigenk as U
    import os
    os.environ["VERIF_EXTRA_METATYPES"] = ""
    docs = []
    for i in range(400 if ctx.tier == "thorough" else 60):
        g = U.Gen(rng, clean=True, p_dyn=rng.choice([0.2, 0.4]), p_handler=0.3)
        docs.append(U.render(g.document()))
        ctx.dist("header-references-generated")
    acts = ["separator: true; visible: srcB.checked", "separator: true; text: srcS.text", "separator: true; enabled: srcB.checked; toolTip: srcS.text", "separator: srcB.checked",
            "separator: true; visible: false", "separator: true", "separator: true; onTriggered: srcS.clear()", "separator: false; text: srcS.text", "text: srcS.text; checkable: true",
            "separator: true; checkable: true; visible: srcB.checked"]
    # objects that carry an id and are used from elsewhere, declared below a parent that holds no children (a spacer, an action): whatever is done with the
    # document, a name that is used is a name that is declared
    for inner in ("QVBoxLayout { QSpacerItem { QLineEdit { id: nameEdit; onReturnPressed: srcS.clear() } } QLabel { buddy: nameEdit; text: nameEdit.text } }",
                  "QVBoxLayout { QSpacerItem { QLineEdit { id: nameEdit } } QLabel { text: nameEdit.text } }",
                  "QAction { id: holder; QLineEdit { id: nameEdit } }\n  QLabel { text: nameEdit.text }",
                  "QVBoxLayout { QSpacerItem { QCheckBox { id: inner } } QLabel { enabled: inner.checked } }"):
        docs.append("import qmluic.QtWidgets\nQWidget {\n  QLineEdit { id: srcS }\n  %s\n}\n" % inner)
        ctx.dist("header-references-below-leaf-kinds")
    for a in acts:
        for lst in (False, True):
            docs.append("import qmluic.QtWidgets\nQMainWindow {\n  QLineEdit { id: srcS }\n  QCheckBox { id: srcB }\n  QAction { id: other; text: \"o\" }\n  QAction {\n    id: sep\n    %s\n  }\n"
                        "  QToolBar {\n    id: bar\n%s  }\n}\n" % (a.replace("; ", "\n    "), "    actions: [other, sep, other]\n" if lst else "    QAction { %s }\n" % a))
            ctx.dist("header-references-actions")
    # names of EVERY element kind share one space (uic makes one member per widget, layout, spacer and action): ids of spacers, layouts and actions that equal another id
    # or the name generated for an id-less object
    for inner in ('QVBoxLayout { QLabel { id: gap; text: "x" } QSpacerItem { id: gap } }', "QVBoxLayout { QLabel { } QSpacerItem { id: label } QSpacerItem { id: spacerItem } QSpacerItem { } }",
                  "QVBoxLayout { id: x; QHBoxLayout { id: hboxLayout } QHBoxLayout { } QHBoxLayout { } }", "QAction { id: action1 }\n  QAction { }\n  QAction { }\n  QAction { id: action }",
                  "QVBoxLayout { QSpacerItem { id: spacerItem1 } QSpacerItem { } QSpacerItem { } }", "QVBoxLayout { id: gap; QSpacerItem { id: gap } }",
                  "QAction { id: dup }\n  QVBoxLayout { QSpacerItem { id: dup } }", "QMenu { id: menu1 }\n  QMenu { }\n  QMenu { }", "QVBoxLayout { QSpacerItem { id: srcS } }"):
        docs.append("import qmluic.QtWidgets\nQWidget {\n  QLineEdit { id: srcS }\n  %s\n}\n" % inner)
        ctx.dist("names-of-every-element-kind")
    res = qml.run_docs(vh, docs, mode="generate")
    n = 0
    for d, r in zip(docs, res):
        ctx.count(("header-references", d), True)
        if isinstance(r, dict) and r.get("ui") is not None and not any(x["kind"] == "error" for x in r.get("diags", [])):
            names = [el.get("name") for el in qml.parse_ui(r["ui"]).iter() if el.tag in ("widget", "layout", "spacer", "action") and el.get("name")]
            dups = sorted({x for x in names if names.count(x) > 1})
            if dups:
                ctx.violation("the .ui declares the name %s more than once (objects of different kinds share one name space)" % ", ".join(dups),
                              {"qml": d, "impl_output": r["ui"], "theorem_or_correspondence": "S: object names are unique"})
                continue
        if not isinstance(r, dict) or r.get("ui") is None or not r.get("header") or any(x["kind"] == "error" for x in r["diags"]):
            continue
        declared = set()
        for el in qml.parse_ui(r["ui"]).iter():
            if el.tag in ("widget", "layout", "spacer", "action") and el.get("name"):
                declared.add(el.get("name"))
        used = set(re.findall(r"\bui_->(\w+)", r["header"]))
        n += len(used)
        missing = sorted(used - declared)
        if missing:
            ctx.violation("the support header reaches %s through ui_->, which the .ui does not declare (objects declared: %d)" % (", ".join(missing), len(declared)),
                          {"qml": d, "impl_output": {"ui": r["ui"], "header": r["header"]}, "theorem_or_correspondence": "S: every reference resolves, across both outputs"})
    ctx.coverage["header_references_resolved"] = n


def run(ctx):
    ctx.proof_leg(TARGETS, PINS, k_targets=K_TARGETS)
    vh = ctx.need_harness()
    rng = ctx.rng
    if not ctx.replay:
        header_references(ctx, vh, rng)
    import os
    os.environ["VERIF_EXTRA_METATYPES"] = EXTRA
    corpus_src = [
        # F4 (fixed): prefix ending with digits
        {"cls": "QWidget", "id": None, "kids": [{"cls": c, "id": i, "kids": []} for c, i in
                                               [("QLabel", None), ("QLabel", None), ("Label1", None), ("QLabel", "label3"), ("QLabel", None), ("QLabel", None)]]},
        {"cls": "Page", "id": None, "kids": [{"cls": c, "id": i, "kids": []} for c, i in
                                            [("Page", None), ("Page1", None), ("Page", None), ("Page12", None), ("Page1", None), ("Page", "page12"), ("Page", None)]]},
    ]
    # duplicated ids in every family relation: siblings, cousins, uncle / nephew, parent / child, root / grandchild
    def N(cls, i, *kids):
        return {"cls": cls, "id": i, "kids": list(kids)}
    corpus_src += [
        N("QWidget", None, N("QLabel", "dup"), N("QLabel", "dup")),
        N("QWidget", None, N("QGroupBox", None, N("QLabel", "dup")), N("QGroupBox", None, N("QLabel", "dup"))),
        N("QWidget", None, N("QGroupBox", "dup"), N("QGroupBox", None, N("QLabel", "dup"))),
        N("QWidget", None, N("QGroupBox", None, N("QLabel", "dup")), N("QGroupBox", "dup")),
        N("QWidget", None, N("QGroupBox", "dup", N("QLabel", "dup"))),
        N("QWidget", None, N("QGroupBox", "dup", N("QFrame", None, N("QLabel", "dup")))),
        N("QWidget", "dup", N("QLabel", "dup")),
        N("QWidget", "dup", N("QGroupBox", None, N("QLabel", None), N("QLabel", "dup"))),
        N("QWidget", "dup", N("QGroupBox", "dup", N("QLabel", "dup"))),
    ]
    trees = list(corpus_src)
    n = 8000 if ctx.tier == "thorough" else 500
    for _ in range(n):
        dup_ok = rng.random() < 0.15
        trees.append(gen_tree(rng, 3, list(ID_POOL), dup_ok))
        ctx.dist("tree-dup-ids" if dup_ok else "tree")
    if ctx.replay:
        trees = [ctx.replay["case"]]
    docs = []
    flats = []
    for t in trees:
        f = flat(t, [])
        flats.append(f)
        docs.append(to_qml(t))
    impl = qml.run_docs(vh, docs)
    terms, idx = [], []
    for i, (f, r) in enumerate(zip(flats, impl)):
        anon = sum(1 for x in f if x["id"] is None)
        ctx.count(docs[i], anon >= 2)
        if not isinstance(r, dict) or "panic" in r or "crash" in r or "hang" in r:
            ctx.violation("naming the object tree panics/crashes: %r" % (r,), {"case": trees[i], "qml": docs[i], "impl_output": r})
            continue
        dups = [m.group(1) for d in r["diags"] for m in [re.match(r"duplicated object id: (.*)$", d["msg"])] if m]
        other = [d["msg"] for d in r["diags"] if not d["msg"].startswith("duplicated object id")]
        if r.get("ui") is None:
            ctx.violation("no form built", {"case": trees[i], "qml": docs[i], "impl_output": r})
            continue
        names, declared, refs = observe(r, len(f))
        # ---- S: the property on the real output
        dn = [d[0] for d in declared]
        ids = [x["id"] for x in f if x["id"]]
        if len(set(ids)) == len(ids):
            if len(set(dn)) != len(dn):
                twice = sorted(x for x in set(dn) if dn.count(x) > 1)
                ctx.violation("two objects of the .ui carry the same name: %s" % twice, {"case": trees[i], "qml": docs[i], "impl_output": dn,
                              "theorem_or_correspondence": "C10_unique / S"})
            for x in f:
                if x["id"] and names.get(x["ix"]) != x["id"]:
                    ctx.violation("id %r is not used verbatim as the object name (%r)" % (x["id"], names.get(x["ix"])), {"case": trees[i], "qml": docs[i]})
            for ref in refs:
                if ref != "separator" and dn.count(ref) != 1:
                    ctx.violation("<addaction name=%r> denotes %d declared objects" % (ref, dn.count(ref)), {"case": trees[i], "qml": docs[i], "impl_output": dn})
            if dups:
                ctx.violation("duplicate-id diagnostic without duplicate ids", {"case": trees[i], "qml": docs[i], "impl_output": r["diags"]})
        else:
            if not dups:
                ctx.violation("duplicate ids %r are not rejected" % ids, {"case": trees[i], "qml": docs[i], "impl_output": r["diags"],
                              "theorem_or_correspondence": "C10_dup_id_rejected / S"})
        if len(names) != len(f):
            continue   # an object is not represented as a named element (e.g. menu action); K compares the ones that are
        nodes = C.coq_list(["(%s, %s)" % (C.coq_bytes(x["cls"]), "None" if not x["id"] else "(Some %s)" % C.coq_bytes(x["id"])) for x in f])
        exp_names = C.coq_list([C.coq_bytes(names[k]) for k in range(len(f))])
        exp_dups = C.coq_list([C.coq_bytes(d) for d in dups])
        terms.append((nodes, "(%s, %s)" % (exp_names, exp_dups)))
        idx.append(i)
    ctx.sample({"qml": docs[0], "names": observe(impl[0], 0)[0] if isinstance(impl[0], dict) and impl[0].get("ui") else None})
    ctx.coverage["compared_with_model"] = len(terms)
    reference_matrix(ctx, vh)
    ctx.coverage["rule"] = ("object trees (depth <= 3, fan-out <= 5) over Qt and synthetic classes whose names end in digits / start with K or Q, ids drawn from a pool of "
                            "names shaped like generated ones, 15% with deliberately duplicated ids; non-trivial = at least two anonymous objects; distinct by document")
    if not ctx.model_ok:
        return
    pre = "Definition bl_eqb := list_eqb (list_eqb N.eqb).\n"
    pre = ("Fixpoint list_eqb {A} (e : A -> A -> bool) (a b : list A) : bool := match a, b with [] , [] => true | x :: r, y :: s => e x y && list_eqb e r s | _, _ => false end.\n" + pre)
    eqf = "(fun (m : res (list (list N)) * list (list N)) (e : list (list N) * list (list N)) => match fst m with Ok l => bl_eqb l (fst e) && bl_eqb (snd m) (snd e) | _ => false end)"
    ty = "list (list N * option (list N)) * (list (list N) * list (list N))"
    bad = C.coq_eval_mismatches("c10", HEADER + "\n" + pre, terms, eqf, "names_case", ty, shard_size=80)
    ctx.coverage["disagreements_model"] = len(bad)
    if bad and not ctx.violations:
        j = bad[0]
        mo = C.coq_eval_terms("c10_model", HEADER, ["let r := names_case %s in (match fst r with Ok l => Some (map string_of_bytes l) | _ => None end, map string_of_bytes (snd r))" % terms[j][0]])
        ctx.broke("K", "objtree.rs/qtname.rs vs model/Names.v", "model and implementation differ on %d documents; first:\n%s\nmodel=%s\nimpl names=%s"
                  % (len(bad), docs[idx[j]], mo[0][:1500], observe(impl[idx[j]], 0)[0]))

"""G-sem: type-directed generator of binding and handler programs inside the fragment model/Sem.v gives a meaning to
(bool / int / uint / QString / VObj* values; property reads through named objects, `this`, and pointer chains; methods compute /
flag / label / child; arithmetic, bitwise, shift, comparison, logical, ternary, casts, Math.max/min; let / const, assignment,
if / else, switch with fall-through and break, return; property writes, method calls and console.* in handlers).
Programs are the AST tuples of vlib/prog.py (so its QML and Coq printers apply).  Value bodies return on every path."""
from . import prog

OBJS = ["a", "b", "sub"]
STRS = ["", "a", "hello", "x y", "é", "あ", "q\"r", "%1", "l1\u0085l2", "csi\u009b1m", "\u00a0", "\u0080"]     # C1 controls: two bytes in UTF-8, one code unit in UTF-16
PROP = {"bool": "b", "int": "i", "uint": "u", "string": "s", "vobj": "next", "double": "d"}
ANNOT = {"bool": ["bool"], "int": ["int"], "uint": ["uint"], "string": ["QString"], "vobj": ["VObj"], "double": ["double"]}
# short spellings and constants that need all 17 significant digits to be told apart from their neighbours
FLOAT_LITS = ["0.0", "0.5", "1.5", "2.0", "0.1", "1e10", "2.5e-3", "100.0", "0.30000000000000004", "0.3333333333333333", "2251799813685249.5", "1.7976931348623157e308",
              "0.1000000000000000055", "9007199254740993.0"]


class Gen:
    def __init__(self, rng, max_depth=3, handler=False):
        self.rng = rng
        self.max_depth = max_depth
        self.handler = handler
        self.scopes = [[]]
        self.n = 0
        self.in_switch = 0
        self.clause_scope = []   # depths (len(self.scopes)) that are switch clauses: all clauses of a switch share ONE scope in the language
        self.hidden = set()      # names that may not be mentioned right now (the initialiser of their own shadowing declaration, the other clauses of its switch)
        self.shadows = 0

    def pick(self, xs):
        return xs[self.rng.randrange(len(xs))]

    def chance(self, p):
        return self.rng.random() < p

    def visible(self):
        """name -> (type, kind, initialised): the innermost declaration wins"""
        out = {}
        for sc in self.scopes:
            for (n, t, k, init) in sc:
                out[n] = (t, k, init)
        for n in self.hidden:
            out.pop(n, None)
        return out

    def locals_of(self, ty, assignable=False):
        return [n for n, (t, k, init) in self.visible().items() if t == ty and init and (not assignable or k == "let")]

    def obj(self, d):
        r = self.rng.random()
        if r < 0.5:
            return ("ident", self.pick(["a", "b"]))
        if r < 0.6:
            return ("this",)
        if r < 0.85:
            return ("member", ("ident", self.pick(OBJS)), "next")
        if r < 0.93:
            return ("call", ("member", ("ident", self.pick(["a", "b"])), "child"), [])
        ls = self.locals_of("vobj")
        return ("ident", self.pick(ls)) if ls else ("ident", "a")

    def prop(self, ty, d):
        if self.chance(0.1) and ty != "bool":
            return ("ident", PROP[ty])            # implicit this.<property> (not `b`: that name is an object)
        if self.chance(0.15):
            return ("member", ("ident", "sub"), PROP[ty])
        return ("member", self.obj(d), PROP[ty])

    def lit(self, ty):
        if ty == "bool":
            return ("bool", self.chance(0.5))
        if ty in ("int", "uint"):
            return ("int", self.pick([0, 1, 2, 3, 5, 7, 8, 16, 31, 40, 100]))
        if ty == "string":
            return ("str", self.pick(STRS))
        if ty == "double":
            return ("float", self.pick(FLOAT_LITS))
        return ("null",)

    def expr(self, ty, d=0):
        ls = self.locals_of(ty)
        if ls and self.chance(0.25):
            return ("ident", self.pick(ls))
        leaf = d >= self.max_depth or self.chance(0.2 + 0.15 * d)
        r = self.rng.random()
        if ty in ("bool", "double", "int") and not leaf and self.chance(0.07):
            # an unsigned operand combined with a bare literal stays unsigned: the result is then used where signed and unsigned arithmetic differ (division, remainder,
            # shift right, comparison, conversion to double / int) -- values of 2^31 and above are ordinary uint values
            u = ("binary", self.pick(["+", "*", "|", "-"]), self.prop("uint", d + 1), ("int", self.pick([1, 2, 3, 16])))
            if self.chance(0.5):
                u = ("binary", u[1], u[3], u[2]) if u[1] in ("+", "*", "|") else u
            if self.chance(0.5):
                u = ("binary", self.pick(["/", "%", ">>"]), u, ("int", self.pick([1, 2, 3, 7])))
            if ty == "bool":
                return ("binary", self.pick(["<", ">", "<=", ">=", "=="]), u, ("int", self.pick([0, 5, 100, 40])))
            return ("as", u, ["double"] if ty == "double" else ["int"])
        if ty == "bool":
            if leaf:
                return self.pick([self.lit("bool"), self.prop("bool", d), self.prop("bool", d), ("call", ("member", self.obj(d), "flag"), [])])
            if r < 0.2:
                return ("unary", "!", self.expr("bool", d + 1))
            if r < 0.45:
                return ("binary", self.pick(["&&", "||"]), self.expr("bool", d + 1), self.expr("bool", d + 1))
            if r < 0.85:
                t = self.pick(["int", "int", "uint", "string", "bool", "double"])
                op = self.pick(["==", "!=", "<", "<=", ">", ">="]) if t != "bool" else self.pick(["==", "!="])
                if t == "double":
                    return ("binary", op, self.expr("double", d + 1), self.expr("double", d + 1))
                return ("binary", op, self.operand(t, d + 1), self.operand(t, d + 1))
            if r < 0.92:
                return ("binary", self.pick(["==", "!="]), self.expr("vobj", d + 1), self.pick([("null",), self.expr("vobj", d + 1)]))
            return ("ternary", self.expr("bool", d + 1), self.expr("bool", d + 1), self.expr("bool", d + 1))
        if ty in ("int", "uint"):
            if leaf:
                return self.pick([self.prop(ty, d), self.prop(ty, d), self.lit(ty)] + ([("call", ("member", self.obj(d), "compute"), [self.operand("int", d + 1)])] if ty == "int" else []))
            if r < 0.12 and ty == "int":
                # a sub-expression folded at translation time next to a run-time operand (negative dividends included)
                k = ("int", self.pick([1, 2, 3, 5, 7, 9, 16, 100]))
                if self.chance(0.6):
                    k = ("unary", "-", k)
                c = ("binary", self.pick(["/", "%", "/", "%", "+", "-", "*"]), k, ("int", self.pick([1, 2, 3, 4, 7])))
                return ("binary", self.pick(["+", "-", "&", "|"]), self.typed(ty, d + 1), c)
            if r < 0.5:
                op = self.pick(["+", "-", "*", "+", "-", "/", "%", "&", "|", "^"])
                return ("binary", op, self.operand(ty, d + 1), self.operand(ty, d + 1))
            if r < 0.6:
                # the left operand of a shift is never a bare literal: in C++ the result of `16 << u` has the type of the LEFT operand (int), while qmluic types the
                # literal after the other operand -- outside what docs/language.md settles, so not generated
                return ("binary", self.pick(["<<", ">>"]), self.typed(ty, d + 1), self.pick([("int", self.pick([0, 1, 2, 5, 31, 33])), self.operand(ty, d + 1)]))
            if r < 0.7:
                return ("unary", self.pick(["-", "~", "+"]), self.typed(ty, d + 1))
            if r < 0.8:
                return ("ternary", self.expr("bool", d + 1), self.typed(ty, d + 1), self.typed(ty, d + 1))
            if r < 0.86:
                other = "uint" if ty == "int" else "int"
                return ("as", self.typed(other, d + 1), [ty])
            if r < 0.9:
                return ("as", self.expr("double", d + 1), [ty])          # truncation toward zero; out of range: undefined
            return ("call", ("member", ("ident", "Math"), self.pick(["max", "min"])), [self.typed(ty, d + 1), self.typed(ty, d + 1)])
        if ty == "string":
            if leaf:
                return self.pick([self.prop("string", d), self.lit("string"), ("call", ("member", self.obj(d), "label"), [])])
            if r < 0.7:
                return ("binary", "+", self.expr("string", d + 1), self.expr("string", d + 1))
            return ("ternary", self.expr("bool", d + 1), self.expr("string", d + 1), self.expr("string", d + 1))
        if ty == "double":
            # IEEE-754 binary64: every operator is total (division by zero gives an infinity or a NaN); % is finding F7 and not generated
            if leaf:
                return self.pick([self.prop("double", d), self.prop("double", d), self.lit("double")])
            if self.chance(0.06):
                # Math.max / Math.min of two CONSTANTS (a NaN or an infinity obtained by folding among them) next to a run-time operand: whether it is computed at
                # translation time or at run time, it is the same number
                F = lambda t: ("float", t)
                csts = [("binary", "/", F("0.0"), F("0.0")), F("1.0"), F("2.5"), ("binary", "*", F("1e308"), F("10.0")), ("unary", "-", F("0.0")), F("0.0"), ("unary", "-", F("2.5"))]
                first = csts[0] if self.chance(0.4) else self.pick(csts)
                call = ("call", ("member", ("ident", "Math"), self.pick(["max", "min"])), [first, self.pick(csts)])
                return ("binary", self.pick(["+", "*"]), call, self.prop("double", d + 1))
            if r < 0.55:
                return ("binary", self.pick(["+", "-", "*", "/", "/"]), self.expr("double", d + 1), self.expr("double", d + 1))
            if r < 0.65:
                return ("unary", self.pick(["-", "+"]), self.expr("double", d + 1))
            if r < 0.75:
                return ("ternary", self.expr("bool", d + 1), self.expr("double", d + 1), self.expr("double", d + 1))
            if r < 0.9:
                return ("as", self.typed(self.pick(["int", "uint"]), d + 1), ["double"])
            return ("call", ("member", ("ident", "Math"), self.pick(["max", "min"])), [self.expr("double", d + 1), self.expr("double", d + 1)])
        if ty == "vobj":
            if leaf or r < 0.7:
                return self.obj(d)
            return ("ternary", self.expr("bool", d + 1), self.obj(d + 1), self.obj(d + 1))
        raise KeyError(ty)

    def const_minmax(self, d):
        F = lambda t: ("float", t)
        csts = [("binary", "/", F("0.0"), F("0.0")), F("1.0"), F("2.5"), ("binary", "*", F("1e308"), F("10.0")), ("unary", "-", F("0.0")), F("0.0"), ("unary", "-", F("2.5"))]
        first = csts[0] if self.chance(0.4) else self.pick(csts)
        call = ("call", ("member", ("ident", "Math"), self.pick(["max", "min"])), [first, self.pick(csts)])
        return ("binary", self.pick(["+", "*"]), call, self.prop("double", d + 1))

    def typed(self, ty, d):
        """an expression whose type is concrete (not a bare literal): keeps literal-only subtrees out of places where C++ would pick another type"""
        e = self.expr(ty, d)
        if not has_concrete(e):
            return self.prop(ty, d)
        return e

    def operand(self, ty, d):
        """operand of a binary operator: at most one side may be a bare literal; decided by the caller through typed() when needed"""
        if ty in ("int", "uint") and self.chance(0.3):
            return self.lit(ty)
        if ty in ("int", "uint"):
            return self.typed(ty, d)
        return self.expr(ty, d)

    def fresh(self):
        self.n += 1
        return "v%d" % self.n

    # ---- statements
    def effect(self, d):
        r = self.rng.random()
        t = self.pick(["bool", "int", "uint", "string", "vobj", "double"])
        if r < 0.45:
            return ("expr", ("assign", ("member", self.obj(d), PROP[t]), self.typed(t, d + 1) if t in ("int", "uint") else self.expr(t, d + 1)))
        if r < 0.65:
            return ("expr", ("call", ("member", self.obj(d), "act"), [self.operand("int", d + 1)]))
        if r < 0.85:
            n = self.rng.randrange(1, 3)
            return ("expr", ("call", ("member", ("ident", "console"), self.pick(["log", "info", "warn", "error", "debug"])),
                             [self.typed(self.pick(["bool", "int", "uint", "string", "double"]), d + 1) for _ in range(n)]))
        ls = [n for n, (tt, k, init) in self.visible().items() if k == "let"]
        if ls:
            name = self.pick(ls)
            tt = self.visible()[name][0]
            self.mark_init(name)
            return ("expr", ("assign", ("ident", name), self.typed(tt, d + 1) if tt in ("int", "uint") else self.expr(tt, d + 1)))
        return ("expr", ("call", ("member", ("ident", "a"), "act"), [("int", 1)]))

    def mark_init(self, name):
        for sc in reversed(self.scopes):
            for k, (n, t, kind, init) in reversed(list(enumerate(sc))):
                if n == name:
                    sc[k] = (n, t, kind, True)
                    return

    def shadow_name(self):
        """a visible name of an ENCLOSING scope to declare again (never one of the current scope: that is a redeclaration; never a handler parameter
        at the top level of the function body, for the same reason)"""
        here = {n for (n, t, k, init) in self.scopes[-1]}
        outer = self.scopes[:-1]
        if len(self.scopes) == 2:
            outer = []
        names = [n for sc in outer for (n, t, k, init) in sc if n not in here and n not in self.hidden]
        return self.pick(names) if names else None

    def decl(self, d):
        t = self.pick(["bool", "int", "uint", "string", "vobj", "int", "double"])
        name = self.shadow_name() if (self.chance(0.3) and not self.clause_scope[-1:] == [len(self.scopes)]) else None
        if name is None:
            name = self.fresh()
            init = self.typed(t, d + 1) if t in ("int", "uint") else self.expr(t, d + 1)
        else:
            # `let x = <x>` reads the NEW x before its initialisation: the initialiser does not mention the name
            self.shadows += 1
            self.hidden.add(name)
            init = self.typed(t, d + 1) if t in ("int", "uint") else self.expr(t, d + 1)
            self.hidden.discard(name)
        kind = self.pick(["let", "const"])
        annotated = self.chance(0.5) or t == "uint"
        vars_ = [(name, ANNOT[t] if annotated else None, init)]
        self.scopes[-1].append((name, t, kind, True))
        # several declarators in ONE statement: each name is in scope for the initialisers that follow it (`let a = x, b = a + 1`), also when it hides an outer name
        while self.chance(0.3) and len(vars_) < 3:
            n2 = self.fresh()
            if self.chance(0.6):
                t2, init2 = t, ("ident", vars_[-1][0])
            else:
                t2 = self.pick(["bool", "int", "string", "int"])
                init2 = self.typed(t2, d + 1) if t2 in ("int", "uint") else self.expr(t2, d + 1)
            vars_.append((n2, ANNOT[t2] if (t2 == "uint" or self.chance(0.3)) else None, init2))
            self.scopes[-1].append((n2, t2, kind, True))
            t = t2
            self.multi_decls = getattr(self, "multi_decls", 0) + 1
        st = ("decl", kind, vars_)
        return st

    def block(self, d, ret_ty, n=None, clause=False):
        self.scopes.append([])
        if clause:
            self.clause_scope.append(len(self.scopes))
        out = []
        for _ in range(n if n is not None else self.rng.randrange(0, 3)):
            out.append(self.stmt(d, ret_ty))
        if ret_ty is not None:
            out.append(self.closing(d, ret_ty))
        if clause:
            self.clause_scope.pop()
        self.scopes.pop()
        return out

    def closing(self, d, ret_ty):
        """a statement after which control never continues: return, or if/else resp. switch+default whose every path returns"""
        r = self.rng.random()
        if d >= self.max_depth or r < 0.5:
            return ("return", self.ret_value(ret_ty, d))
        if r < 0.8:
            return ("if", self.expr("bool", d + 1), ("block", self.block(d + 1, ret_ty)), ("block", self.block(d + 1, ret_ty)))
        return self.switch(d, ret_ty, closing=True)

    def ret_value(self, ret_ty, d):
        return self.typed(ret_ty, d + 1) if ret_ty in ("int", "uint") else self.expr(ret_ty, d + 1)

    def switch(self, d, ret_ty, closing=False):
        t = self.pick(["int", "int", "uint", "string", "bool"])
        v = self.typed(t, d + 1) if t in ("int", "uint") else self.expr(t, d + 1)
        cases = []
        self.in_switch += 1
        ncase = self.rng.randrange(0, 4)
        for k in range(ncase):
            c = self.case_label(t, d)
            cases.append((c, self.clause(d, ret_ty, closing and False)))
        default = None
        if closing:
            # every path must return: the default and every clause end in return, no break anywhere inside
            cases = [(c, self.block(d + 1, ret_ty, clause=True)) for c, _ in cases]
            default = (self.rng.randrange(0, ncase + 1), self.block(d + 1, ret_ty, clause=True))
        elif self.chance(0.6):
            default = (self.rng.randrange(0, ncase + 1), self.clause(d, ret_ty, False))
        self.in_switch -= 1
        return ("switch", v, cases, default)

    def case_label(self, t, d):
        """mostly literals; one time in five a label that takes several basic blocks to compute (?: / && / ||)"""
        r = self.rng.random()
        if r < 0.6:
            return self.lit(t)
        if r < 0.8:
            leafs = [self.lit(t), self.prop(t, self.max_depth)]
            if t == "bool" and self.chance(0.5):
                return ("binary", self.pick(["&&", "||"]), self.prop("bool", self.max_depth), self.prop("bool", self.max_depth))
            return ("ternary", self.prop("bool", self.max_depth), self.pick(leafs), self.pick(leafs)) if t not in ("int", "uint") else \
                ("ternary", self.prop("bool", self.max_depth), self.prop(t, self.max_depth), self.pick(leafs))
        return self.typed(t, d + 2) if t in ("int", "uint") else self.expr(t, d + 2)

    def clause(self, d, ret_ty, closing):
        self.scopes.append([])
        self.clause_scope.append(len(self.scopes))
        body = [self.stmt(d + 1, ret_ty) for _ in range(self.rng.randrange(0, 3))]
        self.clause_scope.pop()
        r = self.rng.random()
        if r < 0.5:
            body.append(("break", False))
        elif r < 0.65 and ret_ty is not None:
            body.append(("return", self.ret_value(ret_ty, d + 1)))
        elif r < 0.7 and ret_ty is None:
            body.append(("return", None))
        self.scopes.pop()
        return body

    def shadow_switch(self, d, ret_ty):
        """{ [if (c) {] switch (e) { case k: let x = ...; <uses of the new x> [break]  <other clauses, not mentioning x> } [}]  <use of the OUTER x> }
        -- a declaration in a switch clause is local to the switch: after it, and on the paths around it, `x` is the enclosing one"""
        vis = self.visible()
        names = [n for n, (t, k, init) in vis.items() if init]
        if not names:
            return None
        same = [n for n in names if vis[n][0] == ret_ty]
        name = self.pick(same) if same and not self.handler else self.pick(names)
        t0 = vis[name][0]
        tsw = self.pick(["int", "uint", "string", "bool"])
        v = self.typed(tsw, d + 1) if tsw in ("int", "uint") else self.expr(tsw, d + 1)
        self.shadows += 1
        self.hidden.add(name)
        t = self.pick(["bool", "int", "uint", "string", "vobj"])
        init = self.typed(t, d + 1) if t in ("int", "uint") else self.expr(t, d + 1)
        c0 = self.lit(tsw) if self.chance(0.7) else (self.typed(tsw, d + 2) if tsw in ("int", "uint") else self.expr(tsw, d + 2))
        self.in_switch += 1
        others = []
        for _ in range(self.rng.randrange(0, 3)):
            c = self.lit(tsw) if self.chance(0.7) else (self.typed(tsw, d + 2) if tsw in ("int", "uint") else self.expr(tsw, d + 2))
            others.append((c, self.clause(d, None, False) if ret_ty is None else self.clause(d, ret_ty, False)))
        default = None
        if self.chance(0.5):
            default = (self.rng.randrange(0, len(others) + 2), self.clause(d, ret_ty, False))
        self.hidden.discard(name)
        kind = self.pick(["let", "const"])
        self.scopes.append([(name, t, kind, True)])
        self.clause_scope.append(len(self.scopes))
        first = [("decl", kind, [(name, ANNOT[t] if (t == "uint" or self.chance(0.5)) else None, init)])]
        if self.handler:
            first.append(("expr", ("call", ("member", ("ident", "console"), "log"), [("ident", name)] if t != "vobj" else [("binary", "==", ("ident", name), ("null",))])))
        first += [self.stmt(d + 1, ret_ty) for _ in range(self.rng.randrange(0, 2))]
        if self.chance(0.6):
            first.append(("break", False))
        self.clause_scope.pop()
        self.scopes.pop()
        self.in_switch -= 1
        st = ("switch", v, [(c0, first)] + others, default)
        if self.chance(0.5):
            st = ("if", self.expr("bool", d + 1), ("block", [st]), None)
        out = [st]
        if self.handler:
            out.append(("expr", ("call", ("member", ("ident", "console"), "log"), [("ident", name)] if t0 != "vobj" else [("binary", "==", ("ident", name), ("null",))])))
            if t0 != "vobj" or True:
                out.append(("expr", ("assign", ("member", ("ident", self.pick(["a", "b"])), PROP[t0]), ("ident", name))))
        elif ret_ty == t0 and self.chance(0.8):
            out.append(("return", ("ident", name)))
        return ("block", out)

    def alias_block(self, d):
        """const c = v; v = ...; use of c and v -- a const initialised from a variable keeps the OLD value"""
        cands = [(n, t) for n, (t, k, init) in self.visible().items() if k == "let" and init and t in ("int", "uint", "string", "bool")]
        if not cands:
            return None
        v, t = self.pick(cands)
        c = self.fresh()
        newv = self.typed(t, d + 1) if t in ("int", "uint") else self.expr(t, d + 1)
        use = [("expr", ("call", ("member", ("ident", "console"), "log"), [("ident", c), ("ident", v)]))]
        if self.handler:
            use.append(("expr", ("assign", ("member", ("ident", self.pick(["a", "b"])), PROP[t]), ("ident", c))))
        return ("block", [("decl", "const", [(c, None, ("ident", v))]), ("expr", ("assign", ("ident", v), newv))] + use)

    def shadow_multi_block(self, d, ret_ty):
        """{ let x = <new value>, y = <uses x>; use y } inside the scope of an OUTER x: the x read by y's initialiser is the one declared just before it in the same statement"""
        cands = [(n, t) for n, (t, k, init) in self.visible().items() if init and t in ("int", "string", "bool", "double") and n not in self.hidden]
        if ret_ty is not None and not self.handler:
            cands = [c for c in cands if c[1] == ret_ty] or cands
        if not cands:
            return None
        x, t = self.pick(cands)
        self.hidden.add(x)
        init = self.typed(t, d + 1) if t == "int" else self.expr(t, d + 1)
        self.hidden.discard(x)
        y = self.fresh()
        use_x = {"int": ("binary", self.pick(["+", "-", "*"]), ("ident", x), ("int", self.rng.randrange(1, 9))), "string": ("binary", "+", ("ident", x), ("str", "!")),
                 "bool": ("unary", "!", ("ident", x)), "double": ("binary", self.pick(["+", "*"]), ("ident", x), ("float", "2.5"))}[t]
        kind = self.pick(["let", "const"])
        vars_ = [(x, None, init), (y, None, use_x)]
        if self.chance(0.3):
            z = self.fresh()
            vars_.append((z, None, ("ident", y)))
            y = z
        out = [("decl", kind, vars_)]
        self.multi_decls = getattr(self, "multi_decls", 0) + 1
        if self.handler:
            out.append(("expr", ("call", ("member", ("ident", "console"), "log"), [("ident", y)])))
            out.append(("expr", ("assign", ("member", ("ident", self.pick(["a", "b"])), PROP[t]), ("ident", y))))
        elif ret_ty == t:
            out.append(("return", ("ident", y)))
        return ("block", out)

    def reread_block(self, d):
        """the same property read before and after a slot call that changes it (straight-line code, one basic block): the second read is a NEW read"""
        o = self.pick(["a", "b", "sub"])
        y = self.pick([x for x in ("a", "b") if x != o] or ["a"])
        rd = lambda: ("binary", self.pick(["==", "!="]), ("member", ("ident", o), "next"), ("null",))
        log = lambda: ("expr", ("call", ("member", ("ident", "console"), "log"), [rd()]))
        return ("block", [log(), ("expr", ("call", ("member", ("ident", o), "setNext"), [("ident", y)])), log(),
                          ("expr", ("call", ("member", ("ident", o), "setNext"), [("null",)])), log()])

    def stmt(self, d, ret_ty):
        r = self.rng.random()
        if r < 0.04 and self.handler:
            return self.reread_block(d)
        if r < 0.08 and self.handler:
            ab = self.alias_block(d)
            if ab is not None:
                return ab
        if 0.08 <= r < 0.14 and d < self.max_depth:
            ss = self.shadow_switch(d, ret_ty)
            if ss is not None:
                return ss
        if 0.14 <= r < 0.19:
            sm = self.shadow_multi_block(d, ret_ty)
            if sm is not None:
                return sm
        if r < 0.3:
            return self.decl(d)
        if r < 0.45 and d < self.max_depth:
            # now and then the condition is a CONSTANT (a literal, or something the translator folds): the branch taken is the one the constant selects, else included
            cnd = self.pick([("bool", False), ("bool", True), ("binary", ">", ("int", 1), ("int", 2)), ("unary", "!", ("bool", True)), ("binary", "==", ("str", "a"), ("str", "b")),
                             ("binary", "<", ("int", 1), ("int", 2))]) if self.chance(0.12) else self.expr("bool", d + 1)
            return ("if", cnd, ("block", self.block(d + 1, None if ret_ty is None else None, n=self.rng.randrange(0, 3)) if ret_ty is None else self.maybe_return_block(d + 1, ret_ty)),
                    None if self.chance(0.5) else ("block", self.block(d + 1, None, n=self.rng.randrange(0, 3)) if ret_ty is None else self.maybe_return_block(d + 1, ret_ty)))
        if r < 0.55 and d < self.max_depth:
            return self.switch(d, ret_ty)
        if self.handler:
            if r < 0.95:
                return self.effect(d)
            return ("if", self.expr("bool", d + 1), ("block", [("return", None)]), None)
        # bindings: statements without effect on the world
        ls = [n for n, (tt, k, init) in self.visible().items() if k == "let"]
        if ls:
            name = self.pick(ls)
            tt = self.visible()[name][0]
            return ("expr", ("assign", ("ident", name), self.typed(tt, d + 1) if tt in ("int", "uint") else self.expr(tt, d + 1)))
        return self.decl(d)

    def maybe_return_block(self, d, ret_ty):
        self.scopes.append([])
        out = [self.stmt(d, ret_ty) for _ in range(self.rng.randrange(0, 2))]
        if self.chance(0.4):
            out.append(("return", self.ret_value(ret_ty, d)))
        self.scopes.pop()
        return out

    def binding(self):
        t = self.pick(["bool", "int", "int", "uint", "string", "vobj", "double"])
        if self.chance(0.06):
            # the usual NaN test on a local: r != r (true exactly for a NaN); 0.0 / 0.0 and inf - inf reach it through the worlds
            t = self.pick(["double", "bool", "int", "string"])
            num, den = self.prop("double", 1), self.prop("double", 1)
            test = ("binary", self.pick(["!=", "==", "!=", "<", ">="]), ("ident", "r"), ("ident", "r"))
            tail = {"double": ("ternary", test, ("unary", "-", ("float", "1.0")), ("ident", "r")), "bool": test,
                    "int": ("ternary", test, ("int", 1), ("int", 2)), "string": ("ternary", test, ("str", "n/a"), ("str", "ok"))}[t]
            return ("binding_block", [("decl", "let", [("r", None, ("binary", self.pick(["/", "-", "*"]), num, den))]), ("return", tail)]), t
        if self.chance(0.05):
            # a switch whose clauses accumulate into one variable and FALL THROUGH (few breaks), the default clause anywhere: the order of the bodies is the source order
            t = self.pick(["int", "string"])
            lit0 = ("int", 0) if t == "int" else ("str", "")
            upd = (lambda k: ("binary", "+", ("binary", "*", ("ident", "acc"), ("int", 10)), ("int", k))) if t == "int" else (lambda k: ("binary", "+", ("ident", "acc"), ("str", str(k))))
            n = self.rng.randrange(2, 5)
            clauses = []
            for k in range(1, n + 1):
                body = [("expr", ("assign", ("ident", "acc"), upd(k)))]
                if self.chance(0.3):
                    body.append(("break", False))
                clauses.append((("int", k), body))
            dbody = [("expr", ("assign", ("ident", "acc"), upd(9)))] + ([("break", False)] if self.chance(0.25) else [])
            default = (self.rng.randrange(0, n + 1), dbody) if self.chance(0.85) else None
            sw = ("switch", ("binary", "&", self.prop("int", 1), ("int", 7)), clauses, default)
            return ("binding_block", [("decl", "let", [("acc", None, lit0)]), sw, ("return", ("ident", "acc"))]), t
        if self.chance(0.04):
            return ("binding_expr", self.const_minmax(0)), "double"
        if self.chance(0.05):
            # a variable that holds a constant first and is then re-assigned from a property: the returned value is the LATER one (straight-line code, one block)
            t = self.pick(["int", "string", "double", "bool"])
            c0 = self.lit(t)
            upd = {"int": ("binary", self.pick(["+", "-", "*"]), ("ident", "acc"), self.prop("int", 1)), "string": ("binary", "+", ("ident", "acc"), self.prop("string", 1)),
                   "double": ("binary", self.pick(["+", "*"]), ("ident", "acc"), self.prop("double", 1)), "bool": self.prop("bool", 1)}[t]
            body = [("decl", "let", [("acc", ANNOT[t] if self.chance(0.3) else None, c0)])]
            if self.chance(0.3):
                body.append(("decl", "const", [("keep", None, ("ident", "acc"))]))
            body.append(("expr", ("assign", ("ident", "acc"), upd)))
            body.append(("return", ("ident", "acc")))
            self.reassigned_consts = getattr(self, "reassigned_consts", 0) + 1
            return ("binding_block", body), t
        if self.chance(0.45):
            e = self.typed(t, 0) if t in ("int", "uint") else self.expr(t, 0)
            return ("binding_expr", e), t
        if self.chance(0.15):
            # let x = ...; [if (c) {] switch (...) { case k: let x = ...; ... } [}] return x;
            self.scopes.append([])
            name = self.fresh()
            init = self.typed(t, 1) if t in ("int", "uint") else self.expr(t, 1)
            self.scopes[-1].append((name, t, "let", True))
            out = [("decl", "let", [(name, ANNOT[t] if (t == "uint" or self.chance(0.5)) else None, init)])]
            out += [self.stmt(0, t) for _ in range(self.rng.randrange(0, 2))]
            out.append(self.shadow_switch(0, t))
            out.append(("return", ("ident", name)) if self.chance(0.5) else self.closing(0, t))
            self.scopes.pop()
            return ("binding_block", out), t
        if self.chance(0.1):
            # let v = ...; const c = v; [if (k)] { v = ... } return c;   -- a const initialised from a variable keeps the OLD value
            self.scopes.append([])
            v, c = self.fresh(), self.fresh()
            e1 = self.typed(t, 1) if t in ("int", "uint") else self.expr(t, 1)
            self.scopes[-1].append((v, t, "let", True))
            e2 = self.typed(t, 1) if t in ("int", "uint") else self.expr(t, 1)
            re_assign = ("expr", ("assign", ("ident", v), e2))
            if self.chance(0.5):
                re_assign = ("if", self.expr("bool", 1), ("block", [re_assign]), None)
            self.scopes[-1].append((c, t, "const", True))
            out = [("decl", "let", [(v, ANNOT[t] if (t == "uint" or self.chance(0.5)) else None, e1)]),
                   ("decl", "const", [(c, None, ("ident", v))]), re_assign,
                   ("return", ("ident", c)) if self.chance(0.6) else self.closing(0, t)]
            self.scopes.pop()
            return ("binding_block", out), t
        return ("binding_block", self.block(0, t, n=self.rng.randrange(0, 3))), t

    def handler_program(self):
        self.handler = True
        r = self.rng.random()
        if r < 0.5:
            return ("binding_block", self.block(0, None, n=self.rng.randrange(1, 5))), ()
        params = []
        sig = self.pick([("int",), ("bool",), ("string",), ("int", "string"), ("int", "string"), (), ("double",)])
        take = self.rng.randrange(0, len(sig) + 1)
        for t in sig[:take]:
            n = self.fresh()
            params.append((n, ANNOT[t]))
            self.scopes[0].append((n, t, "let", True))
        body = self.block(0, None, n=self.rng.randrange(1, 5))
        return ("callback_func", params, body, False, False), sig


def has_concrete(e):
    """does the expression contain anything but integer literals and operators on them?"""
    k = e[0]
    if k == "int":
        return False
    if k in ("unary",):
        return has_concrete(e[2])
    if k == "binary":
        return has_concrete(e[2]) or has_concrete(e[3])
    if k == "ternary":
        return has_concrete(e[2]) or has_concrete(e[3])
    return True


# ---------------------------------------------------------------- total bindings for histories (C02)
class TotalGen:
    """bindings that are defined in EVERY world: pointer chains are guarded against null, int arithmetic is bitwise only (no overflow), no division / shifts;
    only property reads (no method results, no this): what the notify signals can keep current"""
    def __init__(self, rng, max_depth=3):
        self.rng = rng
        self.max_depth = max_depth
        self.n = 0

    def pick(self, xs):
        return xs[self.rng.randrange(len(xs))]

    def path(self):
        """(expression of a VObj* that is never dereferenced while null, guard conditions)"""
        base = ("ident", self.pick(OBJS))
        k = self.pick([0, 0, 1, 1, 2])
        guards = []
        e = base
        for _ in range(k):
            e = ("member", e, "next")
            guards.append(("binary", "!=", e, ("null",)))
        if k == 0 and self.rng.random() < 0.2:
            c = ("member", ("ident", self.pick(["a", "b"])), "b")
            return ("ternary", c, ("ident", "a"), ("ident", "b")), []
        return e, guards

    def default(self, ty):
        return {"bool": ("bool", False), "int": ("member", ("ident", "sub"), "i"), "uint": ("member", ("ident", "sub"), "u"), "string": ("str", "none"), "vobj": ("null",),
                "double": ("member", ("ident", "sub"), "d")}[ty]

    def read(self, ty):
        p, guards = self.path()
        r = ("member", p, PROP[ty])
        if not guards:
            return r
        c = guards[0]
        for g in guards[1:]:
            c = ("binary", "&&", c, g)
        d = self.default(ty)
        if ty == "vobj":
            d = ("ident", "sub")
        return ("ternary", c, r, d)

    def expr(self, ty, d=0):
        leaf = d >= self.max_depth or self.rng.random() < 0.3 + 0.15 * d
        r = self.rng.random()
        if leaf:
            return self.read(ty)
        if ty == "bool":
            if r < 0.3:
                return ("unary", "!", self.expr("bool", d + 1))
            if r < 0.6:
                return ("binary", self.pick(["&&", "||"]), self.expr("bool", d + 1), self.expr("bool", d + 1))
            t = self.pick(["int", "uint", "string", "double"])
            return ("binary", self.pick(["==", "!=", "<", ">="]), self.expr(t, d + 1), self.expr(t, d + 1))
        if ty == "double":
            if r < 0.65:
                return ("binary", self.pick(["+", "-", "*", "/"]), self.expr("double", d + 1), self.pick([self.expr("double", d + 1), ("float", self.pick(FLOAT_LITS))]))
            return ("ternary", self.expr("bool", d + 1), self.expr("double", d + 1), self.expr("double", d + 1))
        if ty == "int":
            if r < 0.6:
                return ("binary", self.pick(["&", "|", "^"]), self.expr("int", d + 1), self.pick([self.expr("int", d + 1), ("int", self.pick([1, 3, 255]))]))
            return ("ternary", self.expr("bool", d + 1), self.expr("int", d + 1), self.expr("int", d + 1))
        if ty == "uint":
            if r < 0.6:
                return ("binary", self.pick(["+", "-", "*", "&", "|"]), self.expr("uint", d + 1), self.pick([self.expr("uint", d + 1), ("int", self.pick([1, 2, 7]))]))
            return ("ternary", self.expr("bool", d + 1), self.expr("uint", d + 1), self.expr("uint", d + 1))
        if ty == "string":
            if r < 0.6:
                return ("binary", "+", self.expr("string", d + 1), self.pick([self.expr("string", d + 1), ("str", self.pick(STRS))]))
            return ("ternary", self.expr("bool", d + 1), self.expr("string", d + 1), self.expr("string", d + 1))
        return self.read("vobj")

    def binding(self):
        t = self.pick(["bool", "int", "uint", "string", "vobj", "int", "string", "double"])
        r = self.rng.random()
        if self.rng.random() < 0.06 and t in ("int", "string", "bool"):
            # a variable that holds a constant first and is then re-assigned from a property: the returned value is the LATER one (straight-line code, one block)
            c0 = {"int": ("int", self.pick([0, 5, 12])), "string": ("str", self.pick(STRS)), "bool": ("bool", self.rng.random() < 0.5)}[t]
            rd = ("member", ("ident", self.pick(["a", "b", "sub"])), PROP[t])
            upd = {"int": ("binary", self.pick(["|", "^", "&"]), ("ident", "acc"), rd), "string": ("binary", "+", ("ident", "acc"), rd), "bool": rd}[t]
            body = [("decl", "let", [("acc", None, c0)])]
            if self.rng.random() < 0.3:
                body.append(("decl", "const", [("keep", None, ("ident", "acc"))]))
            body += [("expr", ("assign", ("ident", "acc"), upd)), ("return", ("ident", "acc"))]
            return ("binding_block", body), t
        if self.rng.random() < 0.08 and t in ("int", "string", "bool"):
            # two objects chosen at run time, one read inside an `if` WITHOUT else, the other after it: both reads are live in one evaluation (the block after the
            # if is not an alternative to its body), so both objects stay observed
            def sel():
                return ("ternary", ("member", ("ident", self.pick(["a", "b", "sub"])), "b"), ("ident", self.pick(["a", "b"])), ("ident", self.pick(["a", "b"])))
            d0 = {"int": ("int", 0), "string": ("str", ""), "bool": ("bool", False)}[t]
            op = {"int": "^", "string": "+", "bool": "||"}[t]
            body = [("decl", "let", [("p", None, sel())]), ("decl", "let", [("w", None, sel())]), ("decl", "let", [("s", None, d0)]),
                    ("if", ("member", ("ident", self.pick(["a", "b", "sub"])), "b"), ("block", [("expr", ("assign", ("ident", "s"), ("member", ("ident", "p"), PROP[t])))]), None),
                    ("return", ("binary", op, ("ident", "s"), ("member", ("ident", "w"), PROP[t])))]
            return ("binding_block", body), t
        if r < 0.15 and t in ("int", "uint", "string", "bool"):
            # a pointer local re-pointed between two reads of the same property (both objects chosen dynamically, never null)
            def sel():
                return ("ternary", ("member", ("ident", self.pick(["a", "b", "sub"])), "b"), ("ident", self.pick(["a", "b"])), ("ident", self.pick(["a", "b"])))
            op = {"int": "&", "uint": "+", "string": "+", "bool": "&&"}[t]
            # the candidates are computed first, so that the two reads and the re-assignment in between sit in ONE basic block
            body = [("decl", "let", [("p", None, sel())]), ("decl", "let", [("q", None, sel())]),
                    ("decl", "let", [("w", None, ("ident", "p"))]), ("decl", "let", [("s", None, ("member", ("ident", "w"), PROP[t]))]),
                    ("expr", ("assign", ("ident", "w"), ("ident", "q")))]
            if self.rng.random() < 0.5:
                body.append(("expr", ("assign", ("ident", "w"), ("member", ("ident", self.pick(["a", "b"])), "next"))))
                body.append(("if", ("binary", "==", ("ident", "w"), ("null",)), ("block", [("return", ("ident", "s"))]), None))
            body.append(("return", ("binary", op, ("ident", "s"), ("member", ("ident", "w"), PROP[t]))))
            return ("binding_block", body), t
        if r < 0.6:
            return ("binding_expr", self.expr(t, 0)), t
        if r < 0.8:
            # through a local variable
            p, guards = self.path()
            body = [("decl", "let", [("p", None, p)])]
            if guards:
                c = guards[0]
                for g in guards[1:]:
                    c = ("binary", "&&", c, g)
                body = [("if", ("unary", "!", c), ("block", [("return", self.default(t) if t != "vobj" else ("ident", "sub"))]), None)] + body
            body.append(("return", ("member", ("ident", "p"), PROP[t])))
            return ("binding_block", body), t
        c = self.expr("bool", 1)
        return ("binding_block", [("if", c, ("block", [("return", self.expr(t, 1))]), ("block", [("return", self.expr(t, 1))]))]), t

"""C15 -- generate-ui writes only where it should, atomically, and only when needed.

P: props/C15.v over model/FsModel.v.
K: the real command in scratch trees vs the model: for source path shapes x option combinations, accepted/refused and the set of
   created files (model out_paths, normalised) -- evaluated in Coq on the same component lists.
S (on the real command, no model): re-run on unchanged inputs keeps inode and mtime of every output; edit/regenerate sequences
   rewrite exactly the outputs whose bytes change; strace: an output path is only ever the target of a rename, every write-type
   system call stays inside the output directory (or the source's directory without -O); kill at system-call index N
   (strace fault injection) for N over the run: every output path holds its complete old or complete new bytes.
"""
import os
import re
import shutil
import subprocess
from . import common as C

TARGETS = ["props/C15.vo"]
PINS = "pins/C15.v"
K_TARGETS = ["model/FsModel.vo"]
HEADER = """From QV Require Import model.Base model.FsModel.
Open Scope string_scope.
Fixpoint norm (acc : list string) (p : path) : list string :=
  match p with
  | [] => rev acc
  | Normal s :: r => norm (s :: acc) r
  | CurDir :: r => norm acc r
  | ParentDir :: r => norm (tl acc) r
  | RootDir :: r => norm [] r
  end.
Definition sl_eqb (a b : list string) : bool :=
  (fix go (x y : list string) := match x, y with [], [] => true | p :: r, q :: s => String.eqb p q && go r s | _, _ => false end) a b.
Fixpoint sll_eqb (a b : list (list string)) : bool := match a, b with [], [] => true | x :: r, y :: s => sl_eqb x y && sll_eqb r s | _, _ => false end.
(* case: cwd, lowercase, dynamic binding?, output dir, sources with their type names; result: accepted?, the normalised absolute output paths in order *)
Definition fs_case (c : path * bool * bool * option path * list (path * string)) : bool * list (list string) :=
  let '(cwd, lc, dyn, out, srcs) := c in
  if sources_accepted out (map fst srcs) then
    (true, flat_map (fun '(s, tn) => let '(u, h) := out_paths lc out s tn in
                                     (if is_absolute u then norm [] u else norm [] (cwd ++ u)) :: (if dyn then [if is_absolute h then norm [] h else norm [] (cwd ++ h)] else [])) srcs)
  else (false, []).
Definition fs_eqb (m e : bool * list (list string)) := Bool.eqb (fst m) (fst e) && sll_eqb (snd m) (snd e).
"""
TRUSTED = ["POSIX rename atomicity and the tempfile crate (NamedTempFile::persist) are trusted: the theorems are about the paths computed and the operations requested",
           "strace as observer and fault injector; the split of a path string into camino components is re-done in Python (vlib/c15.py comps)",
           "the CLI is built from /repo's working tree by cargo (debug profile)"]

DOC_DYN = 'import qmluic.QtWidgets\nQWidget {\n    QLineEdit { id: e }\n    QLabel { text: e.text }\n}\n'
DOC_STATIC = 'import qmluic.QtWidgets\nQWidget {\n    QLabel { text: "%s" }\n}\n'
META = ["--foreign-types", os.path.join(C.REPO, "contrib", "metatypes")]


def comps(p):
    out = []
    if p.startswith("/"):
        out.append("RootDir")
    for c in p.split("/"):
        if c == "":
            continue
        out.append("CurDir" if c == "." else "ParentDir" if c == ".." else 'Normal "%s"' % c)
    # camino drops interior "." components except a leading one
    res = []
    for i, c in enumerate(out):
        if c == "CurDir" and i > 0:
            continue
        res.append(c)
    return "[" + "; ".join(res) + "]"


def tree(root):
    out = {}
    for d, _, fs in os.walk(root):
        for f in fs:
            p = os.path.join(d, f)
            st = os.stat(p)
            out[os.path.relpath(p, root)] = (st.st_ino, st.st_mtime_ns, open(p, "rb").read())
    return out


def run_cli(cli, cwd, args, strace_log=None, inject=None):
    cmd = [cli, "generate-ui"] + META + args
    if strace_log or inject:
        pre = ["strace", "-f", "-o", strace_log or "/dev/null"]
        if inject:
            pre += ["-e", "trace=%s" % inject[0], "-e", "inject=%s:signal=KILL:when=%d" % inject]
        else:
            pre += ["-e", "trace=openat,open,creat,rename,renameat,renameat2,mkdir,mkdirat,unlink,unlinkat,link,linkat,symlink,symlinkat,truncate,ftruncate"]
        cmd = pre + cmd
    pr = subprocess.run(cmd, cwd=cwd, capture_output=True, text=True, timeout=120)
    return pr.returncode, pr.stderr


def run(ctx):
    ctx.proof_leg(TARGETS, PINS, k_targets=K_TARGETS)
    from . import c07
    cli = c07.build_cli()
    rng = ctx.rng
    work = os.path.join(C.BUILD, "c15")
    shutil.rmtree(work, ignore_errors=True)
    os.makedirs(work)
    # ---------------- K: path shapes x options ----------------
    shapes = [["A.qml"], ["./A.qml"], ["sub/B.qml"], ["sub/./B.qml"], ["./sub/deep/C.qml"], ["sub/../A.qml"], ["../outside/D.qml"], ["ABS:A.qml"],
              ["A.qml", "sub/B.qml"], ["MyDialog.qml", "sub/deep/C.qml"], ["sub/B.qml", "A.qml", "./MyDialog.qml"], ["Mixed_Case9.qml"],
              # stems with dots: the type (and output) name is the file name without its LAST extension
              ["Settings.v2.qml"], ["MyDialog.qml", "MyDialog.ui.qml"], ["sub/Pane.left.qml", "sub/B.qml"],
              # directories spelled with capitals: only the FILE name is lowercased, the directory part is kept as written
              ["Forms/MainDialog.qml"], ["Forms/Sub/X.qml", "A.qml"], ["Forms/MainDialog.qml", "forms/MainDialog.qml"], ["ABS:Forms/MainDialog.qml"],
              # one escaping or absolute source among confined ones: the whole run is refused
              ["A.qml", "../outside/D.qml"], ["../outside/D.qml", "sub/B.qml"], ["sub/B.qml", "ABS:A.qml"], ["ABS:MyDialog.qml", "A.qml", "sub/B.qml"]]
    outs = [None, "out", "out/nested/x", "./out", "ABSOUT", "../outside/o2"]
    terms, meta = [], []
    k = 0
    for shape in shapes:
        for out in outs:
            for lower in (True, False):
                for dyn in (True, False):
                    if ctx.tier != "thorough" and rng.random() < 0.5:
                        continue
                    k += 1
                    base = os.path.join(work, "k%d" % k)
                    cwd = os.path.join(base, "Proj")
                    os.makedirs(os.path.join(cwd, "sub", "deep"))
                    os.makedirs(os.path.join(cwd, "Forms", "Sub"))
                    os.makedirs(os.path.join(cwd, "forms"))
                    os.makedirs(os.path.join(base, "outside"))
                    for rel in ("A.qml", "sub/B.qml", "sub/deep/C.qml", "MyDialog.qml", "Mixed_Case9.qml", "../outside/D.qml", "Settings.v2.qml", "MyDialog.ui.qml", "sub/Pane.left.qml",
                                "Forms/MainDialog.qml", "Forms/Sub/X.qml", "forms/MainDialog.qml"):
                        open(os.path.join(cwd, rel), "w").write(DOC_DYN if dyn else DOC_STATIC % "s")
                    srcs = [s.replace("ABS:", cwd + "/") for s in shape]
                    o = out.replace("ABSOUT", os.path.join(base, "absout")) if out else None
                    args = list(srcs)
                    if o:
                        args = ["-O", o] + args
                    if not lower:
                        args = ["--no-lowercase-file-name"] + args
                    if not dyn:
                        args = ["--no-dynamic-binding"] + args
                    before = tree(base)
                    rc, err = run_cli(cli, cwd, args)
                    after = tree(base)
                    created = sorted(os.path.normpath(os.path.join(base, p)) for p in after if p not in before)
                    changed = [p for p in before if after.get(p) != before[p]]
                    ctx.count(("k", tuple(shape), out, lower, dyn), o is not None)
                    ctx.dist("accepted" if rc == 0 else "refused-or-failed")
                    rep = {"cwd_layout": "Proj/{A.qml,MyDialog.qml,Mixed_Case9.qml,sub/B.qml,sub/deep/C.qml,Forms/MainDialog.qml,Forms/Sub/X.qml,forms/MainDialog.qml}, outside/D.qml", "cli_args": ["generate-ui", "--foreign-types", "contrib/metatypes"] + args}
                    if changed:
                        ctx.violation("an existing file was modified or removed: %r" % changed, dict(rep, impl_output=err[-500:]))
                        continue
                    if o:
                        od = os.path.normpath(os.path.join(cwd, o))
                        esc = [c for c in created if not c.startswith(od + os.sep)]
                        if esc:
                            ctx.violation("a file was created outside the output directory %s: %r" % (o, esc), dict(rep, impl_output=err[-500:], theorem_or_correspondence="C15_confined / S"))
                            continue
                    if rc == 0:
                        # S: one .ui (and one support header) per source, named after the source file without its extension
                        want = []
                        for sp in srcs:
                            stem = os.path.basename(sp)[:-len(".qml")]
                            want += [stem + ".ui"] + (["uisupport_" + stem + ".h"] if dyn else [])
                        want = sorted(n.lower() if lower else n for n in want)
                        have = sorted(os.path.basename(c) for c in created)
                        if have != want:
                            ctx.violation("the run reports success but the files it created are %r; the sources call for %r" % (have, want),
                                          dict(rep, impl_output=created, oracle_output=want, theorem_or_correspondence="S: one output pair per source, named after it / C15_outputs_confined"))
                            continue
                        # ... next to its source, or under the same relative path inside the output directory (directory part exactly as written)
                        wantd = sorted(set(os.path.normpath(os.path.join(cwd, o, os.path.dirname(sp)) if o else os.path.join(cwd, os.path.dirname(sp))) for sp in srcs))
                        haved = sorted(set(os.path.dirname(c) for c in created))
                        if haved != wantd:
                            ctx.violation("the outputs were created in %r; the sources call for %r" % (haved, wantd),
                                          dict(rep, impl_output=created, oracle_output=wantd, theorem_or_correspondence="S: outputs next to the source / same relative path under -O"))
                            continue
                    exp = "(%s, %s)" % ("true" if rc == 0 else "false", C.coq_list(["[" + "; ".join('"%s"' % x for x in c.split("/") if x) + "]" for c in created_in_order(created, srcs, lower)]))
                    case = "(%s, %s, %s, %s, %s)" % (comps(cwd), "true" if lower else "false", "true" if dyn else "false", "None" if not o else "(Some %s)" % comps(o),
                                                     C.coq_list(["(%s, \"%s\")" % (comps(s), os.path.basename(s)[:-4]) for s in srcs]))
                    terms.append((case, exp))
                    meta.append((rep, rc, created))
    # ---------------- S: re-run, edit/regenerate, strace, kill ----------------
    s_rerun(ctx, cli, work)
    s_rerun_sizes(ctx, cli, work)
    s_case_twins(ctx, cli, work)
    s_edit_sequences(ctx, cli, work, rng)
    s_strace(ctx, cli, work)
    s_readonly_update(ctx, cli, work)
    s_kill(ctx, cli, work, rng)
    shutil.rmtree(work, ignore_errors=True)
    ctx.coverage["compared_with_model"] = len(terms)
    ctx.coverage["rule"] = ("23 source-argument shapes (plain, ./, nested, directories spelled with capitals, interior ., parent-escaping, outside, absolute, several sources, mixed case, dotted stems, escaping sources among confined ones) x 6 output directories "
                            "(none, relative, nested, ./, absolute, parent-escaping) x lowercase on/off x dynamic binding on/off (half sampled in the quick tier); re-run, edit "
                            "sequences, strace of write-type system calls, kill at system-call index N")
    if not ctx.model_ok:
        return
    bad = C.coq_eval_mismatches("c15", HEADER, terms, "fs_eqb", "fs_case", "(path * bool * bool * option path * list (path * string)) * (bool * list (list string))",
                                shard_size=30, scope="string_scope")
    ctx.coverage["disagreements_model"] = len(bad)
    if bad and not ctx.violations:
        j = bad[0]
        mo = C.coq_eval_terms("c15_model", HEADER, ["fs_case %s" % terms[j][0]], scope="string_scope")
        ctx.broke("K", "src/main.rs generate_ui / generate_ui_file vs model/FsModel.v", "model and command differ on %d invocations; first: %r\nexit=%d created=%r\nmodel=%s"
                  % (len(bad), meta[j][0]["cli_args"], meta[j][1], meta[j][2], mo[0][:1500]))


def created_in_order(created, srcs, lower):
    """the created files ordered as the model lists them: per source, .ui then header"""
    out = []
    rest = list(created)
    for s in srcs:
        stem = os.path.basename(s)[:-4]
        names = [stem + ".ui", "uisupport_" + stem + ".h"]
        if lower:
            names = [n.lower() for n in names]
        for n in names:
            hit = [c for c in rest if os.path.basename(c) == n]
            # choose the one whose directory matches the source's directory suffix best
            hit.sort(key=lambda c: -len(os.path.commonprefix([c[::-1], os.path.normpath(os.path.join("/", os.path.dirname(s), n))[::-1]])))
            if hit:
                out.append(hit[0])
                rest.remove(hit[0])
    return out + rest


def s_rerun(ctx, cli, work):
    for variant, args in (("next-to-source", ["A.qml", "sub/B.qml"]), ("output-dir", ["-O", "out", "A.qml", "sub/B.qml"]), ("no-lowercase", ["--no-lowercase-file-name", "A.qml"])):
        base = os.path.join(work, "rerun-" + variant)
        os.makedirs(os.path.join(base, "sub"))
        open(os.path.join(base, "A.qml"), "w").write(DOC_DYN)
        open(os.path.join(base, "sub", "B.qml"), "w").write(DOC_STATIC % "b")
        rc, err = run_cli(cli, base, args)
        t1 = tree(base)
        rc2, err2 = run_cli(cli, base, args)
        t2 = tree(base)
        ctx.count(("rerun", variant), True)
        if rc != 0 or rc2 != 0:
            ctx.violation("generate-ui fails on a valid project (%s): %s" % (variant, (err + err2)[-300:]), {"cli_args": args, "impl_output": err + err2})
        elif t1 != t2:
            diff = [p for p in t2 if t1.get(p) != t2[p]]
            ctx.violation("re-running on unchanged inputs touched %r (inode/mtime/content)" % diff, {"cli_args": args, "history": ["generate-ui", "generate-ui"], "impl_output": diff,
                                                                                                     "theorem_or_correspondence": "C15_rerun_is_silent / S"})
        outs = [p for p in t1 if p.endswith(".ui") or p.endswith(".h")]
        if len(outs) != 2 * len([a for a in args if a.endswith(".qml")]):
            ctx.violation("expected one .ui and one support header per source, found %r" % outs, {"cli_args": args, "impl_output": outs})


def s_rerun_sizes(ctx, cli, work):
    """re-run on unchanged inputs for outputs of every size class: a few hundred bytes, around and at the 4 KiB / 64 KiB / 128 KiB marks (where a buffered or block-wise
    comparison changes regime), several hundred KiB; for the .ui (one long string) and for the support header (many bindings)"""
    targets = [4095, 4096, 4097, 65535, 65536, 65537, 70000, 131072, 131073, 300000] if ctx.tier == "thorough" else [4096, 65536, 65537, 131072, 200000]
    for t in targets:
        base = os.path.join(work, "size-ui-%d" % t)
        os.makedirs(base)
        doc = lambda n: DOC_STATIC % ("x" * n)
        open(os.path.join(base, "S.qml"), "w").write(doc(10))
        rc, err = run_cli(cli, base, ["S.qml"])
        s0 = len(tree(base).get("s.ui", (0, 0, b""))[2])
        n = 10 + t - s0
        if rc != 0 or n < 0:
            continue
        open(os.path.join(base, "S.qml"), "w").write(doc(n))
        rc, err = run_cli(cli, base, ["S.qml"])
        t1 = tree(base)
        rc2, err2 = run_cli(cli, base, ["S.qml"])
        t2 = tree(base)
        ctx.count(("rerun-size", "ui", t), True)
        ctx.dist("rerun-ui-of-%d-bytes" % len(t1.get("s.ui", (0, 0, b""))[2]))
        if rc != 0 or rc2 != 0:
            ctx.violation("generate-ui fails on a valid document with a long string: %s" % (err + err2)[-300:], {"cli_args": ["S.qml"], "ui_size": t, "impl_output": err + err2})
        elif t1 != t2:
            diff = [p for p in t2 if t1.get(p) != t2[p]]
            ctx.violation("re-running on unchanged inputs touched %r (inode/mtime/content); the .ui holds %d bytes" % (diff, len(t1["s.ui"][2])),
                          {"cli_args": ["S.qml"], "qml": "DOC_STATIC with a string of %d characters" % n, "history": ["generate-ui", "generate-ui"], "impl_output": diff,
                           "theorem_or_correspondence": "C15_rerun_is_silent / S"})
    for nb in ([3, 120, 400] if ctx.tier == "thorough" else [150]):
        base = os.path.join(work, "size-h-%d" % nb)
        os.makedirs(base)
        open(os.path.join(base, "H.qml"), "w").write("import qmluic.QtWidgets\nQWidget {\n    QLineEdit { id: e }\n" + "".join("    QLabel { text: e.text + \"%d\" }\n" % i for i in range(nb)) + "}\n")
        rc, err = run_cli(cli, base, ["H.qml"])
        t1 = tree(base)
        rc2, err2 = run_cli(cli, base, ["H.qml"])
        t2 = tree(base)
        ctx.count(("rerun-size", "header", nb), True)
        ctx.dist("rerun-header-of-%d-KiB" % (len(t1.get("uisupport_h.h", (0, 0, b""))[2]) // 1024))
        if rc != 0 or rc2 != 0:
            ctx.violation("generate-ui fails on a valid document with %d bindings: %s" % (nb, (err + err2)[-300:]), {"cli_args": ["H.qml"], "impl_output": err + err2})
        elif t1 != t2:
            diff = [p for p in t2 if t1.get(p) != t2[p]]
            ctx.violation("re-running on unchanged inputs touched %r (inode/mtime/content); outputs of %r bytes" % (diff, {p: len(v[2]) for p, v in t1.items()}),
                          {"cli_args": ["H.qml"], "qml": "%d labels bound to e.text" % nb, "history": ["generate-ui", "generate-ui"], "impl_output": diff,
                           "theorem_or_correspondence": "C15_rerun_is_silent / S"})


def s_case_twins(ctx, cli, work):
    """sources whose paths differ only in letter case (two files of one directory, two directories): each gets ITS outputs, holding the translation of ITS text"""
    for variant, files, args, expect in (
            ("twin-files", {"FooBar.qml": DOC_STATIC % "first", "Foobar.qml": DOC_STATIC % "second"}, ["--no-lowercase-file-name", "FooBar.qml", "Foobar.qml"],
             {"FooBar.ui": "first", "Foobar.ui": "second"}),
            ("twin-files-one-named", {"FooBar.qml": DOC_STATIC % "first", "Foobar.qml": DOC_STATIC % "second"}, ["--no-lowercase-file-name", "FooBar.qml"], {"FooBar.ui": "first"}),
            ("twin-directories", {"ui/Form.qml": DOC_STATIC % "lower", "UI/Form.qml": DOC_STATIC % "upper"}, ["-O", "out", "ui/Form.qml", "UI/Form.qml"],
             {"out/ui/form.ui": "lower", "out/UI/form.ui": "upper"}),
            ("twin-directories-reversed", {"ui/Form.qml": DOC_STATIC % "lower", "UI/Form.qml": DOC_STATIC % "upper"}, ["-O", "out", "UI/Form.qml", "ui/Form.qml"],
             {"out/ui/form.ui": "lower", "out/UI/form.ui": "upper"})):
        base = os.path.join(work, "case-" + variant)
        for f, t in files.items():
            os.makedirs(os.path.dirname(os.path.join(base, f)) or base, exist_ok=True)
            open(os.path.join(base, f), "w").write(t)
        rc, err = run_cli(cli, base, args)
        ctx.count(("case-twins", variant), True)
        ctx.dist("case-twin-sources")
        if rc != 0:
            ctx.violation("generate-ui fails on sources whose paths differ in letter case: %s" % err[-300:], {"cli_args": args, "files": files, "impl_output": err[-600:]})
            continue
        t = tree(base)
        outs = sorted(p for p in t if p.endswith(".ui"))
        if outs != sorted(expect):
            ctx.violation("sources %r: the .ui files written are %r, expected %r" % (args, outs, sorted(expect)), {"cli_args": args, "files": files, "impl_output": outs,
                          "theorem_or_correspondence": "C15_names / S"})
            continue
        for p, title in expect.items():
            if ("<string notr=\"true\">%s</string>" % title).encode() not in t[p][2]:
                ctx.violation("%s does not hold the translation of its own source (text %r expected)" % (p, title), {"cli_args": args, "files": files, "impl_output": t[p][2].decode("utf-8", "replace")[:600]})


def s_edit_sequences(ctx, cli, work, rng):
    n = 20 if ctx.tier == "thorough" else 6
    for k in range(n):
        base = os.path.join(work, "edit%d" % k)
        os.makedirs(base)
        texts = ["a", "b"]
        hist = []
        cur = None
        prev = None
        for step in range(8):
            choice = rng.choice(["static-a", "static-b", "dyn", "dyn2", "dyn", "dyn2", "same", "error", "rm-header", "rm-ui", "toggle-no-dynamic"])
            if choice == "same" and cur is None:
                choice = "static-a"
            if choice in ("rm-header", "rm-ui", "toggle-no-dynamic") and cur is None:
                choice = "dyn"
            if choice == "rm-header":
                if os.path.exists(os.path.join(base, "uisupport_w.h")):
                    os.remove(os.path.join(base, "uisupport_w.h"))
            elif choice == "rm-ui":
                if os.path.exists(os.path.join(base, "w.ui")):
                    os.remove(os.path.join(base, "w.ui"))
            elif choice == "toggle-no-dynamic":
                # a run with --no-dynamic-binding in between (it does not produce or remove the header), then a normal run below
                open(os.path.join(base, "W.qml"), "w").write(DOC_STATIC % "t")
                run_cli(cli, base, ["--no-dynamic-binding", "W.qml"])
                cur = DOC_STATIC % "t"
            elif choice != "same":
                cur = {"static-a": DOC_STATIC % "a", "static-b": DOC_STATIC % "b", "dyn": DOC_DYN, "dyn2": DOC_DYN.replace("text: e.text", 'text: e.text + "!"'),
                       "error": DOC_STATIC.replace("text", "fooBar") % "a"}[choice]
            open(os.path.join(base, "W.qml"), "w").write(cur)
            hist.append(choice)
            before = tree(base)
            rc, err = run_cli(cli, base, ["W.qml"])
            after = tree(base)
            ctx.count(("edit", k, step), True)
            # reference: fresh generation in a clean directory
            ref = os.path.join(work, "ref%d_%d" % (k, step))
            os.makedirs(ref)
            open(os.path.join(ref, "W.qml"), "w").write(cur)
            rrc, _ = run_cli(cli, ref, ["W.qml"])
            reft = tree(ref)
            rep = {"history": list(hist), "impl_output": err[-400:]}
            for out in ("w.ui", "uisupport_w.h"):
                if rrc != 0:
                    if after.get(out) != before.get(out):
                        ctx.violation("step %d (%s): %s modified although the run failed" % (step, choice, out), rep)
                    continue
                if after.get(out, (0, 0, None))[2] != reft[out][2]:
                    ctx.violation("step %d (%s): %s does not hold the bytes a fresh generation gives" % (step, choice, out), rep)
                elif out in before and before[out][2] == reft[out][2] and before[out][:2] != after[out][:2]:
                    ctx.violation("step %d (%s): %s was rewritten although its bytes are unchanged (inode/mtime differ)" % (step, choice, out), dict(rep, theorem_or_correspondence="C15_rerun_is_silent / S"))
            shutil.rmtree(ref, ignore_errors=True)


WRITE_FLAGS = re.compile(r"O_WRONLY|O_RDWR|O_CREAT|O_TRUNC|O_APPEND")


def s_strace(ctx, cli, work):
    for variant, args, allowed in (("next-to-source", ["sub/B.qml"], "sub"), ("output-dir", ["-O", "out/x", "sub/B.qml"], "out")):
        base = os.path.join(work, "strace-" + variant)
        os.makedirs(os.path.join(base, "sub"))
        open(os.path.join(base, "sub", "B.qml"), "w").write(DOC_DYN)
        log = os.path.join(work, "strace-%s.log" % variant)
        rc, err = run_cli(cli, base, args, strace_log=log)
        ctx.count(("strace", variant), True)
        if rc != 0:
            ctx.violation("generate-ui under strace failed: %s" % err[-300:], {"cli_args": args, "impl_output": err})
            continue
        outs = {os.path.normpath(os.path.join(base, p)) for p in tree(base) if p.endswith(".ui") or p.endswith(".h")}
        allowed_dir = os.path.normpath(os.path.join(base, allowed))
        renamed = set()
        for line in open(log):
            m = re.search(r"\b(openat|open|creat)\((?:AT_FDCWD, )?\"([^\"]*)\"(?:, ([A-Z_|]+))?", line)
            if m and " = -1" not in line:
                path = os.path.normpath(os.path.join(base, m.group(2)))
                flags = m.group(3) or ("O_WRONLY" if m.group(1) == "creat" else "")
                if WRITE_FLAGS.search(flags):
                    if path in outs:
                        ctx.violation("an output path is opened for writing: %s" % line.strip(), {"cli_args": args, "impl_output": line, "theorem_or_correspondence": "C15_atomic / strace"})
                    elif not path.startswith(allowed_dir + os.sep) and not path.startswith("/dev/") and not path.startswith("/proc/"):
                        ctx.violation("a file outside the output location is opened for writing: %s" % line.strip(), {"cli_args": args, "impl_output": line})
            m = re.search(r"\b(?:rename|renameat|renameat2)\((?:AT_FDCWD, )?\"([^\"]*)\", (?:AT_FDCWD, )?\"([^\"]*)\"", line)
            if m and " = -1" not in line:
                src, dst = (os.path.normpath(os.path.join(base, x)) for x in m.groups())
                renamed.add(dst)
                if os.path.dirname(src) != os.path.dirname(dst):
                    ctx.violation("the temporary file is not in the directory of its target (rename across directories): %s" % line.strip(), {"cli_args": args, "impl_output": line})
            m = re.search(r"\b(?:unlink|unlinkat|truncate)\((?:AT_FDCWD, )?\"([^\"]*)\"", line)
            if m and " = -1" not in line and os.path.normpath(os.path.join(base, m.group(1))) in outs:
                ctx.violation("an output path is unlinked/truncated: %s" % line.strip(), {"cli_args": args, "impl_output": line})
        if renamed != outs:
            ctx.violation("outputs %r but rename targets %r" % (sorted(outs), sorted(renamed)), {"cli_args": args, "impl_output": open(log).read()[-2000:]})


def s_readonly_update(ctx, cli, work):
    """a source without write permission (a read-only checkout), its outputs already there, the source edited: the update is still one rename per output --
    nothing is unlinked first, so a kill never finds an output missing"""
    base = os.path.join(work, "readonly")
    os.makedirs(base)
    src = os.path.join(base, "Form.qml")
    open(src, "w").write(DOC_STATIC % "old title")
    os.chmod(src, 0o444)
    run_cli(cli, base, ["Form.qml"])
    for out in ("form.ui", "uisupport_form.h"):
        if os.path.exists(os.path.join(base, out)):
            os.chmod(os.path.join(base, out), 0o444)     # whatever mode the tool gave them, the checkout may be read-only as a whole
    os.chmod(src, 0o644)
    open(src, "w").write(DOC_DYN)
    os.chmod(src, 0o444)
    log = os.path.join(work, "strace-readonly.log")
    rc, err = run_cli(cli, base, ["Form.qml"], strace_log=log)
    ctx.count(("strace", "readonly-update"), True)
    if rc != 0:
        ctx.violation("generate-ui fails to update the outputs of a read-only source: %s" % err[-300:], {"cli_args": ["Form.qml"], "impl_output": err})
        return
    outs = {os.path.normpath(os.path.join(base, p)) for p in ("form.ui", "uisupport_form.h")}
    for line in open(log):
        m = re.search(r"\b(?:unlink|unlinkat|truncate)\((?:AT_FDCWD, )?\"([^\"]*)\"", line)
        if m and " = -1" not in line and os.path.normpath(os.path.join(base, m.group(1))) in outs:
            ctx.violation("updating the outputs of a read-only source unlinks an output before the new one is in place: %s" % line.strip(),
                          {"cli_args": ["Form.qml"], "history": ["chmod 0444 Form.qml", "generate-ui", "edit Form.qml (still 0444)", "generate-ui"], "impl_output": line,
                           "theorem_or_correspondence": "C15_atomic / strace"})


def s_kill(ctx, cli, work, rng):
    base = os.path.join(work, "kill")
    os.makedirs(base)
    old, new = DOC_STATIC % "old", DOC_DYN
    # reference contents
    ref = {}
    for name, src in (("old", old), ("new", new)):
        d = os.path.join(work, "killref-" + name)
        os.makedirs(d)
        open(os.path.join(d, "W.qml"), "w").write(src)
        run_cli(cli, d, ["W.qml"])
        t = tree(d)
        ref[name] = {k: t[k][2] for k in ("w.ui", "uisupport_w.h")}
    # number of system calls of a full run
    log = os.path.join(work, "kill-count.log")
    d = os.path.join(work, "killcount")
    os.makedirs(d)
    open(os.path.join(d, "W.qml"), "w").write(new)
    subprocess.run(["strace", "-f", "-o", log, cli, "generate-ui"] + META + ["W.qml"], cwd=d, capture_output=True, timeout=120)
    # strace counts injections per system call name: a kill point is (name, k) = the k-th invocation of that call
    seq = []
    seen = {}
    for line in open(log):
        m = re.match(r"\d+\s+(\w+)\(", line)
        if m:
            seen[m.group(1)] = seen.get(m.group(1), 0) + 1
            seq.append((m.group(1), seen[m.group(1)]))
    total = len(seq)
    points = list(seq) if ctx.tier == "thorough" else seq[-45:] + [seq[rng.randrange(0, max(1, total - 45))] for _ in range(8)]
    torn = 0
    states = {}
    for n in points:
        shutil.rmtree(base)
        os.makedirs(base)
        open(os.path.join(base, "W.qml"), "w").write(old)
        run_cli(cli, base, ["W.qml"])
        open(os.path.join(base, "W.qml"), "w").write(new)
        rc, err = run_cli(cli, base, ["W.qml"], inject=n)
        t = tree(base)
        ctx.count(("kill", n), True)
        st = []
        for out in ("w.ui", "uisupport_w.h"):
            got = t.get(out, (0, 0, None))[2]
            which = "old" if got == ref["old"][out] else "new" if got == ref["new"][out] else "TORN"
            st.append(which)
            if which == "TORN":
                torn += 1
                ctx.violation("killed at the %d-th %s: %s holds neither its complete old nor its complete new content (%d bytes)" % (n[1], n[0], out, len(got or b"")),
                              {"crash_point": list(n), "history": ["generate-ui (old)", "edit", "generate-ui killed at %s #%d" % n], "impl_output": (got or b"")[:300].decode("utf-8", "replace"),
                               "theorem_or_correspondence": "C15_atomic / kill injection"})
        states[tuple(st)] = states.get(tuple(st), 0) + 1
    ctx.coverage["kill_points"] = len(points)
    ctx.coverage["syscalls_in_a_run"] = total
    ctx.coverage["states_after_kill"] = {"/".join(k): v for k, v in states.items()}

//! qtname.rs functions on a string argument: {"fn": ..., "arg": ...}
use qmluic::qtname;
use serde_json::{json, Value};

pub fn run(case: &Value) -> Value {
    let f = case["fn"].as_str().expect("fn");
    let arg = case["arg"].as_str().expect("arg");
    match f {
        "callback_to_signal_name" => json!({ "out": qtname::callback_to_signal_name(arg) }),
        "to_ascii_uncapitalized" => json!({ "out": qtname::to_ascii_uncapitalized(arg) }),
        "to_ascii_capitalized" => json!({ "out": qtname::to_ascii_capitalized(arg) }),
        _ => json!({"unknown": f}),
    }
}

//! Runs the real pipeline on an inline QML document: parse -> uigen::build -> .ui XML + support header + diagnostics.
use qmluic::diagnostic::{DiagnosticKind, Diagnostics};
use qmluic::metatype;
use qmluic::metatype_tweak;
use qmluic::qmldoc::UiDocument;
use qmluic::qtname::FileNameRules;
use qmluic::typemap::{ModuleData, ModuleId, TypeMap};
use qmluic::uigen::{self, BuildContext, DynamicBindingHandling, XmlWriter};
use serde_json::{json, Value};
use std::fs;
use std::sync::OnceLock;

static TYPE_MAP: OnceLock<TypeMap> = OnceLock::new();

fn repo() -> String {
    std::env::var("VERIF_REPO").unwrap_or_else(|_| "/repo".to_owned())
}

pub fn load_type_map() -> TypeMap {
    let mut type_map = TypeMap::with_primitive_types();
    let mut classes: Vec<metatype::Class> = [
        "qt5core_metatypes.json",
        "qt5gui_metatypes.json",
        "qt5widgets_metatypes.json",
    ]
    .iter()
    .flat_map(|p| {
        let data = fs::read_to_string(format!("{}/contrib/metatypes/{}", repo(), p)).unwrap();
        metatype::extract_classes_from_str(&data).unwrap()
    })
    .collect();
    if let Ok(extra) = std::env::var("VERIF_EXTRA_METATYPES") {
        for p in extra.split(':').filter(|p| !p.is_empty()) {
            let data = fs::read_to_string(p).unwrap();
            classes.extend(metatype::extract_classes_from_str(&data).unwrap());
        }
    }
    metatype_tweak::apply_all(&mut classes);
    let mut module_data = ModuleData::with_builtins();
    module_data.extend(classes);
    type_map.insert_module(ModuleId::Named("qmluic.QtWidgets"), module_data);
    type_map
}

pub fn type_map() -> &'static TypeMap {
    TYPE_MAP.get_or_init(load_type_map)
}

pub fn diags_json(diagnostics: &Diagnostics, source: &str) -> Value {
    let ok = |s: usize, e: usize| s <= e && e <= source.len() && source.is_char_boundary(s) && source.is_char_boundary(e);
    Value::Array(
        diagnostics
            .iter()
            .map(|d| {
                json!({
                    "in_range": ok(d.start_byte(), d.end_byte()) && d.labels().iter().all(|(r, _)| ok(r.start, r.end)),
                    "kind": match d.kind() { DiagnosticKind::Error => "error", DiagnosticKind::Warning => "warning" },
                    "start": d.start_byte(), "end": d.end_byte(), "msg": d.message(),
                    "labels": d.labels().iter().map(|(r, m)| json!([r.start, r.end, m])).collect::<Vec<_>>(),
                })
            })
            .collect(),
    )
}

pub fn run(case: &Value) -> Value {
    let source = case["source"].as_str().expect("source");
    let mode = match case["mode"].as_str().unwrap_or("generate") {
        "generate" => DynamicBindingHandling::Generate,
        "reject" => DynamicBindingHandling::Reject,
        "omit" => DynamicBindingHandling::Omit,
        m => panic!("bad mode {m}"),
    };
    let type_name = case["type_name"].as_str().unwrap_or("MyType");
    let doc = UiDocument::parse(source, type_name, None);
    if doc.has_syntax_error() {
        let errs: Vec<Value> = doc
            .collect_syntax_errors()
            .iter()
            .map(|e| json!({"start": e.start_byte(), "end": e.end_byte(), "kind": format!("{:?}", e.kind()),
                            "in_range": e.start_byte() <= e.end_byte() && e.end_byte() <= doc.source().len()
                                && doc.source().is_char_boundary(e.start_byte()) && doc.source().is_char_boundary(e.end_byte())}))
            .collect();
        return json!({"syntax_error": true, "syntax_errors": errs, "ui": null, "header": null, "built": false, "diags": []});
    }
    let ctx = BuildContext::prepare(type_map(), FileNameRules::default(), mode).unwrap();
    let mut diagnostics = Diagnostics::new();
    let res = uigen::build(&ctx, &doc, &mut diagnostics);
    let (ui, header, built) = match res {
        Some((form, support)) => {
            let mut form_buf = Vec::new();
            form.serialize_to_xml(&mut XmlWriter::new_with_indent(&mut form_buf, b' ', 1))
                .unwrap();
            let header = support.map(|s| {
                let mut buf = Vec::new();
                s.write_header(&mut buf).unwrap();
                String::from_utf8(buf).unwrap()
            });
            (Some(String::from_utf8(form_buf).unwrap()), header, true)
        }
        None => (None, None, false),
    };
    json!({"syntax_error": false, "ui": ui, "header": header, "built": built,
           "has_error": diagnostics.has_error(), "diags": diags_json(&diagnostics, doc.source())})
}

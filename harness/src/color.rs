use qmluic::color::{Color, ParseColorError};
use serde_json::{json, Value};

/// case: a JSON string; result: [alpha, r, g, b] as written by `From<Color> for Gadget`, or the error kind.
pub fn run(case: &Value) -> Value {
    let s = case.as_str().expect("string case");
    match s.parse::<Color>() {
        Ok(Color::Rgb8(c)) => json!(["rgb", c.red, c.green, c.blue]),
        Ok(Color::Rgba8(c)) => json!(["rgba", c.red, c.green, c.blue, c.alpha]),
        Err(ParseColorError::InvalidHex) => json!("InvalidHex"),
        Err(ParseColorError::UnknownName) => json!("UnknownName"),
    }
}

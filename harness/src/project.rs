//! Runs the real multi-file pipeline on a directory layout on disk: qmldir::populate_directories, then uigen::build per source.
use crate::uigen::{diags_json, load_type_map};
use camino::Utf8PathBuf;
use qmluic::diagnostic::{Diagnostics, ProjectDiagnostics};
use qmluic::qmldir;
use qmluic::qmldoc::UiDocumentsCache;
use qmluic::qtname::FileNameRules;
use qmluic::typemap::ModuleId;
use qmluic::uigen::{self, BuildContext, DynamicBindingHandling, XmlWriter};
use serde_json::{json, Value};

pub fn run(case: &Value) -> Value {
    let root = Utf8PathBuf::from(case["root"].as_str().expect("root"));
    let sources: Vec<Utf8PathBuf> = case["sources"].as_array().unwrap().iter().map(|s| root.join(s.as_str().unwrap())).collect();
    let dirs: Vec<Utf8PathBuf> = case["dirs"].as_array().unwrap().iter().map(|s| root.join(s.as_str().unwrap())).collect();
    let mut type_map = load_type_map();
    let mut docs_cache = UiDocumentsCache::new();
    let mut project_diagnostics = ProjectDiagnostics::new();
    if let Err(e) = qmldir::populate_directories(&mut type_map, &mut docs_cache, &sources, &mut project_diagnostics) {
        return json!({"populate_error": e.to_string()});
    }
    let visited: Vec<bool> = dirs
        .iter()
        .map(|d| type_map.contains_module(ModuleId::Directory(qmldir::normalize_path(d).as_ref())))
        .collect();
    let mode = match case["mode"].as_str().unwrap_or("generate") {
        "reject" => DynamicBindingHandling::Reject,
        "omit" => DynamicBindingHandling::Omit,
        _ => DynamicBindingHandling::Generate,
    };
    let ctx = BuildContext::prepare(&type_map, FileNameRules::default(), mode).unwrap();
    let mut docs = Vec::new();
    for p in &sources {
        let doc = match docs_cache.get(p) {
            Some(d) => d,
            None => {
                docs.push(json!({"source": p.as_str(), "not_loaded": true}));
                continue;
            }
        };
        if doc.has_syntax_error() {
            docs.push(json!({"source": p.as_str(), "syntax_error": true}));
            continue;
        }
        let mut diagnostics = Diagnostics::new();
        let res = uigen::build(&ctx, doc, &mut diagnostics);
        let ui = res.map(|(form, _)| {
            let mut buf = Vec::new();
            form.serialize_to_xml(&mut XmlWriter::new_with_indent(&mut buf, b' ', 1)).unwrap();
            String::from_utf8(buf).unwrap()
        });
        docs.push(json!({"source": p.as_str(), "ui": ui, "has_error": diagnostics.has_error(), "diags": diags_json(&diagnostics, doc.source())}));
    }
    let pd: Vec<Value> = project_diagnostics
        .iter()
        .map(|(p, ds)| json!({"path": p.as_str(), "diags": ds.iter().map(|d| d.message().to_owned()).collect::<Vec<_>>()}))
        .collect();
    json!({"visited": visited, "docs": docs, "project_diags": pd})
}

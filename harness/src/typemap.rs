use qmluic::metatype;
use qmluic::typemap::{Class, MethodKind, ModuleData, ModuleId, NamedType, TypeMap, TypeSpace as _};
use serde_json::{json, Value};

/// case: {"metatypes": <Qt metatypes JSON text as value>, "others": [enum names at module level],
///        "aliases": [[new, old]], "queries": [[kind, class, arg]]}
pub fn run(case: &Value) -> Value {
    let classes: Vec<metatype::Class> =
        serde_json::from_value(case["classes"].clone()).expect("classes json");
    let mut type_map = TypeMap::with_primitive_types();
    let mut module_data = ModuleData::with_builtins();
    let others: Vec<metatype::Enum> = case["others"]
        .as_array()
        .map(|a| {
            a.iter()
                .map(|n| metatype::Enum::new(n.as_str().unwrap()))
                .collect()
        })
        .unwrap_or_default();
    module_data.extend(others);
    module_data.extend(classes);
    if let Some(a) = case["aliases"].as_array() {
        for p in a {
            let _ = module_data.push_alias(p[0].as_str().unwrap(), p[1].as_str().unwrap());
        }
    }
    let id = ModuleId::Named("m");
    type_map.insert_module(id, module_data);
    let module = type_map.get_module(id).unwrap();
    let get_class = |n: &str| -> Option<Class> {
        match module.get_type(n) {
            Some(Ok(NamedType::Class(c))) => Some(c),
            _ => None,
        }
    };
    let mut out = vec![];
    for q in case["queries"].as_array().unwrap() {
        let kind = q[0].as_str().unwrap();
        let c = match get_class(q[1].as_str().unwrap()) {
            Some(c) => c,
            None => {
                out.push(json!("noclass"));
                continue;
            }
        };
        let arg = q[2].as_str().unwrap();
        let r = match kind {
            "derives" => match get_class(arg) {
                Some(b) => json!(c.is_derived_from(&b)),
                None => json!("noclass"),
            },
            "common" => match get_class(arg) {
                Some(b) => match c.common_base_class(&b) {
                    None => Value::Null,
                    Some(Err(_)) => json!("err"),
                    Some(Ok(x)) => json!(x.name()),
                },
                None => json!("noclass"),
            },
            "prop" => match c.get_property(arg) {
                None => Value::Null,
                Some(Err(_)) => json!("err"),
                Some(Ok(p)) => json!(p.object_class().name()),
            },
            "method" => match c.get_public_method(arg) {
                None => Value::Null,
                Some(Err(_)) => json!("err"),
                Some(Ok(ms)) => {
                    let cls = ms.as_slice()[0].object_class().name().to_owned();
                    let l: Vec<Value> = ms
                        .iter()
                        .map(|m| {
                            let k = match m.kind() {
                                MethodKind::Signal => 0,
                                MethodKind::Slot => 1,
                                MethodKind::Method => 2,
                            };
                            json!([k, m.arguments_len()])
                        })
                        .collect();
                    json!([cls, l])
                }
            },
            "type" => match c.get_type(arg) {
                None => Value::Null,
                Some(Err(_)) => json!("err"),
                Some(Ok(NamedType::Enum(e))) => {
                    json!([e.lexical_parent().map(|p| p.name().to_owned()), e.name()])
                }
                Some(Ok(_)) => json!("other"),
            },
            // a variant looked up INSIDE an enum type of the class: arg = "E.v" (scoped enums only answer)
            "evariant" => {
                let (en, vn) = arg.split_once('.').unwrap();
                match c.get_type(en) {
                    Some(Ok(NamedType::Enum(e))) => match e.get_enum_by_variant(vn) {
                        None => Value::Null,
                        Some(Err(_)) => json!("err"),
                        Some(Ok(e2)) => json!([e2.lexical_parent().map(|p| p.name().to_owned()), e2.name()]),
                    },
                    _ => json!("noenum"),
                }
            }
            "variant" => match c.get_enum_by_variant(arg) {
                None => Value::Null,
                Some(Err(_)) => json!("err"),
                Some(Ok(e)) => json!([e.lexical_parent().map(|p| p.name().to_owned()), e.name()]),
            },
            _ => json!("?"),
        };
        out.push(r);
    }
    Value::Array(out)
}

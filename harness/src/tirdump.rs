//! `vh tir`: builds TIR for a binding / callback snippet in the synthetic environment E0 (data/verif_e0_*.json)
//! through the public `tir::build*` API and dumps the CodeBody as JSON through its public fields.
use qmluic::diagnostic::Diagnostics;
use qmluic::metatype;
use qmluic::opcode::{
    BinaryArithOp, BinaryBitwiseOp, BinaryLogicalOp, BinaryOp, BuiltinFunctionKind, ComparisonOp,
    ConsoleLogLevel, ShiftOp, UnaryArithOp, UnaryBitwiseOp, UnaryLogicalOp, UnaryOp,
};
use qmluic::qmlast::{UiObjectDefinition, UiProgram};
use qmluic::qmldoc::UiDocument;
use qmluic::tir::interpret::{EvaluatedValue, StringKind};
use qmluic::tir::{self, CodeBody, ConstantValue, Operand, Rvalue, Statement, Terminator};
use qmluic::typedexpr::{RefKind, RefSpace, TypeAnnotationSpace, TypeDesc};
use qmluic::typemap::{
    Class, ImportedModuleSpace, Method, MethodKind, ModuleData, ModuleId, NamedType, TypeKind,
    TypeMap, TypeMapError, TypeSpace,
};
use serde_json::{json, Value};
use std::fs;
use std::sync::OnceLock;

struct Env {
    type_map: TypeMap,
    objects: Vec<(String, String)>,
    this: Option<(String, String)>,
}

static ENV: OnceLock<Env> = OnceLock::new();

fn env() -> &'static Env {
    ENV.get_or_init(|| {
        let dir = std::env::var("VERIF_DATA").unwrap_or_else(|_| "/verif/data".to_owned());
        let data = fs::read_to_string(format!("{dir}/verif_e0_metatypes.json")).unwrap();
        let classes = metatype::extract_classes_from_str(&data).unwrap();
        let ctx: Value =
            serde_json::from_str(&fs::read_to_string(format!("{dir}/verif_e0_context.json")).unwrap())
                .unwrap();
        let mut type_map = TypeMap::with_primitive_types();
        let mut module_data = ModuleData::with_builtins();
        module_data.extend(classes);
        type_map.insert_module(ModuleId::Named("e0"), module_data);
        let objects = ctx["objects"]
            .as_array()
            .unwrap()
            .iter()
            .map(|p| (p[0].as_str().unwrap().to_owned(), p[1].as_str().unwrap().to_owned()))
            .collect();
        let this = ctx["this"]
            .as_array()
            .map(|p| (p[0].as_str().unwrap().to_owned(), p[1].as_str().unwrap().to_owned()));
        Env { type_map, objects, this }
    })
}

/// Same resolution order as uigen's ObjectContext (ids, this-properties, this-methods, types).
struct Context<'a> {
    type_space: ImportedModuleSpace<'a>,
    env: &'a Env,
    qobject: Class<'a>,
}

impl<'a> Context<'a> {
    fn class(&self, name: &str) -> Class<'a> {
        self.type_space.get_type(name).unwrap().unwrap().into_class().unwrap()
    }
}

impl<'a> RefSpace<'a> for Context<'a> {
    fn get_ref(&self, name: &str) -> Option<Result<RefKind<'a>, TypeMapError>> {
        if let Some((_, c)) = self.env.objects.iter().find(|(n, _)| n == name) {
            return Some(Ok(RefKind::Object(self.class(c))));
        }
        if let Some((c, n)) = &self.env.this {
            let me = self.class(c);
            if let Some(r) = me.get_property(name) {
                return Some(r.map(|p| RefKind::ObjectProperty(me.clone(), n.clone(), p)));
            } else if let Some(r) = me.get_public_method(name) {
                return Some(r.map(|m| RefKind::ObjectMethod(me.clone(), n.clone(), m)));
            }
        }
        self.type_space.get_type(name).map(|r| r.map(RefKind::Type))
    }

    fn this_object(&self) -> Option<(Class<'a>, String)> {
        self.env.this.as_ref().map(|(c, n)| (self.class(c), n.clone()))
    }
}

impl<'a> TypeAnnotationSpace<'a> for Context<'a> {
    fn get_annotated_type_scoped(
        &self,
        scoped_name: &str,
    ) -> Option<Result<TypeKind<'a>, TypeMapError>> {
        self.type_space.get_type_scoped(scoped_name).map(|r| {
            r.map(|ty| match ty {
                NamedType::Class(cls) if cls.is_derived_from(&self.qobject) => {
                    TypeKind::Pointer(NamedType::Class(cls))
                }
                NamedType::QmlComponent(_) => TypeKind::Pointer(ty),
                _ => TypeKind::Just(ty),
            })
        })
    }
}

fn named_json(n: &NamedType) -> Value {
    match n {
        NamedType::Class(c) => json!({"class": c.name()}),
        NamedType::Enum(e) => json!({"enum": [e.lexical_parent().map(|p| p.name().to_owned()), e.name()]}),
        NamedType::Primitive(p) => json!({"prim": p.name()}),
        NamedType::Namespace(_) => json!("namespace"),
        NamedType::QmlComponent(_) => json!("component"),
    }
}

pub fn type_json(t: &TypeKind) -> Value {
    match t {
        TypeKind::Just(n) => json!({"k": "just", "n": named_json(n)}),
        TypeKind::Pointer(n) => json!({"k": "ptr", "n": named_json(n)}),
        TypeKind::List(t) => json!({"k": "list", "inner": type_json(t)}),
    }
}

fn tdesc_json(t: &TypeDesc) -> Value {
    match t {
        TypeDesc::ConstInteger => json!("integer"),
        TypeDesc::ConstString => json!("string"),
        TypeDesc::NullPointer => json!("nullptr"),
        TypeDesc::EmptyList => json!("emptylist"),
        TypeDesc::Concrete(k) => type_json(k),
    }
}

fn text_json(s: &str) -> Value {
    Value::Array(s.chars().map(|c| json!(c as u32)).collect())
}

fn operand_json(a: &Operand) -> Value {
    match a {
        Operand::Constant(c) => json!({"const": match &c.value {
            ConstantValue::Bool(b) => json!({"bool": b}),
            ConstantValue::Integer(v) => json!({"int": v}),
            ConstantValue::Float(v) => json!({"float": v.to_bits()}),
            ConstantValue::CString(s) => json!({"cstr": text_json(s)}),
            ConstantValue::QString(s) => json!({"qstr": text_json(s)}),
            ConstantValue::NullPointer => json!("null"),
            ConstantValue::EmptyList => json!("emptylist"),
        }}),
        Operand::EnumVariant(x) => json!({"enum": [named_json(&NamedType::Enum(x.ty.clone())), x.variant]}),
        Operand::Local(x) => json!({"local": [x.name.0, type_json(&x.ty)]}),
        Operand::NamedObject(x) => json!({"named": [x.name.0, x.cls.name()]}),
        Operand::Void(_) => json!("void"),
    }
}

fn method_json(m: &Method) -> Value {
    json!({
        "class": m.object_class().name(), "name": m.name(),
        "kind": match m.kind() { MethodKind::Signal => 0, MethodKind::Slot => 1, MethodKind::Method => 2 },
        "args": m.argument_types().iter().map(type_json).collect::<Vec<_>>(),
        "ret": type_json(m.return_type()),
    })
}

fn unop_code(op: &UnaryOp) -> u32 {
    match op {
        UnaryOp::Arith(UnaryArithOp::Minus) => 0,
        UnaryOp::Arith(UnaryArithOp::Plus) => 1,
        UnaryOp::Bitwise(UnaryBitwiseOp::Not) => 2,
        UnaryOp::Logical(UnaryLogicalOp::Not) => 3,
    }
}

fn binop_code(op: &BinaryOp) -> u32 {
    match op {
        BinaryOp::Arith(BinaryArithOp::Add) => 0,
        BinaryOp::Arith(BinaryArithOp::Sub) => 1,
        BinaryOp::Arith(BinaryArithOp::Mul) => 2,
        BinaryOp::Arith(BinaryArithOp::Div) => 3,
        BinaryOp::Arith(BinaryArithOp::Rem) => 4,
        BinaryOp::Bitwise(BinaryBitwiseOp::And) => 5,
        BinaryOp::Bitwise(BinaryBitwiseOp::Xor) => 6,
        BinaryOp::Bitwise(BinaryBitwiseOp::Or) => 7,
        BinaryOp::Shift(ShiftOp::RightShift) => 8,
        BinaryOp::Shift(ShiftOp::LeftShift) => 9,
        BinaryOp::Logical(BinaryLogicalOp::And) => 10,
        BinaryOp::Logical(BinaryLogicalOp::Or) => 11,
        BinaryOp::Comparison(ComparisonOp::Equal) => 12,
        BinaryOp::Comparison(ComparisonOp::NotEqual) => 13,
        BinaryOp::Comparison(ComparisonOp::LessThan) => 14,
        BinaryOp::Comparison(ComparisonOp::LessThanEqual) => 15,
        BinaryOp::Comparison(ComparisonOp::GreaterThan) => 16,
        BinaryOp::Comparison(ComparisonOp::GreaterThanEqual) => 17,
    }
}

fn builtin_json(f: &BuiltinFunctionKind) -> Value {
    match f {
        BuiltinFunctionKind::ConsoleLog(l) => json!([0, match l {
            ConsoleLogLevel::Log => 0, ConsoleLogLevel::Debug => 1, ConsoleLogLevel::Info => 2,
            ConsoleLogLevel::Warn => 3, ConsoleLogLevel::Error => 4 }]),
        BuiltinFunctionKind::Max => json!([1]),
        BuiltinFunctionKind::Min => json!([2]),
        BuiltinFunctionKind::Tr => json!([3]),
    }
}

fn ops(l: &[Operand]) -> Value {
    Value::Array(l.iter().map(operand_json).collect())
}

fn rvalue_json(r: &Rvalue) -> Value {
    match r {
        Rvalue::Copy(a) => json!({"copy": operand_json(a)}),
        Rvalue::UnaryOp(op, a) => json!({"unary": [unop_code(op), operand_json(a)]}),
        Rvalue::BinaryOp(op, l, r) => json!({"binary": [binop_code(op), operand_json(l), operand_json(r)]}),
        Rvalue::StaticCast(t, a) => json!({"static_cast": [type_json(t), operand_json(a)]}),
        Rvalue::VariantCast(t, a) => json!({"variant_cast": [type_json(t), operand_json(a)]}),
        Rvalue::CallBuiltinFunction(f, args) => json!({"builtin": [builtin_json(f), ops(args)]}),
        Rvalue::CallMethod(o, m, args) => json!({"call": [operand_json(o), method_json(m), ops(args)]}),
        Rvalue::ReadProperty(o, p) => json!({"read_prop": [operand_json(o), p.object_class().name(), p.name()]}),
        Rvalue::WriteProperty(o, p, v) => json!({"write_prop": [operand_json(o), p.object_class().name(), p.name(), operand_json(v)]}),
        Rvalue::ReadSubscript(o, i) => json!({"read_sub": [operand_json(o), operand_json(i)]}),
        Rvalue::WriteSubscript(o, i, v) => json!({"write_sub": [operand_json(o), operand_json(i), operand_json(v)]}),
        Rvalue::MakeList(t, args) => json!({"make_list": [type_json(t), ops(args)]}),
    }
}

pub fn code_json(code: &CodeBody) -> Value {
    let blocks: Vec<Value> = code
        .basic_blocks
        .iter()
        .map(|b| {
            let stmts: Vec<Value> = b
                .statements
                .iter()
                .map(|s| match s {
                    Statement::Assign(l, r) => json!({"assign": [l.0, rvalue_json(r)]}),
                    Statement::Exec(r) => json!({"exec": rvalue_json(r)}),
                    Statement::ObserveProperty(h, l, m) => json!({"observe": [h.0, l.0, method_json(m)]}),
                })
                .collect();
            let term = match b.terminator() {
                Terminator::Br(r) => json!({"br": r.0}),
                Terminator::BrCond(c, t, f) => json!({"br_cond": [operand_json(c), t.0, f.0]}),
                Terminator::Return(a) => json!({"return": operand_json(a)}),
                Terminator::Unreachable => json!("unreachable"),
            };
            json!({"stmts": stmts, "term": term})
        })
        .collect();
    json!({
        "locals": code.locals.iter().map(|l| type_json(&l.ty)).collect::<Vec<_>>(),
        "nparams": code.parameter_count,
        "blocks": blocks,
        "sdeps": code.static_property_deps.iter().map(|(o, m)| json!([o.0, method_json(m)])).collect::<Vec<_>>(),
        "nobs": code.property_observer_count,
    })
}

fn evalue_json(v: &EvaluatedValue) -> Value {
    let k = |k: &StringKind| match k { StringKind::NoTr => 0, StringKind::Tr => 1 };
    match v {
        EvaluatedValue::Bool(b) => json!({"bool": b}),
        EvaluatedValue::Integer(i) => json!({"int": i}),
        EvaluatedValue::Float(f) => json!({"float": f.to_bits()}),
        EvaluatedValue::String(s, kk) => json!({"string": [text_json(s), k(kk)]}),
        EvaluatedValue::StringList(l) => json!({"string_list": l.iter().map(|(s, kk)| json!([text_json(s), k(kk)])).collect::<Vec<_>>()}),
        EvaluatedValue::EnumSet(l) => json!({"enum_set": l}),
        EvaluatedValue::ObjectRef(s) => json!({"object_ref": s}),
        EvaluatedValue::ObjectRefList(l) => json!({"object_ref_list": l}),
        EvaluatedValue::EmptyList => json!("emptylist"),
    }
}

/// case: {"source": "<binding value text>", "callback": bool}
pub fn run(case: &Value) -> Value {
    let e = env();
    let mut type_space = ImportedModuleSpace::new(&e.type_map);
    assert!(type_space.import_module(ModuleId::Builtins));
    assert!(type_space.import_module(ModuleId::Named("e0")));
    let qobject = type_space.get_type("QObject").unwrap().unwrap().into_class().unwrap();
    let ctx = Context { type_space, env: e, qobject };
    let source = case["source"].as_str().unwrap();
    let doc = UiDocument::parse(format!("A {{ a: {source}\n}}"), "MyType", None);
    if doc.has_syntax_error() {
        return json!({"syntax_error": true});
    }
    let program = match UiProgram::from_node(doc.root_node(), doc.source()) {
        Ok(p) => p,
        Err(_) => return json!({"syntax_error": true}),
    };
    let obj = match UiObjectDefinition::from_node(program.root_object_node(), doc.source()) {
        Ok(o) => o,
        Err(_) => return json!({"syntax_error": true}),
    };
    let map = match obj.build_binding_map(doc.source()) {
        Ok(m) => m,
        Err(_) => return json!({"syntax_error": true}),
    };
    let node = match map.get("a").and_then(|v| v.get_node()) {
        Some(n) => n,
        None => return json!({"syntax_error": true}),
    };
    let mut diagnostics = Diagnostics::new();
    let is_cb = case["callback"].as_bool().unwrap_or(false);
    let code = if is_cb {
        tir::build_callback(&ctx, node, doc.source(), &mut diagnostics)
    } else {
        tir::build(&ctx, node, doc.source(), &mut diagnostics)
    };
    let src_len = doc.source().len();
    let diags: Vec<Value> = diagnostics
        .iter()
        .map(|d| json!({"msg": d.message(), "start": d.start_byte(), "end": d.end_byte(),
                        "in_range": d.end_byte() <= src_len && d.start_byte() <= d.end_byte()
                            && doc.source().is_char_boundary(d.start_byte()) && doc.source().is_char_boundary(d.end_byte()),
                        "kind": format!("{:?}", d.kind())}))
        .collect();
    match code {
        None => json!({"ok": false, "diags": diags}),
        Some(code) => {
            let mut rdiag = Diagnostics::new();
            let ret = code.resolve_return_type(&mut rdiag).map(|t| tdesc_json(&t));
            let eval = tir::evaluate_code(&code).map(|v| evalue_json(&v));
            let mut dep_code = code.clone();
            let mut pdiag = Diagnostics::new();
            tir::analyze_code_property_dependency(&mut dep_code, &mut pdiag);
            json!({"ok": true, "diags": diags, "code": code_json(&code), "ret": ret, "eval": eval,
                   "dep_code": code_json(&dep_code),
                   "dep_diags": pdiag.iter().map(|d| d.message().to_owned()).collect::<Vec<_>>()})
        }
    }
}

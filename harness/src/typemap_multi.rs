//! Several named modules with their own import lists (imports are NOT transitive): lookups that walk an inheritance chain
//! across module boundaries.  case: {"modules": [{"name", "imports": [names], "classes": <metatypes classes>}],
//! "queries": [[kind, module, class, module2, arg]]}
use qmluic::metatype;
use qmluic::typemap::{Class, ModuleData, ModuleId, ModuleIdBuf, NamedType, TypeMap, TypeSpace as _};
use serde_json::{json, Value};

pub fn run(case: &Value) -> Value {
    let mut type_map = TypeMap::with_primitive_types();
    for m in case["modules"].as_array().expect("modules") {
        let classes: Vec<metatype::Class> = serde_json::from_value(m["classes"].clone()).expect("classes json");
        let mut data = ModuleData::with_builtins();
        for i in m["imports"].as_array().unwrap() {
            data.import_module(ModuleIdBuf::Named(i.as_str().unwrap().to_owned()));
        }
        data.extend(classes);
        type_map.insert_module(ModuleIdBuf::Named(m["name"].as_str().unwrap().to_owned()), data);
    }
    let get_class = |m: &str, n: &str| -> Option<Class> {
        match type_map.get_module(ModuleId::Named(m))?.get_type(n) {
            Some(Ok(NamedType::Class(c))) => Some(c),
            _ => None,
        }
    };
    let mut out = vec![];
    for q in case["queries"].as_array().unwrap() {
        let kind = q[0].as_str().unwrap();
        let c = match get_class(q[1].as_str().unwrap(), q[2].as_str().unwrap()) {
            Some(c) => c,
            None => {
                out.push(json!("noclass"));
                continue;
            }
        };
        let (m2, arg) = (q[3].as_str().unwrap(), q[4].as_str().unwrap());
        let r = match kind {
            "derives" => match get_class(m2, arg) {
                Some(b) => json!(c.is_derived_from(&b)),
                None => json!("noclass"),
            },
            "common" => match get_class(m2, arg) {
                Some(b) => match c.common_base_class(&b) {
                    None => Value::Null,
                    Some(Err(_)) => json!("err"),
                    // which class it is: compared with every class of every module by identity
                    Some(Ok(x)) => {
                        let mut hit = Value::Null;
                        for m in case["modules"].as_array().unwrap() {
                            let mn = m["name"].as_str().unwrap();
                            if let Some(y) = get_class(mn, x.name()) {
                                if y == x {
                                    hit = json!([mn, x.name()]);
                                }
                            }
                        }
                        hit
                    }
                },
                None => json!("noclass"),
            },
            "prop" => match c.get_property(arg) {
                None => Value::Null,
                Some(Err(_)) => json!("err"),
                Some(Ok(p)) => json!(p.object_class().name()),
            },
            "method" => match c.get_public_method(arg) {
                None => Value::Null,
                Some(Err(_)) => json!("err"),
                Some(Ok(ms)) => json!(ms.as_slice()[0].object_class().name()),
            },
            _ => json!("?"),
        };
        out.push(r);
    }
    json!({ "results": out })
}

//! Correspondence harness: drives the real qmluic code on case files (one JSON value per line on stdin)
//! and prints one canonical JSON line per case on stdout.  Every case runs under catch_unwind.
use std::io::{self, BufRead, Write};
use std::panic;

mod color;
mod project;
mod qtname;
mod tirdump;
mod typemap;
mod typemap_multi;
mod uigen;

fn main() {
    let args: Vec<String> = std::env::args().collect();
    let cmd = args.get(1).map(String::as_str).unwrap_or("");
    let f: fn(&serde_json::Value) -> serde_json::Value = match cmd {
        "color" => color::run,
        "typemap" => typemap::run,
        "typemap_multi" => typemap_multi::run,
        "tir" => tirdump::run,
        "uigen" => uigen::run,
        "project" => project::run,
        "qtname" => qtname::run,
        _ => {
            eprintln!("usage: vh <color|...> < cases.jsonl");
            std::process::exit(2);
        }
    };
    panic::set_hook(Box::new(|_| {})); // silence; panics are reported as values
    let stdin = io::stdin();
    let stdout = io::stdout();
    let mut out = io::BufWriter::new(stdout.lock());
    for line in stdin.lock().lines() {
        let line = line.expect("read");
        if line.trim().is_empty() {
            continue;
        }
        let case: serde_json::Value = serde_json::from_str(&line).expect("case json");
        let res = panic::catch_unwind(|| f(&case));
        let v = match res {
            Ok(v) => v,
            Err(e) => {
                let msg = if let Some(s) = e.downcast_ref::<&str>() {
                    s.to_string()
                } else if let Some(s) = e.downcast_ref::<String>() {
                    s.clone()
                } else {
                    "?".to_owned()
                };
                serde_json::json!({"panic": msg})
            }
        };
        writeln!(out, "{}", v).unwrap();
    }
}

// qtmock.h -- a small stand-in for the Qt API the emitted support header relies on (trusted; see DESIGN.md section 7).
// QString is UTF-16; signals are member functions that dispatch to connected functors; every observable effect is appended to a trace.
#pragma once
#include <algorithm>
#include <array>
#include <cmath>
#include <cstdint>
#include <cstdio>
#include <cstdlib>
#include <cstring>
#include <functional>
#include <initializer_list>
#include <map>
#include <memory>
#include <string>
#include <tuple>
#include <type_traits>
#include <typeinfo>
#include <vector>
#include <limits>
inline double qInf() { return std::numeric_limits<double>::infinity(); }
inline double qQNaN() { return std::numeric_limits<double>::quiet_NaN(); }
inline double qSNaN() { return std::numeric_limits<double>::signaling_NaN(); }

typedef unsigned int uint;
typedef uint32_t quint32;
typedef double qreal;
#define Q_UNLIKELY(x) (x)
#define Q_UNREACHABLE() do { std::printf("@@UNREACHABLE\n"); std::fflush(stdout); std::abort(); } while (0)
#define Q_ASSERT_X(cond, where, what) do { if (!(cond)) { std::printf("@@ASSERT %s\n", what); std::fflush(stdout); std::abort(); } } while (0)
#define QStringLiteral(s) QString(u"" s)
#define QT_TR_NOOP(s) s

struct Trace {
    std::vector<std::string> lines;
    void add(const std::string &s) { lines.push_back(s); }
};
inline Trace &trace() { static Trace t; return t; }

class QString {
public:
    std::u16string d;
    QString() {}
    QString(const char16_t *s) : d(s) {}
    explicit QString(const std::u16string &s) : d(s) {}
    static QString fromUtf8(const std::string &u) {
        QString r; size_t i = 0;
        while (i < u.size()) {
            unsigned char c = u[i]; uint32_t cp; int n;
            if (c < 0x80) { cp = c; n = 1; } else if (c < 0xe0) { cp = c & 0x1f; n = 2; } else if (c < 0xf0) { cp = c & 0x0f; n = 3; } else { cp = c & 0x07; n = 4; }
            for (int k = 1; k < n; ++k) cp = (cp << 6) | (u[i + k] & 0x3f);
            i += n;
            if (cp >= 0x10000) { cp -= 0x10000; r.d.push_back(char16_t(0xd800 + (cp >> 10))); r.d.push_back(char16_t(0xdc00 + (cp & 0x3ff))); } else r.d.push_back(char16_t(cp));
        }
        return r;
    }
    std::string hex() const { std::string s; char b[8]; for (char16_t c : d) { std::snprintf(b, sizeof b, "%04x", unsigned(c)); s += b; } return s.empty() ? "-" : s; }
    bool isEmpty() const { return d.empty(); }
    int size() const { return int(d.size()); }
    int length() const { return int(d.size()); }
    static QString number(long long n) { std::string s = std::to_string(n); QString r; for (char c : s) r.d.push_back(char16_t(c)); return r; }
    static QString number(double x) { char b[64]; std::snprintf(b, sizeof b, "%g", x); QString r; for (char *p = b; *p; ++p) r.d.push_back(char16_t(*p)); return r; }
    // QString::arg: replaces the lowest-numbered place marker %N (1..99)
    QString arg(const QString &a) const {
        int best = 100; for (size_t i = 0; i + 1 < d.size(); ++i) if (d[i] == u'%' && d[i + 1] >= u'0' && d[i + 1] <= u'9') {
            int n = d[i + 1] - u'0'; if (i + 2 < d.size() && d[i + 2] >= u'0' && d[i + 2] <= u'9') n = n * 10 + (d[i + 2] - u'0'); if (n > 0 && n < best) best = n; }
        if (best == 100) return *this;
        QString r; size_t i = 0;
        while (i < d.size()) {
            if (d[i] == u'%' && i + 1 < d.size() && d[i + 1] >= u'0' && d[i + 1] <= u'9') {
                int n = d[i + 1] - u'0'; size_t len = 2; if (i + 2 < d.size() && d[i + 2] >= u'0' && d[i + 2] <= u'9') { n = n * 10 + (d[i + 2] - u'0'); len = 3; }
                if (n == best) { r.d += a.d; i += len; continue; }
            }
            r.d.push_back(d[i]); ++i;
        }
        return r;
    }
    QString arg(int a) const { return arg(number((long long)a)); }
    QString arg(uint a) const { return arg(number((long long)a)); }
    QString arg(long long a) const { return arg(number(a)); }
    QString arg(long a) const { return arg(number((long long)a)); }
    QString arg(unsigned long a) const { return arg(number((long long)a)); }
    QString arg(unsigned long long a) const { return arg(number((long long)a)); }
    QString arg(double a) const { return arg(number(a)); }
    QString arg(bool a) const { return arg(number((long long)a)); }
    friend QString operator+(const QString &a, const QString &b) { QString r; r.d = a.d + b.d; return r; }
    friend bool operator==(const QString &a, const QString &b) { return a.d == b.d; }
    friend bool operator!=(const QString &a, const QString &b) { return a.d != b.d; }
    friend bool operator<(const QString &a, const QString &b) { return a.d < b.d; }
    friend bool operator<=(const QString &a, const QString &b) { return a.d <= b.d; }
    friend bool operator>(const QString &a, const QString &b) { return a.d > b.d; }
    friend bool operator>=(const QString &a, const QString &b) { return a.d >= b.d; }
};

template <typename T> class QList {
public:
    std::vector<T> v;
    QList() {}
    QList(std::initializer_list<T> l) : v(l) {}
    int size() const { return int(v.size()); }
    bool isEmpty() const { return v.empty(); }
    const T &at(int i) const { if (i < 0 || i >= size()) { std::printf("@@OUT-OF-RANGE\n"); std::fflush(stdout); std::abort(); } return v[size_t(i)]; }
    T &operator[](int i) { if (i < 0 || i >= size()) { std::printf("@@OUT-OF-RANGE\n"); std::fflush(stdout); std::abort(); } return v[size_t(i)]; }
    const T &operator[](int i) const { return at(i); }
    friend bool operator==(const QList &a, const QList &b) { return a.v == b.v; }
    friend bool operator!=(const QList &a, const QList &b) { return !(a.v == b.v); }
};
class QStringList : public QList<QString> {
public:
    QStringList() {}
    QStringList(std::initializer_list<QString> l) : QList<QString>(l) {}
};

class QVariant {
public:
    int kind = 0; long long i = 0; double dd = 0; QString s;
    QVariant() {}
    QVariant(int x) : kind(1), i(x) {}
    QVariant(uint x) : kind(2), i(x) {}
    QVariant(bool x) : kind(3), i(x) {}
    QVariant(double x) : kind(4), dd(x) {}
    QVariant(const QString &x) : kind(5), s(x) {}
    template <typename T, typename = std::enable_if_t<std::is_enum<T>::value>> QVariant(T x) : kind(6), i((long long)x) {}
    template <typename T> static QVariant fromValue(const T &) { QVariant v; v.kind = 7; return v; }
    template <typename T> T value() const { if constexpr (std::is_same_v<T, QString>) return s; else if constexpr (std::is_arithmetic_v<T>) return kind == 4 ? T(dd) : T(i); else if constexpr (std::is_enum_v<T>) return T(i); else return T(); }
    friend bool operator==(const QVariant &a, const QVariant &b) { return a.kind == b.kind && a.i == b.i && a.dd == b.dd && a.s == b.s; }
    friend bool operator!=(const QVariant &a, const QVariant &b) { return !(a == b); }
};

// QFlags: deliberately PERMISSIVE about mixed enum / flags / int operands (Qt's own overload set depends on the Qt version and on
// Q_DECLARE_OPERATORS_FOR_FLAGS); what C++ itself forbids (int -> plain enum) is still rejected by the compiler.
template <typename T> class QFlags {
public:
    int i = 0;
    QFlags() {}
    QFlags(T f) : i(int(f)) {}
    QFlags(int v) : i(v) {}
    operator int() const { return i; }
    QFlags operator~() const { return QFlags(~i); }
    bool operator!() const { return !i; }
};
template <typename T> QFlags<T> operator|(QFlags<T> a, QFlags<T> b) { return QFlags<T>(a.i | b.i); }
template <typename T> QFlags<T> operator|(QFlags<T> a, T b) { return QFlags<T>(a.i | int(b)); }
template <typename T> QFlags<T> operator|(T a, QFlags<T> b) { return QFlags<T>(int(a) | b.i); }
template <typename T> QFlags<T> operator&(QFlags<T> a, QFlags<T> b) { return QFlags<T>(a.i & b.i); }
template <typename T> QFlags<T> operator&(QFlags<T> a, T b) { return QFlags<T>(a.i & int(b)); }
template <typename T> QFlags<T> operator&(T a, QFlags<T> b) { return QFlags<T>(int(a) & b.i); }
template <typename T> QFlags<T> operator^(QFlags<T> a, QFlags<T> b) { return QFlags<T>(a.i ^ b.i); }
template <typename T> QFlags<T> operator^(QFlags<T> a, T b) { return QFlags<T>(a.i ^ int(b)); }
template <typename T> QFlags<T> operator^(T a, QFlags<T> b) { return QFlags<T>(int(a) ^ b.i); }

// ---- signals and connections ----
struct SignalKey {
    std::array<unsigned char, 2 * sizeof(void *)> bytes{};
    size_t tid = 0;
    bool operator<(const SignalKey &o) const { return tid != o.tid ? tid < o.tid : bytes < o.bytes; }
};
template <typename C, typename... A> SignalKey signalKey(void (C::*f)(A...)) {
    SignalKey k; static_assert(sizeof(f) <= sizeof(k.bytes), "member pointer size"); std::memcpy(k.bytes.data(), &f, sizeof(f)); k.tid = typeid(f).hash_code(); return k;
}
class QObject;
struct ConnectionData { QObject *sender = nullptr; SignalKey key; std::function<void(void **)> fn; bool alive = true; long id = 0; };
namespace QMetaObject {
class Connection {
public:
    std::shared_ptr<ConnectionData> d;
    explicit operator bool() const { return d && d->alive; }
    bool operator!() const { return !(d && d->alive); }
};
}
template <typename... Args> struct QOverload {
    template <typename R, typename T> static constexpr auto of(R (T::*ptr)(Args...)) noexcept -> decltype(ptr) { return ptr; }
    template <typename R, typename T> static constexpr auto of(R (T::*ptr)(Args...) const) noexcept -> decltype(ptr) { return ptr; }
};

class QObject {
public:
    std::string objectName_;
    std::vector<std::shared_ptr<ConnectionData>> conns_;
    static long &counter() { static long c = 0; return c; }
    static long &live() { static long c = 0; return c; }
    virtual ~QObject() {}
    template <typename S, typename C, typename... A, typename F>
    static QMetaObject::Connection connect(S *sender, void (C::*sig)(A...), QObject *context, F f) {
        (void)context;
        static_assert(std::is_base_of<C, S>::value, "the signal must belong to the sender's class or a base class");
        auto cd = std::make_shared<ConnectionData>();
        cd->sender = sender; cd->key = signalKey(sig); cd->id = ++counter();
        cd->fn = [f](void **args) mutable { invoke<F, A...>(f, args); };
        sender->conns_.push_back(cd); ++live();
        QMetaObject::Connection c; c.d = cd; return c;
    }
    static bool disconnect(const QMetaObject::Connection &c) {
        if (!c.d || !c.d->alive) return false;
        c.d->alive = false; --live();
        auto &v = c.d->sender->conns_; v.erase(std::remove(v.begin(), v.end(), c.d), v.end());
        return true;
    }
    template <typename C, typename... A> void activate(void (C::*sig)(A...), typename std::decay<A>::type... a) {
        SignalKey k = signalKey(sig);
        void *args[] = {nullptr, (void *)&a...};
        auto copy = conns_;
        for (auto &c : copy) if (c->alive && !(c->key < k) && !(k < c->key)) c->fn(args + 1);
    }
private:
    template <typename F, typename... A> static void invoke(F &f, void **a) {
        using T = std::tuple<std::decay_t<A>...>;
        constexpr size_t N = sizeof...(A);
        if constexpr (N >= 3) {
            using E0 = std::tuple_element_t<0, T>; using E1 = std::tuple_element_t<1, T>; using E2 = std::tuple_element_t<2, T>;
            if constexpr (std::is_invocable_v<F, E0, E1, E2>) { f(*(E0 *)a[0], *(E1 *)a[1], *(E2 *)a[2]); return; }
        }
        if constexpr (N >= 2) {
            using E0 = std::tuple_element_t<0, T>; using E1 = std::tuple_element_t<1, T>;
            if constexpr (std::is_invocable_v<F, E0, E1>) { f(*(E0 *)a[0], *(E1 *)a[1]); return; }
        }
        if constexpr (N >= 1) {
            using E0 = std::tuple_element_t<0, T>;
            if constexpr (std::is_invocable_v<F, E0>) { f(*(E0 *)a[0]); return; }
        }
        if constexpr (std::is_invocable_v<F>) { f(); return; }
    }
};
class QFont {
public:
    int pointSize_ = 0; bool bold_ = false, italic_ = false; QString family_;
    int pointSize() const { return pointSize_; } void setPointSize(int v) { pointSize_ = v; }
    bool bold() const { return bold_; } void setBold(bool v) { bold_ = v; }
    bool italic() const { return italic_; } void setItalic(bool v) { italic_ = v; }
    QString family() const { return family_; } void setFamily(const QString &v) { family_ = v; }
    friend bool operator==(const QFont &a, const QFont &b) { return a.pointSize_ == b.pointSize_ && a.bold_ == b.bold_ && a.italic_ == b.italic_ && a.family_ == b.family_; }
};
class QWidget : public QObject {
public:
    QFont font_;
    QFont font() const { return font_; }
    void setFont(const QFont &f) { font_ = f; }
};

struct QCoreApplication {
    static QString translate(const char *, const char *text) { return QString::fromUtf8(text); }     // no translation loaded: the source text
};

// ---- qDebug & co: one trace line per statement ----
class QDebug {
public:
    std::string kind, buf; bool quote = true, first = true;
    explicit QDebug(const char *k) : kind(k) {}
    QDebug(const QDebug &o) = delete;
    QDebug(QDebug &&o) : kind(o.kind), buf(o.buf), quote(o.quote), first(o.first) { o.kind.clear(); }
    ~QDebug() { if (!kind.empty()) trace().add("log " + kind + " " + (buf.empty() ? "-" : buf)); }
    QDebug &noquote() { quote = false; return *this; }
    QDebug &sep() { if (!first) buf += "|"; first = false; return *this; }
    QDebug &operator<<(const QString &s) { sep(); buf += "s:" + s.hex(); return *this; }
    QDebug &operator<<(const char *s) { return *this << QString::fromUtf8(s); }
    QDebug &operator<<(bool b) { sep(); buf += b ? "b:1" : "b:0"; return *this; }
    QDebug &operator<<(int i) { sep(); buf += "i:" + std::to_string(i); return *this; }
    QDebug &operator<<(uint i) { sep(); buf += "u:" + std::to_string(i); return *this; }
    QDebug &operator<<(long long i) { sep(); buf += "l:" + std::to_string(i); return *this; }
    QDebug &operator<<(long i) { sep(); buf += "l:" + std::to_string(i); return *this; }
    QDebug &operator<<(unsigned long i) { sep(); buf += "l:" + std::to_string(i); return *this; }
    QDebug &operator<<(unsigned long long i) { sep(); buf += "l:" + std::to_string(i); return *this; }
    QDebug &operator<<(float x) { return *this << double(x); }
    QDebug &operator<<(char c) { sep(); buf += std::string("c:") + c; return *this; }
    QDebug &operator<<(double x) { sep(); uint64_t b; std::memcpy(&b, &x, 8); buf += "d:" + std::to_string(b); return *this; }
    template <typename T, typename = std::enable_if_t<std::is_enum<T>::value>> QDebug &operator<<(T e) { sep(); buf += "e:" + std::to_string((long long)e); return *this; }
    template <typename T> QDebug &operator<<(const QFlags<T> &f) { sep(); buf += "e:" + std::to_string(f.i); return *this; }
    template <typename T> QDebug &operator<<(T *p);
    template <typename T> QDebug &operator<<(const QList<T> &l) { sep(); buf += "["; QDebug inner(""); for (const T &x : l.v) inner << x; buf += inner.buf + "]"; return *this; }
    QDebug &operator<<(const QStringList &l) { return *this << static_cast<const QList<QString> &>(l); }
    QDebug &operator<<(const QVariant &v) { sep(); buf += "v:" + std::to_string(v.kind); return *this; }
};
inline QDebug qDebug() { return QDebug("debug"); }
inline QDebug qInfo() { return QDebug("info"); }
inline QDebug qWarning() { return QDebug("warn"); }
inline QDebug qCritical() { return QDebug("error"); }

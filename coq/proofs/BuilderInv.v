(* BuilderInv.v -- frame invariants of the translator model (model/Builder.v): whatever is walked, the locals are never renumbered or
   retyped, blocks are only appended, a block that has its terminator is never touched again, diagnostics are only appended. *)
From QV Require Import model.Base model.Lang model.Types model.Tir model.Ceval model.Builder.
From Coq Require Import Arith Lia.
Open Scope nat_scope.
Open Scope list_scope.

Record Rel (s s' : bstate) : Prop := {
  r_locals : exists suf, bs_locals s' = bs_locals s ++ suf;
  r_len : List.length (bs_blocks s) <= List.length (bs_blocks s');
  r_term : forall i b, nth_error (bs_blocks s) i = Some b -> b_term b <> None -> nth_error (bs_blocks s') i = Some b;
  r_diags : exists suf, bs_diags s' = bs_diags s ++ suf }.

Lemma Rel_refl s : Rel s s.
Proof. split; [exists []; rewrite app_nil_r; reflexivity|lia|auto|exists []; rewrite app_nil_r; reflexivity]. Qed.
Lemma Rel_trans a b c : Rel a b -> Rel b c -> Rel a c.
Proof.
  intros [[l1 L1] N1 T1 [d1 D1]] [[l2 L2] N2 T2 [d2 D2]]. split.
  - exists (l1 ++ l2). rewrite L2, L1, app_assoc. reflexivity.
  - lia.
  - intros i x H Hx. apply T2; [apply T1; assumption|exact Hx].
  - exists (d1 ++ d2). rewrite D2, D1, app_assoc. reflexivity.
Qed.

Definition Inv {A} (m : M A) : Prop := forall s, Rel s (snd (m s)).

Lemma Inv_ret {A} (a : A) : Inv (ret a). Proof. intros s. apply Rel_refl. Qed.
Lemma Inv_panic {A} x : Inv (@panic A x). Proof. intros s. apply Rel_refl. Qed.
Lemma Inv_fail {A} d : Inv (@fail A d).
Proof. intros s. cbn. split; cbn; [exists []; rewrite app_nil_r; reflexivity|lia|auto|exists [d]; reflexivity]. Qed.
Lemma Inv_warn d : Inv (warn d).
Proof. intros s. cbn. split; cbn; [exists []; rewrite app_nil_r; reflexivity|lia|auto|exists [d]; reflexivity]. Qed.
Lemma Inv_bind {A B} (m : M A) (f : A -> M B) : Inv m -> (forall a, Inv (f a)) -> Inv (mbind m f).
Proof.
  intros Hm Hf s. unfold mbind. specialize (Hm s). destruct (m s) as [[a| |x] s1]; cbn [snd] in *; try exact Hm.
  eapply Rel_trans; [exact Hm|apply Hf].
Qed.
Lemma Inv_attempt {A} (m : M A) : Inv m -> Inv (attempt m).
Proof. intros Hm s. unfold attempt. specialize (Hm s). destruct (m s) as [[a| |x] s1]; exact Hm. Qed.
Lemma Inv_get_state : Inv get_state. Proof. intros s. apply Rel_refl. Qed.
Lemma Inv_current_ref : Inv current_ref.
Proof. intros s. unfold current_ref. destruct (bs_blocks s); apply Rel_refl. Qed.
Lemma Inv_push_block : Inv push_block.
Proof.
  intros s. cbn. split; cbn; [exists []; rewrite app_nil_r; reflexivity|rewrite app_length; lia| |exists []; rewrite app_nil_r; reflexivity].
  intros i b H _. rewrite nth_error_app1; [exact H|]. apply nth_error_Some. rewrite H. discriminate.
Qed.
Lemma Inv_alloca ty : Inv (alloca ty).
Proof.
  intros s. unfold alloca. destruct (tkind_eqb ty T_VOID); [apply Rel_refl|].
  cbn. split; cbn; [exists [ty]; reflexivity|lia|auto|exists []; rewrite app_nil_r; reflexivity].
Qed.
Lemma Inv_mark_exempt l : Inv (mark_exempt l).
Proof. intros s. cbn. split; cbn; [exists []; rewrite app_nil_r; reflexivity|lia|auto|exists []; rewrite app_nil_r; reflexivity]. Qed.
Lemma Inv_visit_local_ref l : Inv (visit_local_ref l).
Proof. intros s. unfold visit_local_ref. destruct (nth_error (bs_locals s) l); apply Rel_refl. Qed.

Lemma update_nth_length {A} (l : list A) i f : List.length (update_nth l i f) = List.length l.
Proof. revert i. induction l as [|x r IH]; intros [|i]; cbn; auto. Qed.
Lemma update_nth_other {A} (l : list A) i j f : i <> j -> nth_error (update_nth l i f) j = nth_error l j.
Proof. revert i j. induction l as [|x r IH]; intros [|i] [|j] H; cbn; auto; try congruence. Qed.

Definition nonterm_only (f : block -> block + string) : Prop := forall b b', f b = inl b' -> b_term b = None.
Lemma Inv_with_block r site f : nonterm_only f -> Inv (with_block r site f).
Proof.
  intros Hf s. unfold with_block. destruct (nth_error (bs_blocks s) r) as [b|] eqn:Eb; [|apply Rel_refl].
  destruct (f b) as [b'|msg] eqn:Ef; [|apply Rel_refl].
  cbn. split; cbn; [exists []; rewrite app_nil_r; reflexivity|rewrite update_nth_length; lia| |exists []; rewrite app_nil_r; reflexivity].
  intros i x Hx Ht. destruct (Nat.eq_dec r i) as [->|Hne].
  - rewrite Eb in Hx. inversion Hx; subst. exfalso. apply Ht. eapply Hf. exact Ef.
  - rewrite update_nth_other by exact Hne. exact Hx.
Qed.
Lemma nonterm_push st : nonterm_only (b_push st).
Proof. intros b b' H. unfold b_push in H. destruct (b_term b); [discriminate|reflexivity]. Qed.
Lemma nonterm_finalize t : nonterm_only (b_finalize t).
Proof. intros b b' H. unfold b_finalize in H. destruct (b_term b); [discriminate|reflexivity]. Qed.
Lemma nonterm_compl a : nonterm_only (b_set_compl a).
Proof. intros b b' H. unfold b_set_compl in H. destruct (b_term b); [discriminate|reflexivity]. Qed.

Lemma Inv_push_statement_at r st : Inv (push_statement_at r st). Proof. apply Inv_with_block, nonterm_push. Qed.
Lemma Inv_finalize_at r t : Inv (finalize_at r t). Proof. apply Inv_with_block, nonterm_finalize. Qed.
Lemma Inv_push_statement st : Inv (push_statement st).
Proof. apply Inv_bind; [apply Inv_current_ref|intros r; apply Inv_with_block, nonterm_push]. Qed.
Lemma Inv_mark_branch_point : Inv mark_branch_point.
Proof. apply Inv_bind; [apply Inv_current_ref|intros r]. apply Inv_bind; [apply Inv_push_block|intros; apply Inv_ret]. Qed.
Lemma Inv_visit_function_parameter ty : Inv (visit_function_parameter ty).
Proof.
  intros s. unfold visit_function_parameter. destruct (negb _); [apply Rel_refl|].
  pose proof (Inv_alloca ty s) as Ha. destruct (alloca ty s) as [[[l|]| |x] s1]; cbn [snd] in *; try exact Ha.
  - destruct Ha as [L N T D]. split; cbn; assumption.
  - eapply Rel_trans; [exact Ha|apply Inv_fail].
Qed.

Create HintDb inv.
#[export] Hint Resolve Inv_ret Inv_panic Inv_fail Inv_warn Inv_get_state Inv_current_ref Inv_push_block Inv_alloca Inv_mark_exempt Inv_visit_local_ref
  Inv_push_statement_at Inv_finalize_at Inv_push_statement Inv_mark_branch_point Inv_visit_function_parameter nonterm_push nonterm_finalize nonterm_compl : inv.

Ltac inv_step :=
  match goal with
  | |- Inv (mbind _ _) => apply Inv_bind; [|intros]
  | |- Inv (attempt _) => apply Inv_attempt
  | |- Inv (with_block _ _ _) => apply Inv_with_block
  | |- Inv (match ?x with _ => _ end) => destruct x
  | |- Inv (if ?x then _ else _) => destruct x
  | |- Inv (let _ := _ in _) => cbv zeta
  | |- Inv _ => solve [auto with inv]
  end.
Ltac inv_auto := repeat inv_step.

Lemma Inv_emit_result ty rv : Inv (emit_result ty rv). Proof. unfold emit_result. inv_auto. Qed.
#[export] Hint Resolve Inv_emit_result : inv.
Lemma Inv_of_terr_op {A} e : Inv (@of_terr_op A e). Proof. unfold of_terr_op. inv_auto. Qed.
#[export] Hint Resolve Inv_of_terr_op : inv.
Lemma Inv_m_deduce_concrete E l r : Inv (m_deduce_concrete E l r). Proof. unfold m_deduce_concrete. inv_auto. Qed.
Lemma Inv_m_to_concrete t : Inv (m_to_concrete t). Proof. unfold m_to_concrete. inv_auto. Qed.
Lemma Inv_of_cerr {A} e : Inv (@of_cerr A e). Proof. unfold of_cerr. inv_auto. Qed.
#[export] Hint Resolve Inv_m_deduce_concrete Inv_m_to_concrete Inv_of_cerr : inv.
Lemma Inv_of_ceval r : Inv (of_ceval r). Proof. unfold of_ceval. inv_auto. Qed.
Lemma Inv_visit_integer n : Inv (visit_integer n). Proof. unfold visit_integer. inv_auto. Qed.
#[export] Hint Resolve Inv_of_ceval Inv_visit_integer : inv.
Lemma Inv_deduce_elems E : forall rest t, Inv (deduce_elems E t rest).
Proof. induction rest as [|a r IH]; intros t; cbn [deduce_elems]; inv_auto; try apply IH. Qed.
#[export] Hint Resolve Inv_deduce_elems : inv.
Lemma Inv_visit_array E els : Inv (visit_array E els). Proof. unfold visit_array. inv_auto. Qed.
Lemma Inv_visit_local_declaration ty : Inv (visit_local_declaration ty). Proof. unfold visit_local_declaration. inv_auto. Qed.
Lemma Inv_visit_local_assignment E l rhs : Inv (visit_local_assignment E l rhs). Proof. unfold visit_local_assignment. inv_auto. Qed.
Lemma Inv_visit_object_property o p : Inv (visit_object_property o p). Proof. unfold visit_object_property. inv_auto. Qed.
Lemma Inv_visit_object_property_assignment E o p r : Inv (visit_object_property_assignment E o p r). Proof. unfold visit_object_property_assignment. inv_auto. Qed.
Lemma Inv_check_object_subscript_type o i : Inv (check_object_subscript_type o i). Proof. unfold check_object_subscript_type. inv_auto. Qed.
#[export] Hint Resolve Inv_visit_array Inv_visit_local_declaration Inv_visit_local_assignment Inv_visit_object_property Inv_visit_object_property_assignment Inv_check_object_subscript_type : inv.
Lemma Inv_visit_object_subscript o i : Inv (visit_object_subscript o i). Proof. unfold visit_object_subscript. inv_auto. Qed.
Lemma Inv_visit_object_subscript_assignment E o i r : Inv (visit_object_subscript_assignment E o i r). Proof. unfold visit_object_subscript_assignment. inv_auto. Qed.
Lemma Inv_visit_object_method_call E o c ms args : Inv (visit_object_method_call E o c ms args). Proof. unfold visit_object_method_call. inv_auto. Qed.
Lemma Inv_visit_builtin_call E f args : Inv (visit_builtin_call E f args). Proof. unfold visit_builtin_call. inv_auto. Qed.
Lemma Inv_emit_unary op a : Inv (emit_unary op a). Proof. unfold emit_unary. inv_auto. Qed.
#[export] Hint Resolve Inv_visit_object_subscript Inv_visit_object_subscript_assignment Inv_visit_object_method_call Inv_visit_builtin_call Inv_emit_unary : inv.
Lemma Inv_visit_unary op a : Inv (visit_unary op a). Proof. unfold visit_unary. inv_auto. Qed.
Lemma Inv_emit_binary E op l r : Inv (emit_binary E op l r). Proof. unfold emit_binary. inv_auto. Qed.
#[export] Hint Resolve Inv_visit_unary Inv_emit_binary : inv.
Lemma Inv_visit_binary E op l r : Inv (visit_binary E op l r). Proof. unfold visit_binary. inv_auto. Qed.
Lemma Inv_visit_binary_logical a l lr r rr : Inv (visit_binary_logical a l lr r rr). Proof. unfold visit_binary_logical. inv_auto. Qed.
Lemma Inv_visit_as E v t : Inv (visit_as E v t). Proof. unfold visit_as. inv_auto. Qed.
Lemma Inv_visit_ternary E c cr a ar b br : Inv (visit_ternary E c cr a ar b br). Proof. unfold visit_ternary. inv_auto. Qed.
Lemma Inv_visit_expression_statement v : Inv (visit_expression_statement v). Proof. unfold visit_expression_statement. inv_auto. apply nonterm_compl. Qed.
Lemma Inv_visit_if c cr qr ar : Inv (visit_if c cr qr ar). Proof. unfold visit_if. inv_auto. Qed.
Lemma Inv_connect_cases : forall conds starts d, Inv (connect_cases conds starts d).
Proof. induction conds as [|[c cref] cr IH]; intros [|st sr] d; cbn [connect_cases]; inv_auto; try apply IH. Qed.
Lemma Inv_finalize_bodies : forall bodies, Inv (finalize_bodies bodies).
Proof. induction bodies as [|b r IH]; cbn [finalize_bodies]; inv_auto; try apply IH. Qed.
#[export] Hint Resolve Inv_visit_binary Inv_visit_binary_logical Inv_visit_as Inv_visit_ternary Inv_visit_expression_statement Inv_visit_if Inv_connect_cases Inv_finalize_bodies : inv.
Lemma Inv_visit_switch conds bodies dp h x : Inv (visit_switch conds bodies dp h x). Proof. unfold visit_switch. inv_auto. Qed.
Lemma Inv_visit_break x : Inv (visit_break x). Proof. unfold visit_break. inv_auto. Qed.
Lemma Inv_visit_return v : Inv (visit_return v). Proof. unfold visit_return. inv_auto. Qed.
Lemma Inv_check_condition_type a : Inv (check_condition_type a). Proof. unfold check_condition_type. inv_auto. Qed.
Lemma Inv_of_ref r n : Inv (of_ref r n). Proof. unfold of_ref. inv_auto. Qed.
#[export] Hint Resolve Inv_visit_switch Inv_visit_break Inv_visit_return Inv_check_condition_type Inv_of_ref : inv.
Lemma Inv_process_identifier E env ct n : Inv (process_identifier E env ct n). Proof. unfold process_identifier. inv_auto. Qed.
Lemma Inv_process_namespace_name k n : Inv (process_namespace_name k n). Proof. unfold process_namespace_name. inv_auto. Qed.
Lemma Inv_process_item_property E it n k : Inv (process_item_property E it n k). Proof. unfold process_item_property. inv_auto. Qed.
Lemma Inv_process_type_annotation E p : Inv (process_type_annotation E p). Proof. unfold process_type_annotation. inv_auto. Qed.
Lemma Inv_to_rvalue i : Inv (to_rvalue i). Proof. unfold to_rvalue. inv_auto. Qed.
#[export] Hint Resolve Inv_process_identifier Inv_process_namespace_name Inv_process_item_property Inv_process_type_annotation Inv_to_rvalue : inv.

From QV Require Import model.Sem proofs.SemProofs proofs.ScopeProofs proofs.FrameProofs.

Lemma Inv_go (w : expr -> M inter) l : Forall (fun x => Inv (w x)) l ->
  Inv ((fix go (l : list expr) : M (list operand) :=
          match l with [] => ret [] | x :: r => let! a := (let! i := w x in to_rvalue i) in let! rest := go r in ret (a :: rest) end) l).
Proof. induction 1 as [|x r Hx Hr IH]; inv_auto; assumption. Qed.

Theorem Inv_walk_expr E env : forall e, Inv (walk_expr E env e).
Proof.
  apply expr_ind'; intros; cbn [walk_expr]; inv_auto.
  all: try (apply (Inv_go (walk_expr E env)); assumption).
Qed.

Lemma Inv_walk_rvalue E env e : Inv (walk_rvalue E env e).
Proof. unfold walk_rvalue. inv_auto. apply Inv_walk_expr. Qed.
#[export] Hint Resolve Inv_walk_expr Inv_walk_rvalue : inv.
Lemma Inv_sfail env : Inv (sfail env). Proof. unfold sfail. inv_auto. Qed.
#[export] Hint Resolve Inv_sfail : inv.
Lemma Inv_exempt_new env env' : Inv (exempt_new env env').
Proof. unfold exempt_new. induction (firstn _ env') as [|x r IH]; cbn [fold_right]; inv_auto; try exact IH. Qed.
#[export] Hint Resolve Inv_exempt_new : inv.
Lemma Inv_walk_decls E k : forall vars env, Inv (walk_decls E k env vars).
Proof. induction vars as [|[[name ty] value] rest IH]; intros env; cbn [walk_decls]; inv_auto; try apply IH. Qed.
#[export] Hint Resolve Inv_walk_decls : inv.

Lemma Inv_nodes (w : lenv -> stmt -> M sres) l : Forall (fun x => forall env, Inv (w env x)) l ->
  forall env, Inv ((fix go (env : lenv) (l : list stmt) : M sres :=
                      match l with [] => ret (true, env) | x :: r => let! a := w env x in let! b := go (snd a) r in ret (fst a && fst b, snd b) end) env l).
Proof. induction 1 as [|x r Hx Hr IH]; intros env; inv_auto; try apply Hx; try apply IH. Qed.

Lemma Inv_gon (w : lenv -> stmt -> M sres) l : Forall (fun x => forall env, Inv (w env x)) l ->
  forall env, Inv ((fix gon (env : lenv) (l : list stmt) {struct l} : M sres :=
                      match l with
                      | [] => ret (true, env)
                      | x :: r => let! a := w env x in let! _ := exempt_new env (snd a) in let! b := gon (snd a) r in ret (fst a && fst b, snd b)
                      end) env l).
Proof. induction 1 as [|x r Hx Hr IH]; intros env; inv_auto; try apply Hx; try apply IH. Qed.

Theorem Inv_walk_stmt E : forall s env brk, Inv (walk_stmt E env brk s).
Proof.
  apply (stmt_ind' (fun s => forall env brk, Inv (walk_stmt E env brk s))).
  - intros e env brk. cbn [walk_stmt]. inv_auto.
  - intros ss Hss env brk. cbn [walk_stmt]. inv_auto.
    apply (Inv_nodes (fun env x => walk_stmt E env brk x)). eapply Forall_impl; [|exact Hss]. intros x Hx env0. apply Hx.
  - intros k vars env brk. cbn [walk_stmt]. inv_auto.
  - intros c t e Ht He env brk. cbn [walk_stmt]. inv_auto; try apply Ht. all: try (apply He).
  - intros v cases default Hc Hd env brk. cbn [walk_stmt]. inv_auto.
    + clear Hc Hd. induction cases as [|[cv b] r IH]; inv_auto; try exact IH.
    + assert (Hdb : forall pos body, default = Some (pos, body) -> forall env0, Inv
                ((fix gon (env1 : lenv) (l0 : list stmt) {struct l0} : M sres :=
                    match l0 with
                    | [] => ret (true, env1)
                    | x :: r => let! a3 := walk_stmt E env1 (Some a2) x in let! _ := exempt_new env1 (snd a3) in let! b := gon (snd a3) r in ret (fst a3 && fst b, snd b)
                    end) env0 body)).
      { intros pos body Hb env0. subst default. cbn [dflt_all] in Hd.
        apply (Inv_gon (fun env x => walk_stmt E env (Some a2) x)). eapply Forall_impl; [|exact Hd]. intros x Hx env1. apply Hx. }
      clear Hd. generalize 0. generalize env. induction Hc as [|[cv nodes] r Hn Hr IH]; intros env0 i.
      * inv_auto. all: try (eapply Hdb; reflexivity).
      * inv_auto. all: try (eapply Hdb; reflexivity). all: try apply IH.
        all: apply (Inv_gon (fun env x => walk_stmt E env (Some a2) x)); cbn [snd] in Hn; (eapply Forall_impl; [|exact Hn]); intros x Hx env1; apply Hx.
  - intros l env brk. cbn [walk_stmt]. inv_auto.
  - intros e env brk. cbn [walk_stmt]. inv_auto.
Qed.

From QV Require Import model.Passes.
Lemma Inv_walk_params E : forall params env, Inv (walk_params E env params).
Proof. induction params as [|[name ty] rest IH]; intros env; cbn [walk_params]; inv_auto; try apply IH. Qed.
#[export] Hint Resolve Inv_walk_params Inv_walk_stmt : inv.
Theorem Inv_walk_callback E cb : Inv (walk_callback E cb).
Proof. unfold walk_callback. inv_auto. Qed.

(* the statement in plain terms *)
Theorem builder_frame E cb s :
  let s' := snd (walk_callback E cb s) in
  (exists more, bs_locals s' = bs_locals s ++ more) /\
  List.length (bs_blocks s) <= List.length (bs_blocks s') /\
  (forall i b, nth_error (bs_blocks s) i = Some b -> b_term b <> None -> nth_error (bs_blocks s') i = Some b) /\
  (exists more, bs_diags s' = bs_diags s ++ more).
Proof. destruct (Inv_walk_callback E cb s) as [H1 H2 H3 H4]. cbv zeta. auto. Qed.

(* HeaderProofs.v -- C16 over model/Header.v *)
From Coq Require Import Lia.
From QV Require Import model.Base model.Names proofs.NamesProofs model.Header.
Open Scope list_scope.

(* ================= names ================= *)
Lemma gen_names_spec : forall ps g l, gen_names g ps = Ok l -> NoDup l /\ (forall x, In x l -> ~ In x (used_names g)).
Proof.
  induction ps as [|p r IH]; intros g l H; cbn [gen_names] in H.
  - inversion H; subst. split; [constructor|intros ? []].
  - unfold bind in H. destruct (generate g p) as [[id g']| | |] eqn:G; try discriminate. cbn [fst snd] in H.
    destruct (gen_names g' r) as [l'| | |] eqn:R; try discriminate. inversion H; subst. clear H.
    unfold generate in G. destruct (generate_fresh _ _ _ _ _ G) as [_ [F1 [F2 _]]].
    destruct (IH g' l' R) as [I1 I2]. split.
    + constructor; [|exact I1]. intros X. apply (I2 id X). rewrite F2. now left.
    + intros x [<-|X]; [exact F1|]. intros Y. apply (I2 x X). rewrite F2. now right.
Qed.

(* the suffixes of all bindings, gadget members and callbacks of a document are pairwise distinct *)
Theorem suffixes_distinct ps l : function_suffixes ps = Ok l -> NoDup l.
Proof. intros H. apply (gen_names_spec ps namegen0 l H). Qed.

Theorem suffixes_total ps : exists l, function_suffixes ps = Ok l /\ length l = length ps.
Proof.
  unfold function_suffixes. generalize namegen0. induction ps as [|p r IH]; intros g; cbn [gen_names]; [eexists; split; reflexivity|].
  destruct (generate_total g p []) as [id [g' G]]. unfold generate. rewrite G. cbn [bind fst snd].
  destruct (IH g') as [l [E L]]. rewrite E. cbn [bind]. eexists; split; [reflexivity|cbn; lia].
Qed.

Open Scope string_scope.
Lemma append_first c1 r1 a c2 r2 b : (String c1 r1 ++ a = String c2 r2 ++ b)%string -> c1 = c2.
Proof. cbn. intros H. inversion H. reflexivity. Qed.

(* hence the member functions: setupX / updateX / evalX (and onX) never clash *)
Theorem function_names_distinct l : NoDup l -> NoDup (flat_map function_names l).
Proof.
  induction 1 as [|x r Hx ND IH]; cbn [flat_map]; [constructor|].
  assert (Hin : forall y, In y (flat_map function_names r) -> exists s, In s r /\ (y = "setup" ++ s \/ y = "update" ++ s \/ y = "eval" ++ s)).
  { intros y Hy. apply in_flat_map in Hy. destruct Hy as [s [Hs Hy]]. exists s. split; [exact Hs|]. cbn in Hy. intuition. }
  unfold function_names at 1. cbn [app].
  repeat constructor; cbn [In]; try exact IH.
  - intros [E|[E|X]].
    + apply append_first in E. discriminate.
    + apply append_first in E. discriminate.
    + destruct (Hin _ X) as [s [Hs [E|[E|E]]]]; [apply append_inj_r in E; subst; contradiction|apply append_first in E; discriminate|apply append_first in E; discriminate].
  - intros [E|X].
    + apply append_first in E. discriminate.
    + destruct (Hin _ X) as [s [Hs [E|[E|E]]]]; [apply append_first in E; discriminate|apply append_inj_r in E; subst; contradiction|apply append_first in E; discriminate].
  - intros X. destruct (Hin _ X) as [s [Hs [E|[E|E]]]]; [apply append_first in E; discriminate|apply append_first in E; discriminate|apply append_inj_r in E; subst; contradiction].
Qed.

(* ================= index and guard ================= *)
Open Scope nat_scope.
Theorem indices_distinct n : NoDup (binding_indices n) /\ length (binding_indices n) = n /\ (forall i, In i (binding_indices n) <-> i < n).
Proof. unfold binding_indices. split; [apply seq_NoDup|]. split; [apply seq_length|]. intros i. rewrite in_seq. lia. Qed.

(* every index used has its word inside the array; the array is never zero-sized when there is a binding *)
Theorem guard_covers n i : i < n -> guard_word i < guard_words n /\ guard_bit i < 32.
Proof.
  unfold guard_word, guard_words, guard_bit. intros H. split; [|apply Nat.mod_upper_bound; lia].
  apply Nat.div_lt_upper_bound; [lia|]. pose proof (Nat.div_mod (n + 31) 32 ltac:(lia)) as D. pose proof (Nat.mod_upper_bound (n + 31) 32 ltac:(lia)). lia.
Qed.
Theorem guard_nonempty n : 0 < n -> 0 < guard_words n.
Proof. intros H. destruct (guard_covers n 0 H) as [G _]. lia. Qed.
(* two different bindings never share a guard bit *)
Theorem guard_bits_distinct i j : guard_word i = guard_word j -> guard_bit i = guard_bit j -> i = j.
Proof.
  unfold guard_word, guard_bit. intros H1 H2. rewrite (Nat.div_mod i 32), (Nat.div_mod j 32) by lia. rewrite H1, H2. reflexivity.
Qed.

(* ================= string literals ================= *)
Open Scope N_scope.
Definition forallN (f : N -> bool) (n : N) : bool := N.recursion true (fun i acc => acc && f i) n.
Lemma forallN_spec f n : forallN f n = true -> forall i, i < n -> f i = true.
Proof.
  unfold forallN. induction n as [|n IH] using N.peano_ind; intros H i Hi; [lia|].
  rewrite N.recursion_succ in H; [|reflexivity|intros ? ? -> ? ? ->; reflexivity]. apply andb_prop in H. destruct H as [H1 H2].
  destruct (N.eq_dec i n) as [->|Ne]; [exact H2|apply IH; [exact H1|lia]].
Qed.

Definition oct_check (c : N) : bool :=
  match oct3 c with
  | [d1; d2; d3] => is_oct d1 && is_oct d2 && is_oct d3 && N.eqb ((d1 - 48) * 64 + (d2 - 48) * 8 + (d3 - 48)) c
  | _ => false
  end.
Lemma oct_all : forallN oct_check 512 = true.
Proof. vm_compute. reflexivity. Qed.

Definition hex_check (a : N) : bool :=
  match hex4 a with
  | [h1; h2; h3; h4] =>
      match hexval h1, hexval h2, hexval h3, hexval h4 with
      | Some v1, Some v2, Some v3, Some v4 => N.eqb (((v1 * 16 + v2) * 16 + v3) * 16 + v4) a
      | _, _, _, _ => false
      end
  | _ => false
  end.
Lemma hex_all : forallN hex_check 65536 = true.
Proof. vm_compute. reflexivity. Qed.

Lemma hexn4 a rest acc : a < 65536 -> hexn 4 (hex4 a ++ rest) acc = Some (acc * 65536 + a, rest).
Proof.
  intros H. pose proof (forallN_spec _ _ hex_all a H) as C. unfold hex_check in C.
  destruct (hex4 a) as [|h1 [|h2 [|h3 [|h4 [|? ?]]]]]; try discriminate.
  destruct (hexval h1) as [v1|] eqn:E1; [|discriminate]. destruct (hexval h2) as [v2|] eqn:E2; [|discriminate].
  destruct (hexval h3) as [v3|] eqn:E3; [|discriminate]. destruct (hexval h4) as [v4|] eqn:E4; [|discriminate].
  apply N.eqb_eq in C. cbn [app hexn]. rewrite E1, E2, E3, E4. f_equal. f_equal. lia.
Qed.

Lemma hexn_split a b l acc : hexn (a + b) l acc = match hexn a l acc with Some (v, r) => hexn b r v | None => None end.
Proof.
  revert l acc. induction a as [|a IH]; intros l acc; cbn [Nat.add hexn]; [reflexivity|].
  destruct l as [|c r]; [reflexivity|]. destruct (hexval c); [apply IH|reflexivity].
Qed.
Lemma hexn8 a rest : a < 4294967296 -> hexn 8 (hex8 a ++ rest) 0 = Some (a, rest).
Proof.
  intros H. unfold hex8. rewrite <- app_assoc.
  assert (H1 : a / 65536 < 65536) by (apply N.div_lt_upper_bound; lia).
  assert (H2 : a mod 65536 < 65536) by (apply N.mod_upper_bound; lia).
  change 8%nat with (4 + 4)%nat. rewrite hexn_split, (hexn4 _ _ _ H1), (hexn4 _ _ _ H2). f_equal. f_equal.
  pose proof (N.div_mod a 65536 ltac:(lia)). lia.
Qed.

Definition valid_scalar (c : N) : Prop := c < 55296 \/ (57344 <= c /\ c <= 1114111).

Lemma is_oct_false_of c : ~ (48 <= c <= 55) -> is_oct c = false.
Proof. unfold is_oct. intros H. destruct (N.leb_spec 48 c), (N.leb_spec c 55); cbn; auto; lia. Qed.

(* one character: the lexer reads back exactly that character and continues with the rest, whatever follows *)
Lemma lex_spell_char c rest f : valid_scalar c -> lex (S f) (spell_char c ++ rest) = option_map (cons c) (lex f rest).
Proof.
  intros V. unfold spell_char.
  destruct (N.eqb_spec c 34) as [->|N34]; [reflexivity|].
  destruct (N.eqb_spec c 92) as [->|N92]; [reflexivity|].
  destruct (N.eqb_spec c 10) as [->|N10]; [reflexivity|].
  destruct (N.eqb_spec c 9) as [->|N9]; [reflexivity|].
  destruct (N.eqb_spec c 13) as [->|N13]; [reflexivity|].
  assert (Hoct : c < 512 -> lex (S f) ((92 :: oct3 c) ++ rest) = option_map (cons c) (lex f rest)).
  { intros Hc. pose proof (forallN_spec _ _ oct_all c Hc) as C. unfold oct_check in C.
    destruct (oct3 c) as [|d1 [|d2 [|d3 [|? ?]]]]; try discriminate.
    apply andb_prop in C. destruct C as [C C4]. apply andb_prop in C. destruct C as [C C3]. apply andb_prop in C. destruct C as [C1 C2].
    apply N.eqb_eq in C4. cbn [app lex]. change (92 =? 92) with true. cbn match. rewrite C1, C2, C3, C4. reflexivity. }
  destruct (N.ltb_spec c 32) as [L32|G32]; cbn [orb].
  - apply Hoct. lia.
  - destruct (N.eqb_spec c 127) as [->|N127]; [apply Hoct; lia|].
    destruct (N.ltb_spec c 127) as [L127|G127].
    + (* printable ASCII, not a quote, not a backslash *)
      cbn [app lex]. destruct (N.eqb_spec c 92); [contradiction|]. destruct (N.eqb_spec c 34); [contradiction|]. destruct (N.eqb_spec c 10); [contradiction|]. reflexivity.
    + destruct (N.ltb_spec c 160) as [L160|G160]; [apply Hoct; lia|].
      assert (Hu : ucn_ok c = true).
      { unfold ucn_ok, valid_scalar in *. destruct (N.leb_spec 160 c); [|lia]. cbn [orb].
        destruct (N.leb_spec 55296 c), (N.leb_spec c 57343), (N.leb_spec c 1114111); cbn; auto; lia. }
      destruct (N.ltb_spec c 65536) as [L16|G16].
      * cbn [app lex]. change (92 =? 92) with true. cbn match. change (is_oct 117) with false. cbn match. change (117 =? 117) with true. cbn match.
        rewrite (hexn4 c rest 0 L16). rewrite N.mul_0_l, N.add_0_l. rewrite Hu. reflexivity.
      * cbn [app lex]. change (92 =? 92) with true. cbn match. change (is_oct 85) with false. cbn match. change (85 =? 117) with false. cbn match. change (85 =? 85) with true. cbn match.
        rewrite (hexn8 c rest) by (unfold valid_scalar in V; lia). rewrite Hu. reflexivity.
Qed.

Lemma lex_fuel_spell : forall s (f : nat), Forall valid_scalar s -> (length s < f)%nat -> lex f (spell s) = Some s.
Proof.
  unfold spell. induction s as [|c r IH]; intros f V L.
  - destruct f; [cbn in L; lia|reflexivity].
  - destruct f as [|f]; [cbn in L; lia|]. inversion V as [|? ? Vc Vr]; subst. cbn [flat_map].
    rewrite (lex_spell_char c _ f Vc). rewrite (IH f Vr) by (cbn in L; lia). reflexivity.
Qed.

Lemma spell_char_nonempty c : (0 < length (spell_char c))%nat.
Proof.
  unfold spell_char. repeat match goal with |- context [if ?b then _ else _] => destruct b end; cbn; lia.
Qed.
Lemma spell_length s : (length s <= length (spell s))%nat.
Proof. unfold spell. induction s as [|c r IH]; cbn; [lia|]. rewrite app_length. pose proof (spell_char_nonempty c). lia. Qed.

(* FULL statement: whatever the source string (any sequence of Unicode scalar values), the literal written into the header is read by
   a C++17 lexer as exactly that string *)
Theorem literal_denotes_source s : Forall valid_scalar s -> read_literal (spell s) = Some s.
Proof. intros V. unfold read_literal. apply lex_fuel_spell; [exact V|]. pose proof (spell_length s). lia. Qed.

(* what was wrong before (F9): Rust's Debug spelling is not C++ for control characters, and means another string for NUL + digit *)
Theorem rust_debug_refuted : read_literal (rust_debug [1]) = None /\ read_literal (rust_debug [0; 49]) = Some [1] /\ read_literal (rust_debug [127]) = None.
Proof. vm_compute. repeat split; reflexivity. Qed.

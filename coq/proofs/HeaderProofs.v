(* HeaderProofs.v -- C16 over model/Header.v *)
From Coq Require Import Lia.
From QV Require Import model.Base model.Names proofs.NamesProofs model.Header.
Open Scope list_scope.

(* ================= names ================= *)
Lemma gen_names_spec : forall ps g l, gen_names g ps = Ok l -> NoDup l /\ (forall x, In x l -> ~ In x (used_names g)).
Proof.
  induction ps as [|p r IH]; intros g l H; cbn [gen_names] in H.
  - inversion H; subst. split; [constructor|intros ? []].
  - unfold bind in H. destruct (generate g p) as [[id g']| | |] eqn:G; try discriminate. cbn [fst snd] in H.
    destruct (gen_names g' r) as [l'| | |] eqn:R; try discriminate. inversion H; subst. clear H.
    unfold generate in G. destruct (generate_fresh _ _ _ _ _ G) as [_ [F1 [F2 _]]].
    destruct (IH g' l' R) as [I1 I2]. split.
    + constructor; [|exact I1]. intros X. apply (I2 id X). rewrite F2. now left.
    + intros x [<-|X]; [exact F1|]. intros Y. apply (I2 x X). rewrite F2. now right.
Qed.

(* the suffixes of all bindings, gadget members and callbacks of a document are pairwise distinct *)
Theorem suffixes_distinct ps l : function_suffixes ps = Ok l -> NoDup l.
Proof. intros H. apply (gen_names_spec ps namegen0 l H). Qed.

Theorem suffixes_total ps : exists l, function_suffixes ps = Ok l /\ length l = length ps.
Proof.
  unfold function_suffixes. generalize namegen0. induction ps as [|p r IH]; intros g; cbn [gen_names]; [eexists; split; reflexivity|].
  destruct (generate_total g p []) as [id [g' G]]. unfold generate. rewrite G. cbn [bind fst snd].
  destruct (IH g') as [l [E L]]. rewrite E. cbn [bind]. eexists; split; [reflexivity|cbn; lia].
Qed.

Open Scope string_scope.
Lemma append_first c1 r1 a c2 r2 b : (String c1 r1 ++ a = String c2 r2 ++ b)%string -> c1 = c2.
Proof. cbn. intros H. inversion H. reflexivity. Qed.

(* hence the member functions: setupX / updateX / evalX (and onX) never clash *)
Theorem function_names_distinct l : NoDup l -> NoDup (flat_map function_names l).
Proof.
  induction 1 as [|x r Hx ND IH]; cbn [flat_map]; [constructor|].
  assert (Hin : forall y, In y (flat_map function_names r) -> exists s, In s r /\ (y = "setup" ++ s \/ y = "update" ++ s \/ y = "eval" ++ s)).
  { intros y Hy. apply in_flat_map in Hy. destruct Hy as [s [Hs Hy]]. exists s. split; [exact Hs|]. cbn in Hy. intuition. }
  unfold function_names at 1. cbn [app].
  repeat constructor; cbn [In]; try exact IH.
  - intros [E|[E|X]].
    + apply append_first in E. discriminate.
    + apply append_first in E. discriminate.
    + destruct (Hin _ X) as [s [Hs [E|[E|E]]]]; [apply append_inj_r in E; subst; contradiction|apply append_first in E; discriminate|apply append_first in E; discriminate].
  - intros [E|X].
    + apply append_first in E. discriminate.
    + destruct (Hin _ X) as [s [Hs [E|[E|E]]]]; [apply append_first in E; discriminate|apply append_inj_r in E; subst; contradiction|apply append_first in E; discriminate].
  - intros X. destruct (Hin _ X) as [s [Hs [E|[E|E]]]]; [apply append_first in E; discriminate|apply append_first in E; discriminate|apply append_inj_r in E; subst; contradiction].
Qed.

(* ================= index and guard ================= *)
Open Scope nat_scope.
Theorem indices_distinct n : NoDup (binding_indices n) /\ length (binding_indices n) = n /\ (forall i, In i (binding_indices n) <-> i < n).
Proof. unfold binding_indices. split; [apply seq_NoDup|]. split; [apply seq_length|]. intros i. rewrite in_seq. lia. Qed.

(* every index used has its word inside the array; the array is never zero-sized when there is a binding *)
Theorem guard_covers n i : i < n -> guard_word i < guard_words n /\ guard_bit i < 32.
Proof.
  unfold guard_word, guard_words, guard_bit. intros H. split; [|apply Nat.mod_upper_bound; lia].
  apply Nat.div_lt_upper_bound; [lia|]. pose proof (Nat.div_mod (n + 31) 32 ltac:(lia)) as D. pose proof (Nat.mod_upper_bound (n + 31) 32 ltac:(lia)). lia.
Qed.
Theorem guard_nonempty n : 0 < n -> 0 < guard_words n.
Proof. intros H. destruct (guard_covers n 0 H) as [G _]. lia. Qed.
(* two different bindings never share a guard bit *)
Theorem guard_bits_distinct i j : guard_word i = guard_word j -> guard_bit i = guard_bit j -> i = j.
Proof.
  unfold guard_word, guard_bit. intros H1 H2. rewrite (Nat.div_mod i 32), (Nat.div_mod j 32) by lia. rewrite H1, H2. reflexivity.
Qed.

(* Unreachable.v -- C06 second clause, second half: control never runs INTO the unreachable marker.  In the code tir::build returns, a block that ends in
   the unreachable marker is not the entry and is the target of no jump of any block: the final pass (finalize_completion_values, tir/core.rs) writes the
   marker only to blocks that no conditional jump targets, and turns every unconditional jump into such a block into a return or a marker of its own. *)
From QV Require Import model.Base model.Lang model.Types model.Tir model.CfgCheck model.Builder model.Passes proofs.BuilderInv proofs.BuilderCfg.
From Coq Require Import Arith Lia Bool.
Open Scope nat_scope.
Open Scope list_scope.

Definition is_final_term (t : option term) : Prop := match t with Some (TmReturn _) | Some TmUnreachable => True | _ => False end.

Section Loop.
  Variable ct : list nat.                       (* targets of the conditional jumps (they never change) *)
  Definition reach (i : nat) : bool := Nat.eqb i 0 || existsb (Nat.eqb i) ct.

  Record LInv (blocks : list block) (tv taken : list nat) : Prop := {
    li_cond : forall j bj c x y, nth_error blocks j = Some bj -> b_term bj = Some (TmBrCond c x y) -> In x ct /\ In y ct;
    li_unr : forall i b, nth_error blocks i = Some b -> b_term b = Some TmUnreachable ->
             reach i = false /\ (forall j bj, nth_error blocks j = Some bj -> b_term bj = Some (TmBr i) -> In j tv);
    li_taken : forall k, In k taken -> exists b, nth_error blocks k = Some b /\ is_final_term (b_term b) }.

  Lemma nth_update {A} (l : list A) i j f x : nth_error l i = Some x -> nth_error (update_nth l i f) j = if Nat.eqb i j then Some (f x) else nth_error l j.
  Proof.
    intros H. destruct (Nat.eqb_spec i j) as [->|Hne].
    - revert j H. induction l as [|y r IH]; intros [|j] H; cbn in *; try discriminate; [inversion H; reflexivity|apply IH; exact H].
    - apply update_nth_other. exact Hne.
  Qed.

  Lemma finalize_loop_isolates : forall fuel blocks tv taken bl, finalize_loop fuel reach blocks tv taken = Ok bl -> LInv blocks tv taken -> LInv bl [] taken \/ exists tk, LInv bl [] tk.
  Proof.
    induction fuel as [|k IH]; intros blocks tv taken bl H Inv; [discriminate H|].
    cbn [finalize_loop] in H. destruct (rev tv) as [|i rest_rev] eqn:Er.
    - inversion H; subst. assert (tv = []) by (rewrite <- (rev_involutive tv), Er; reflexivity). subst tv. left. exact Inv.
    - assert (Htv : tv = rev rest_rev ++ [i]) by (rewrite <- (rev_involutive tv), Er; reflexivity).
      destruct (nth_error blocks i) as [b|] eqn:Eb; [|discriminate H].
      destruct Inv as [Ic Iu It].
      (* the popped block has terminator br / none: it is not in taken *)
      assert (Hnt : (exists l, b_term b = Some (TmBr l)) \/ b_term b = None -> ~ In i taken).
      { intros Hb Hin. destruct (It i Hin) as (b' & Hb' & Hf). rewrite Eb in Hb'. inversion Hb'; subst b'. destruct Hb as [[l Hl]|Hl]; rewrite Hl in Hf; exact Hf. }
      (* patching block i with a final terminator t and continuing with tv' keeps the invariant, provided a new marker is justified *)
      assert (Hstep : forall t tv' taken', (exists l, b_term b = Some (TmBr l)) \/ b_term b = None -> is_final_term (Some t) ->
                (forall j, In j (rev rest_rev) -> In j tv') ->
                (t = TmUnreachable -> reach i = false /\ forall j bj, nth_error blocks j = Some bj -> b_term bj = Some (TmBr i) -> j <> i -> In j tv') ->
                (forall k0, In k0 taken' -> k0 = i \/ In k0 taken) ->
                LInv (update_nth blocks i (fun b => set_term b t)) tv' taken').
      { intros t tv' taken' Hb Hft Hsub Hnew Htk. split.
        - intros j bj c x y Hj Hc. rewrite (nth_update _ _ _ _ _ Eb) in Hj. destruct (Nat.eqb_spec i j) as [->|Hne].
          + inversion Hj; subst. cbn [set_term b_term] in Hc. inversion Hc; subst. contradiction.
          + eapply Ic; eauto.
        - intros i0 b0 Hi0 Hu. rewrite (nth_update _ _ _ _ _ Eb) in Hi0. destruct (Nat.eqb_spec i i0) as [<-|Hne].
          + inversion Hi0; subst. cbn [set_term b_term] in Hu. inversion Hu; subst t. destruct (Hnew eq_refl) as [Hr Hp]. split; [exact Hr|].
            intros j bj Hj Hbr. rewrite (nth_update _ _ _ _ _ Eb) in Hj. destruct (Nat.eqb_spec i j) as [->|Hne2].
            * inversion Hj; subst. cbn [set_term b_term] in Hbr. discriminate Hbr.
            * eapply Hp; eauto.
          + destruct (Iu i0 b0 Hi0 Hu) as [Hr Hp]. split; [exact Hr|].
            intros j bj Hj Hbr. rewrite (nth_update _ _ _ _ _ Eb) in Hj. destruct (Nat.eqb_spec i j) as [->|Hne2].
            * inversion Hj; subst. cbn [set_term b_term] in Hbr. inversion Hbr; subst. destruct Hft.
            * specialize (Hp j bj Hj Hbr). rewrite Htv in Hp. apply in_app_or in Hp. destruct Hp as [Hp|[Hp|[]]]; [apply Hsub; exact Hp|congruence].
        - intros k0 Hk0. destruct (Htk k0 Hk0) as [->|Hin].
          + exists (set_term b t). rewrite (nth_update _ _ _ _ _ Eb), Nat.eqb_refl. split; [reflexivity|exact Hft].
          + destruct (It k0 Hin) as (b' & Hb' & Hf). rewrite (nth_update _ _ _ _ _ Eb). destruct (Nat.eqb_spec i k0) as [->|Hne].
            * exists (set_term b t). split; [reflexivity|exact Hft].
            * exists b'. auto. }
      assert (Hgo : forall t tv' taken', finalize_loop k reach (update_nth blocks i (fun b => set_term b t)) tv' taken' = Ok bl ->
                LInv (update_nth blocks i (fun b => set_term b t)) tv' taken' -> LInv bl [] taken \/ exists tk, LInv bl [] tk).
      { intros t tv' taken' Hf Hi. destruct (IH _ _ _ _ Hf Hi) as [Hx|[tk Hx]]; right; eexists; exact Hx. }
      assert (Hcase : (exists l, b_term b = Some (TmBr l)) \/ b_term b = None -> LInv bl [] taken \/ exists tk, LInv bl [] tk).
      { intros Hb.
        assert (H' : match b_compl b with
                     | Some a => finalize_loop k reach (update_nth blocks i (fun b => set_term b (TmReturn a))) (rev rest_rev) taken
                     | None =>
                         let has_incoming := match incoming_of blocks 0 i with [] => false | _ => true end in
                         let nonempty := match b_stmts b with [] => false | _ => true end in
                         let t := if reach i || (nonempty && has_incoming) then TmReturn OVoid else TmUnreachable in
                         let blocks' := update_nth blocks i (fun b => set_term b t) in
                         match b_stmts b with
                         | [] => let inc := if existsb (Nat.eqb i) taken then [] else incoming_of blocks 0 i in finalize_loop k reach blocks' (rev rest_rev ++ inc) (i :: taken)
                         | _ => finalize_loop k reach blocks' (rev rest_rev) taken
                         end
                     end = Ok bl).
        { destruct Hb as [[l Hl]|Hl]; rewrite Hl in H; exact H. }
        clear H. destruct (b_compl b) as [a|].
        - eapply Hgo; [exact H'|]. apply Hstep; [exact Hb|exact I|auto| discriminate |auto].
        - cbv zeta in H'.
          assert (Hnot : existsb (Nat.eqb i) taken = false).
          { destruct (existsb (Nat.eqb i) taken) eqn:Ex; [|reflexivity]. exfalso. apply existsb_exists in Ex. destruct Ex as (x & Hx & Hxe). apply Nat.eqb_eq in Hxe. subst x.
            exact (Hnt Hb Hx). }
          destruct (b_stmts b) as [|st0 sts] eqn:Es.
          + rewrite Hnot in H'. cbn [andb] in H'. rewrite orb_false_r in H'.
            eapply Hgo; [exact H'|]. apply Hstep; [exact Hb|destruct (reach i); exact I| intros j Hj; apply in_or_app; left; exact Hj | |].
            * intros Hu. destruct (reach i) eqn:Er2; [discriminate Hu|]. split; [reflexivity|].
              intros j bj Hj Hbr _. apply in_or_app. right. apply incoming_of_spec. exists bj. rewrite Nat.sub_0_r. split; [lia|auto].
            * intros k0 [<-|Hk0]; auto.
          + cbn [andb] in H'.
            eapply Hgo; [exact H'|]. apply Hstep; [exact Hb| | auto | | auto].
            * destruct (reach i || _); exact I.
            * intros Hu. destruct (reach i) eqn:Er2; [cbn [orb] in Hu; discriminate Hu|]. cbn [orb] in Hu.
              destruct (incoming_of blocks 0 i) as [|j0 jr] eqn:Ei; [|discriminate Hu]. split; [reflexivity|].
              intros j bj Hj Hbr _. exfalso. assert (Hin : In j (incoming_of blocks 0 i)) by (apply incoming_of_spec; exists bj; rewrite Nat.sub_0_r; split; [lia|auto]).
              rewrite Ei in Hin. exact Hin. }
      destruct (b_term b) as [[l|c a1 a2|a|]|] eqn:Et; try discriminate H.
      + apply Hcase. left. eexists. reflexivity.
      + apply Hcase. right. reflexivity.
  Qed.
End Loop.

Lemma cond_targets_in : forall blocks j bj c x y, nth_error blocks j = Some bj -> b_term bj = Some (TmBrCond c x y) -> In x (cond_targets blocks) /\ In y (cond_targets blocks).
Proof.
  intros blocks j bj c x y Hj Hc. unfold cond_targets. split; apply in_flat_map; exists bj; (split; [eapply nth_error_In; exact Hj|rewrite Hc; cbn; auto]).
Qed.

Theorem finalize_unreachable_isolated blocks start bl : finalize_completion_values blocks start = Ok bl ->
  Forall (fun b => b_term b <> Some TmUnreachable) blocks ->
  forall i b, nth_error bl i = Some b -> b_term b = Some TmUnreachable ->
    i <> 0 /\ forall j bj, nth_error bl j = Some bj -> ~ In i (succs bj).
Proof.
  unfold finalize_completion_values. intros H Hno i b Hi Hu.
  destruct (nth_error blocks start) as [sb|] eqn:Es; [|discriminate H]. destruct (b_term sb) eqn:Et; [discriminate H|]. destruct (b_compl sb) as [a|].
  - (* the start block returns its completion value: no marker is written at all *)
    exfalso. inversion H; subst. rewrite (nth_update _ _ _ _ _ Es) in Hi. destruct (Nat.eqb_spec start i) as [->|Hne].
    + inversion Hi; subst. cbn [set_term b_term] in Hu. discriminate Hu.
    + rewrite Forall_forall in Hno. exact (Hno b (nth_error_In _ _ Hi) Hu).
  - destruct (negb (br_targets_ok blocks)); [discriminate H|].
    assert (Inv0 : LInv (cond_targets blocks) blocks [start] []).
    { split.
      - intros j bj c x y Hj Hc. eapply cond_targets_in; eauto.
      - intros i0 b0 Hi0 Hu0. exfalso. rewrite Forall_forall in Hno. exact (Hno b0 (nth_error_In _ _ Hi0) Hu0).
      - intros k0 []. }
    assert (Hfin : exists tk, LInv (cond_targets blocks) bl [] tk).
    { destruct (finalize_loop_isolates _ _ _ _ _ _ H Inv0) as [Hx|[tk Hx]]; eexists; exact Hx. }
    destruct Hfin as [tk [Ic Iu _]]. destruct (Iu i b Hi Hu) as [Hr Hp]. unfold reach in Hr. apply orb_false_iff in Hr. destruct Hr as [H0 Hct].
    split; [apply Nat.eqb_neq; exact H0|].
    intros j bj Hj Hin. unfold succs in Hin. destruct (b_term bj) as [[l|c x y|a|]|] eqn:Etj; try exact Hin.
    + destruct Hin as [<-|[]]. exact (Hp j bj Hj Etj).
    + destruct (Ic j bj c x y Hj Etj) as [Hx Hy].
      assert (Hc : In i (cond_targets blocks)) by (destruct Hin as [<-|[<-|[]]]; assumption).
      assert (existsb (Nat.eqb i) (cond_targets blocks) = true) by (apply existsb_exists; exists i; split; [exact Hc|apply Nat.eqb_refl]). congruence.
Qed.

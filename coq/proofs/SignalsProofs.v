(* SignalsProofs.v -- C02: Current /\ Covered is an invariant of every history *)
From QV Require Import model.Base model.Signals.
Open Scope list_scope.

Section Proofs.
  Variable key value : Type.
  Variable key_eqb : key -> key -> bool.
  Hypothesis key_eqb_spec : forall a b, key_eqb a b = true <-> a = b.
  Notation world := (key -> value).
  Variable eval : world -> value.
  Variable reads connected : world -> list key.

  (* frame: the evaluation depends only on the keys it reads *)
  Hypothesis frame : forall w w', (forall k, In k (reads w) -> w' k = w k) -> eval w' = eval w /\ reads w' = reads w /\ connected w' = connected w.
  (* coverage: after evaluating in w, the binding is connected to every key it has read (the dependency set is complete) *)
  Hypothesis covered : forall w k, In k (reads w) -> In k (connected w).

  Definition current (s : bstate key value) : Prop :=
    target _ _ s = eval (now _ _ s)
    /\ (forall k, In k (reads (last _ _ s)) -> now _ _ s k = last _ _ s k).      (* nothing the last evaluation read has changed unobserved *)

  Lemma kmem_in k l : kmem _ key_eqb k l = true <-> In k l.
  Proof.
    unfold kmem. rewrite existsb_exists. split.
    - intros [x [Hx E]]. apply key_eqb_spec in E. subst. exact Hx.
    - intros H. exists k. split; [exact H|apply key_eqb_spec; reflexivity].
  Qed.

  Lemma setup_current w : current (setup _ _ eval w).
  Proof. split; [reflexivity|intros; reflexivity]. Qed.

  Lemma step_current s c : current s -> current (step _ _ key_eqb eval connected s c).
  Proof.
    intros [Ht Hr]. unfold step. destruct (kmem _ key_eqb (fst c) (connected (last _ _ s))) eqn:M.
    - split; [reflexivity|intros; reflexivity].
    - cbn [now last target]. assert (Hn : ~ In (fst c) (reads (last _ _ s))).
      { intros X. apply covered in X. apply kmem_in in X. congruence. }
      assert (Hk : forall k, In k (reads (last _ _ s)) -> update _ _ key_eqb (now _ _ s) (fst c) (snd c) k = last _ _ s k).
      { intros k Hk. unfold update. destruct (key_eqb k (fst c)) eqn:E; [apply key_eqb_spec in E; subst; contradiction|apply Hr, Hk]. }
      split; [|exact Hk].
      destruct (frame (last _ _ s) (update _ _ key_eqb (now _ _ s) (fst c) (snd c)) Hk) as [E1 _].
      destruct (frame (last _ _ s) (now _ _ s) Hr) as [E2 _]. rewrite Ht, E2. symmetry. exact E1.
  Qed.

  (* after setup() and after EVERY subsequent change of ANY property, the target equals the value of the expression in the new world *)
  Theorem stays_current w history : target _ _ (run _ _ key_eqb eval connected w history) = eval (now _ _ (run _ _ key_eqb eval connected w history)).
  Proof.
    assert (H : current (run _ _ key_eqb eval connected w history)).
    { unfold run. generalize (setup_current w). generalize (setup _ _ eval w). induction history as [|c r IH]; intros s Hs; cbn [fold_left]; [exact Hs|].
      apply IH, step_current, Hs. }
    exact (proj1 H).
  Qed.

  (* and the world the run ends in is the initial world with the changes applied in order *)
  Theorem run_world w history : now _ _ (run _ _ key_eqb eval connected w history) = fold_left (fun w0 c => update _ _ key_eqb w0 (fst c) (snd c)) history w.
  Proof.
    unfold run. change w with (now _ _ (setup _ _ eval w)) at 2. generalize (setup _ _ eval w). induction history as [|c r IH]; intros s; cbn [fold_left]; [reflexivity|].
    rewrite IH. f_equal. unfold step. destruct (kmem _ key_eqb (fst c) (connected (last _ _ s))); reflexivity.
  Qed.
End Proofs.

(* the coverage hypothesis is necessary: a binding not connected to a key it reads goes stale *)
Theorem stale_without_coverage_refuted :
  exists (eval : (nat -> nat) -> nat) (connected : (nat -> nat) -> list nat) (w : nat -> nat) (h : list (nat * nat)),
    target _ _ (run nat nat Nat.eqb eval connected w h) <> eval (now _ _ (run nat nat Nat.eqb eval connected w h)).
Proof. exists (fun w => w 0), (fun _ => []), (fun _ => 0), [(0, 1)]. vm_compute. discriminate. Qed.

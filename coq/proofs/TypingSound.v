(* TypingSound.v -- C05, the direction "ill-typed programs are never accepted", for whole expressions: every expression of the fragment
   (literals, local variables, objects by id, this, property reads o.p, subscripts o[i], casts, unary, binary incl. && ||, ternary, in any nesting) that the model of the translator accepts has a typing
   derivation in the declarative system spec/Typing.v. *)
From QV Require Import model.Base model.Lang model.Types model.Tir model.Ceval model.Builder spec.Typing proofs.TypingProofs proofs.BuilderInv proofs.BuilderSafe.
From Coq Require Import Arith Lia.
Open Scope nat_scope.
Open Scope list_scope.

(* string literals become QString operands before a run-time check: invisible to the tables *)
Definition ecsd (d : tdesc) : tdesc := match d with DConstString => DConcrete T_STRING | _ => d end.
Lemma ecs_tdesc' a : operand_tdesc (ensure_concrete_string a) = ecsd (operand_tdesc a).
Proof. destruct a as [c| | | |]; try reflexivity. destruct c; reflexivity. Qed.

Lemma concrete_ecsd d : concrete (ecsd d) = concrete d.
Proof. destruct d; reflexivity. Qed.
Lemma common_concrete_ecsd E a b : common_concrete E (ecsd a) (ecsd b) = common_concrete E a b.
Proof.
  unfold common_concrete, common. destruct a as [| | | |ta], b as [| | | |tb]; cbn; try reflexivity.
  all: try (destruct tb as [[| |[]]| |]; reflexivity).
  all: try (destruct ta as [[| |[]]| |]; reflexivity).
Qed.

Lemma spec_binary_ecsd E k a b : spec_binary E k (ecsd a) (ecsd b) = spec_binary E k a b.
Proof.
  destruct k; cbn [spec_binary]; rewrite ?common_concrete_ecsd, ?concrete_ecsd; try reflexivity.
  - destruct b; reflexivity.
  - destruct a, b; reflexivity.
Qed.
Lemma spec_unary_ecsd k a : spec_unary k (ecsd a) = spec_unary k a.
Proof. destruct k; cbn [spec_unary]; rewrite ?concrete_ecsd; try reflexivity. destruct a; reflexivity. Qed.

Lemma inl_inv0 {A B} (x y : A) : @inl A B x = inl y -> x = y.
Proof. intros H. inversion H. reflexivity. Qed.
Definition opnq (a : operand) : Prop := match a with OConst (CQString _) => False | _ => True end.
Definition result_of (t : tkind) (d : tdesc) : Prop := concrete d = Some t.

Lemma emit_result_desc ty rv s a s' : emit_result ty rv s = (V a, s') -> concrete (operand_tdesc a) = Some ty.
Proof.
  unfold emit_result, mbind, alloca. destruct (tkind_eqb ty T_VOID) eqn:Ev.
  - apply tkind_eqb_eq in Ev. subst. destruct (push_statement (TExec rv) s) as [[u| |x] s1]; intros H; inversion H; reflexivity.
  - cbn. match goal with |- context [push_statement ?st ?s0] => destruct (push_statement st s0) as [[u| |x] s1] end; intros H; inversion H; reflexivity.
Qed.

(* the folder on ANY two constants (a QString constant, which only a cast produces, included): what it folds, the table admits *)
Lemma fold_sound E b l r v : match b with BoLAnd | BoLOr => False | _ => True end -> fold_binary b l r = inl v ->
  (exists t, spec_binary E (opclass_of b) (const_tdesc l) (const_tdesc r) = Some t /\ concrete (const_tdesc v) = Some t) \/ (l = CNull /\ r = CNull).
Proof.
  intros Hb Hf.
  assert (Hq : (no_qstring l /\ no_qstring r) \/ (exists x, l = CQString x) \/ (exists x, r = CQString x)).
  { destruct l; try (right; left; eexists; reflexivity); destruct r; try (right; right; eexists; reflexivity); left; split; exact I. }
  destruct Hq as [[Hl Hr]|Hq].
  - pose proof (const_dyn_agree E b l r Hl Hr Hb) as Ha. rewrite Hf in Ha. exact Ha.
  - left. unfold fold_binary, eval_binary_arith, eval_binary_bitwise, eval_shift, eval_comparison in Hf.
    destruct Hq as [[x ->]|[x ->]].
    + destruct b; cbn [binop_class] in Hf; try contradiction; destruct r; try discriminate Hf;
        apply inl_inv0 in Hf; subst v; exists T_BOOL; split; reflexivity.
    + destruct b; cbn [binop_class] in Hf; try contradiction; destruct l; try discriminate Hf;
        apply inl_inv0 in Hf; subst v; exists T_BOOL; split; reflexivity.
Qed.

(* a binary operator node (not && ||): what the builder accepts, the table admits, with the same result type *)
Lemma visit_binary_sound E b l r s res s' : binop_class b <> KLogical ->
  visit_binary E b l r s = (V res, s') ->
  (exists t, spec_binary E (opclass_of b) (operand_tdesc l) (operand_tdesc r) = Some t /\ concrete (operand_tdesc res) = Some t)
  \/ (l = OConst CNull /\ r = OConst CNull).
Proof.
  intros Hk H. unfold visit_binary in H.
  assert (Hdyn : emit_binary E b l r s = (V res, s') ->
                 exists t, spec_binary E (opclass_of b) (operand_tdesc l) (operand_tdesc r) = Some t /\ concrete (operand_tdesc res) = Some t).
  { intros He. rewrite emit_binary_unfold in He. cbv zeta in He. unfold mbind in He.
    pose proof (binary_check_spec E b (operand_tdesc (ensure_concrete_string l)) (operand_tdesc (ensure_concrete_string r)) s
                  ltac:(destruct b; try exact I; exfalso; apply Hk; reflexivity)) as Hs.
    unfold succeeds in Hs.
    destruct (binary_check E b (operand_tdesc (ensure_concrete_string l)) (operand_tdesc (ensure_concrete_string r)) s) as [[ty| |x] s1]; try discriminate.
    cbn [fst] in Hs. rewrite !ecs_tdesc', spec_binary_ecsd in Hs. exists ty. split; [symmetry; exact Hs|]. eapply emit_result_desc. exact He. }
  destruct l as [cl| | | |]; try (left; apply Hdyn; exact H).
  destruct r as [cr| | | |]; try (left; apply Hdyn; exact H).
  assert (Hf : of_ceval (fold_binary b cl cr) s = (V res, s')).
  { unfold fold_binary. destruct (binop_class b); try exact H. exfalso. apply Hk. reflexivity. }
  destruct (fold_binary b cl cr) as [v|e] eqn:Ef; cbn [of_ceval] in Hf.
  - inversion Hf; subst.
    destruct (fold_sound E b cl cr v ltac:(destruct b; try exact I; exfalso; apply Hk; reflexivity) Ef) as [[t [H1 H2]]|[-> ->]]; [left; exists t; auto|right; auto].
  - exfalso. destruct e; cbn in Hf; discriminate.
Qed.

Lemma visit_unary_sound u a s res s' : visit_unary u a s = (V res, s') ->
  exists t, spec_unary (uclass_of u) (operand_tdesc a) = Some t /\ concrete (operand_tdesc res) = Some t.
Proof.
  intros H. unfold visit_unary in H.
  assert (Hdyn : emit_unary u a s = (V res, s') -> exists t, spec_unary (uclass_of u) (operand_tdesc a) = Some t /\ concrete (operand_tdesc res) = Some t).
  { intros He. rewrite emit_unary_unfold in He. cbv zeta in He. unfold mbind in He.
    pose proof (unary_check_spec u (operand_tdesc (ensure_concrete_string a)) s) as Hs. unfold succeeds in Hs.
    destruct (unary_check u (operand_tdesc (ensure_concrete_string a)) s) as [[ty| |x] s1]; try discriminate.
    cbn [fst] in Hs. rewrite ecs_tdesc', spec_unary_ecsd in Hs. exists ty. split; [symmetry; exact Hs|]. eapply emit_result_desc. exact He. }
  destruct a as [c| | | |]; try (apply Hdyn; exact H).
  destruct u, c; cbn in H; try discriminate.
  all: try (unfold checked in H; match type of H with context [in_i64 ?z] => destruct (in_i64 z) end; cbn in H; try discriminate).
  all: inversion H; subst; eexists; split; reflexivity.
Qed.

Lemma alloca_desc ty s a s' : alloca ty s = (V a, s') -> concrete (operand_tdesc (match a with Some sk => sk | None => OVoid end)) = Some ty.
Proof.
  unfold alloca. destruct (tkind_eqb ty T_VOID) eqn:Ev; intros H; inversion H; subst; [|reflexivity].
  apply tkind_eqb_eq in Ev. subst. reflexivity.
Qed.

Lemma visit_ternary_sound E cond cr conseq qr alt ar s res s' : visit_ternary E cond cr conseq qr alt ar s = (V res, s') ->
  exists t, common_concrete E (operand_tdesc conseq) (operand_tdesc alt) = Some t /\ concrete (operand_tdesc res) = Some t.
Proof.
  intros H. unfold visit_ternary in H. cbv zeta in H. unfold mbind at 1 in H.
  pose proof (m_deduce_concrete_spec E (operand_tdesc (ensure_concrete_string conseq)) (operand_tdesc (ensure_concrete_string alt)) s) as Hs. unfold succeeds in Hs.
  destruct (m_deduce_concrete E (operand_tdesc (ensure_concrete_string conseq)) (operand_tdesc (ensure_concrete_string alt)) s) as [[ty| |x] s1]; try discriminate.
  cbn [fst] in Hs. rewrite !ecs_tdesc', common_concrete_ecsd in Hs. exists ty. split; [symmetry; exact Hs|].
  unfold mbind at 1 in H. destruct (alloca ty s1) as [[sink| |x] s2] eqn:Ea; try discriminate.
  pose proof (alloca_desc _ _ _ _ Ea) as Hd.
  repeat (unfold mbind at 1 in H; match type of H with (let (o, s0) := ?m ?st in _) = _ => destruct (m st) as [[?| |?] ?]; try discriminate end).
  cbn in H. inversion H; subst. exact Hd.
Qed.

Lemma visit_binary_logical_sound E is_and lhs lr rhs rr s res s' : visit_binary_logical is_and lhs lr rhs rr s = (V res, s') ->
  spec_binary E OLogical (operand_tdesc lhs) (operand_tdesc rhs) = Some T_BOOL /\ concrete (operand_tdesc res) = Some T_BOOL.
Proof.
  intros H. unfold visit_binary_logical in H. cbn [spec_binary].
  destruct (tdesc_eqb (operand_tdesc lhs) (DConcrete T_BOOL) && tdesc_eqb (operand_tdesc rhs) (DConcrete T_BOOL)); cbn [negb] in H; [|discriminate].
  split; [reflexivity|]. cbv zeta in H. unfold mbind at 1 in H. unfold alloca in H. change (tkind_eqb T_BOOL T_VOID) with false in H. cbn iota in H.
  repeat (unfold mbind at 1 in H; match type of H with (let (o, s0) := ?m ?st in _) = _ => destruct (m st) as [[?| |?] ?]; try discriminate end).
  cbn in H. inversion H; subst. reflexivity.
Qed.

(* ---------------------------------------------------------------- whole expressions *)
Inductive Typed (E : cenv) (G : string -> option tkind) : expr -> tdesc -> Prop :=
| TyInt n : Typed E G (EInt n) DConstInteger
| TyFloat b : Typed E G (EFloat b) (DConcrete T_DOUBLE)
| TyStr s : Typed E G (EStr s) DConstString
| TyBool b : Typed E G (EBool b) (DConcrete T_BOOL)
| TyNull : Typed E G ENull DNullPointer
| TyLocal x t : G x = Some t -> Typed E G (EIdent x) (DConcrete t)
| TyUnary op u a da t d : uop_of op = Some u -> Typed E G a da -> spec_unary (uclass_of u) da = Some t -> concrete d = Some t -> Typed E G (EUnary op a) d
| TyBinary op b l r dl dr t d : bop_of op = Some b -> binop_class b <> KLogical -> Typed E G l dl -> Typed E G r dr ->
    spec_binary E (opclass_of b) dl dr = Some t -> concrete d = Some t -> Typed E G (EBinary op l r) d
| TyNullNull op b l r d : bop_of op = Some b -> binop_class b <> KLogical -> Typed E G l DNullPointer -> Typed E G r DNullPointer ->
    Typed E G (EBinary op l r) d          (* the one exception of the constant folder: null == null and the like *)
| TyLogical op b l r : bop_of op = Some b -> binop_class b = KLogical -> Typed E G l (DConcrete T_BOOL) -> Typed E G r (DConcrete T_BOOL) ->
    Typed E G (EBinary op l r) (DConcrete T_BOOL)
| TyTernary c a b da db t d : Typed E G c (DConcrete T_BOOL) -> Typed E G a da -> Typed E G b db -> common_concrete E da db = Some t ->
    concrete d = Some t -> Typed E G (ETernary c a b) d
(* the objects of the document, by id, and the object the binding belongs to *)
| TyObject x c : G x = None -> assoc x (ce_objects E) = Some c -> Typed E G (EIdent x) (DConcrete (TPointer (NClass c)))
| TyThis c n : ce_this E = Some (c, n) -> Typed E G EThis (DConcrete (TPointer (NClass c)))
(* o.p read as a value: p is a readable property of the class of o (found in the class or an ancestor, see C17) *)
| TyMember o p dobj ty cls dc pi d : Typed E G o dobj -> concrete dobj = Some ty -> class_of_type ty = Some cls -> get_property E cls p = Some (dc, pi) ->
    pi_readable pi = true -> concrete d = Some (pi_type pi) -> Typed E G (EMember o p) d
(* e as T: one of the documented casts *)
| TyAs v path dv t d : Typed E G v dv -> annotated_type E path = Some t -> spec_castable E t (ecsd dv) = true -> concrete d = Some t -> Typed E G (EAs v path) d
(* l[i] read as a value *)
| TySubscript o ix dobj di e d : Typed E G o dobj -> Typed E G ix di -> spec_subscript dobj di = Some e -> concrete d = Some e -> Typed E G (ESubscript o ix) d.

Fixpoint frag (E : cenv) (env : lenv) (e : expr) : bool :=
  match e with
  | EInt _ | EFloat _ | EStr _ | EBool _ | ENull => true
  | EIdent x => match lenv_get env x with Some _ => true | None => match assoc x (ce_objects E) with Some _ => true | None => false end end
  | EThis => true
  | EUnary _ a => frag E env a
  | EBinary _ l r => frag E env l && frag E env r
  | ETernary c a b => frag E env c && frag E env a && frag E env b
  | EMember o _ => frag E env o
  | EAs v _ => frag E env v
  | ESubscript o ix => frag E env o && frag E env ix
  | _ => false
  end.

(* the typing context: the declared types of the locals the environment names, read in the state the translation starts from *)
Definition ctx_of (env : lenv) (s0 : bstate) (x : string) : option tkind :=
  match lenv_get env x with Some (l, _) => nth_error (bs_locals s0) l | None => None end.

Lemma Rel_local s0 s l : Rel s0 s -> l < List.length (bs_locals s0) -> nth_error (bs_locals s) l = nth_error (bs_locals s0) l.
Proof. intros [[suf L] _ _ _] Hl. rewrite L. apply nth_error_app1. exact Hl. Qed.

Ltac minv H := unfold mbind at 1 in H;
  match type of H with (let (o, s0) := ?m ?st in _) = _ => let E := fresh "E" in destruct (m st) as [[?| |?] ?] eqn:E; try discriminate H end.

Ltac minvn H x st E := unfold mbind at 1 in H;
  match type of H with (let (o, s0) := ?m ?st0 in _) = _ => destruct (m st0) as [[x| |?] st] eqn:E; try discriminate H end.

Lemma Inv_rel {A} (m : M A) s r s' : Inv m -> m s = (r, s') -> Rel s s'.
Proof. intros H E. specialize (H s). rewrite E in H. exact H. Qed.

Lemma inl_inv {A B} (x y : A) : @inl A B x = inl y -> x = y.
Proof. intros H. inversion H. reflexivity. Qed.
Ltac nq_close := intros H;
  match type of H with
  | inr _ = inl _ => exfalso; inversion H
  | inl _ = inl _ => apply inl_inv in H; rewrite <- H; exact I
  end.
Lemma fold_nq b l r v : fold_binary b l r = inl v -> no_qstring v.
Proof.
  unfold fold_binary, eval_binary_arith, eval_binary_bitwise, eval_shift, eval_comparison, checked.
  destruct b; cbn [binop_class]; destruct l, r;
    repeat match goal with |- context [if ?c then _ else _] => destruct c end; nq_close.
Qed.

Lemma alloca_nq ty s a s' : alloca ty s = (V a, s') -> opnq (match a with Some sk => sk | None => OVoid end).
Proof. unfold alloca. destruct (tkind_eqb ty T_VOID); intros H; inversion H; subst; exact I. Qed.
Lemma emit_result_nq ty rv s a s' : emit_result ty rv s = (V a, s') -> opnq a.
Proof.
  unfold emit_result. intros H. unfold mbind at 1 in H. destruct (alloca ty s) as [[sk| |x] s1] eqn:Ea; try discriminate.
  pose proof (alloca_nq _ _ _ _ Ea) as Hn. destruct sk as [l|]; unfold mbind in H;
    match type of H with context [push_statement ?st ?s0] => destruct (push_statement st s0) as [[u| |x] s2] end; inversion H; subst; exact Hn.
Qed.
Lemma visit_unary_nq u a s res s' : visit_unary u a s = (V res, s') -> opnq res.
Proof.
  intros H. unfold visit_unary in H.
  assert (Hdyn : emit_unary u a s = (V res, s') -> opnq res).
  { intros He. rewrite emit_unary_unfold in He. cbv zeta in He. unfold mbind in He.
    destruct (unary_check u (operand_tdesc (ensure_concrete_string a)) s) as [[ty| |x] s1]; try discriminate.
    eapply emit_result_nq. exact He. }
  destruct a as [c| | | |]; try (apply Hdyn; exact H).
  destruct u, c; cbn in H; try discriminate.
  all: try (unfold checked in H; match type of H with context [in_i64 ?z] => destruct (in_i64 z) end; cbn in H; try discriminate).
  all: inversion H; subst; exact I.
Qed.
Lemma visit_binary_nq E b l r s res s' : binop_class b <> KLogical -> visit_binary E b l r s = (V res, s') -> opnq res.
Proof.
  intros Hk H. unfold visit_binary in H.
  assert (Hdyn : emit_binary E b l r s = (V res, s') -> opnq res).
  { intros He. rewrite emit_binary_unfold in He. cbv zeta in He. unfold mbind in He.
    destruct (binary_check E b (operand_tdesc (ensure_concrete_string l)) (operand_tdesc (ensure_concrete_string r)) s) as [[ty| |x] s1]; try discriminate.
    eapply emit_result_nq. exact He. }
  destruct l as [cl| | | |]; try (apply Hdyn; exact H).
  destruct r as [cr| | | |]; try (apply Hdyn; exact H).
  assert (Hf : of_ceval (fold_binary b cl cr) s = (V res, s')).
  { unfold fold_binary. destruct (binop_class b); try exact H. exfalso. apply Hk. reflexivity. }
  destruct (fold_binary b cl cr) as [v|e] eqn:Ef; cbn [of_ceval] in Hf.
  - inversion Hf; subst. cbn [opnq]. pose proof (fold_nq _ _ _ _ Ef) as Hn. destruct v; try exact I. exact Hn.
  - exfalso. destruct e; cbn in Hf; discriminate.
Qed.
Lemma visit_ternary_nq E cond cr conseq qr alt ar s res s' : visit_ternary E cond cr conseq qr alt ar s = (V res, s') -> opnq res.
Proof.
  intros H. unfold visit_ternary in H. cbv zeta in H. unfold mbind at 1 in H.
  destruct (m_deduce_concrete E (operand_tdesc (ensure_concrete_string conseq)) (operand_tdesc (ensure_concrete_string alt)) s) as [[ty| |x] s1]; try discriminate.
  unfold mbind at 1 in H. destruct (alloca ty s1) as [[sink| |x] s2] eqn:Ea; try discriminate.
  pose proof (alloca_nq _ _ _ _ Ea) as Hd.
  repeat (unfold mbind at 1 in H; match type of H with (let (o, s0) := ?m ?st in _) = _ => destruct (m st) as [[?| |?] ?]; try discriminate end).
  cbn in H. inversion H; subst. exact Hd.
Qed.
Lemma visit_binary_logical_nq is_and lhs lr rhs rr s res s' : visit_binary_logical is_and lhs lr rhs rr s = (V res, s') -> opnq res.
Proof.
  intros H. unfold visit_binary_logical in H.
  destruct (tdesc_eqb (operand_tdesc lhs) (DConcrete T_BOOL) && tdesc_eqb (operand_tdesc rhs) (DConcrete T_BOOL)); cbn [negb] in H; [|discriminate].
  cbv zeta in H. unfold mbind at 1 in H. unfold alloca in H. change (tkind_eqb T_BOOL T_VOID) with false in H. cbn iota in H.
  repeat (unfold mbind at 1 in H; match type of H with (let (o, s0) := ?m ?st in _) = _ => destruct (m st) as [[?| |?] ?]; try discriminate end).
  cbn in H. inversion H; subst. exact I.
Qed.

Lemma check_cond_bool a s u s' : check_condition_type a s = (V u, s') -> operand_tdesc a = DConcrete T_BOOL /\ s' = s.
Proof.
  unfold check_condition_type. destruct (tdesc_eqb (operand_tdesc a) (DConcrete T_BOOL)) eqn:Eq.
  - intros H. inversion H. split; [apply tdesc_eqb_eq; exact Eq|reflexivity].
  - unfold fail. intros H. inversion H.
Qed.

(* what a fragment expression is translated to is never a bare namespace or type name *)
Definition shape_ok (i : inter) : Prop := match i with IBuiltinNamespace _ | IType _ => False | _ => True end.
Lemma frag_shape E env : forall e, frag E env e = true -> forall s i s', walk_expr E env e s = (V i, s') -> shape_ok i.
Proof.
  induction e as [x| |n|fb|str|bb| |es| |o IHo p|o IHo ix IHix|f IHf args|l IHl r IHr|op a IHa|op l IHl r IHr|v IHv ty|c IHc a IHa b IHb];
    cbn [frag]; try discriminate; intros Hf s i s' H; cbn [walk_expr] in H.
  - unfold process_identifier in H. destruct (lenv_get env x) as [[l k]|]; [inversion H; exact I|].
    unfold ctx_get_ref in H. destruct (assoc x (ce_objects E)) as [c|]; [|discriminate Hf]. inversion H; exact I.
  - destruct (ce_this E) as [[c n]|]; inversion H; exact I.
  - minvn H a s1 E1. inversion H; exact I.
  - inversion H; exact I.
  - inversion H; exact I.
  - inversion H; exact I.
  - inversion H; exact I.
  - (* member *) minvn H io s1 E1. pose proof (IHo Hf _ _ _ E1) as Sh.
    assert (Hp : forall it k st, process_item_property E it p k st = (V i, s') -> shape_ok i).
    { intros it k st Hq. unfold process_item_property in Hq. destruct (to_concrete_type (operand_tdesc it)); [|discriminate Hq].
      destruct (class_of_type t); [|discriminate Hq]. destruct (get_property E n p) as [[dc pi]|]; [inversion Hq; exact I|].
      destruct (get_methods E n p) as [[dc ms]|]; [inversion Hq; exact I|discriminate Hq]. }
    destruct io; try contradiction; try discriminate H; try (eapply Hp; exact H); minvn H it s2 E2; eapply Hp; exact H.
  - (* subscript *) minvn H io s1 E1. minvn H ok s2 E2. minvn H idx s3 E3. inversion H; exact I.
  - minvn H arg s1 E1. destruct (uop_of op); [|discriminate H]. minvn H r s2 E2. inversion H; exact I.
  - destruct (bop_of op) as [b|]; [|discriminate H]. destruct (binop_class b).
    1,2,3,5: (minvn H lhs s1 E1; minvn H rhs s2 E2; minvn H it s3 E3; inversion H; exact I).
    minvn H lhs s1 E1. minvn H ll s2 E2. minvn H rhs s3 E3. minvn H rl s4 E4. minvn H u1 s5 E5. minvn H u2 s6 E6. minvn H it s7 E7. inversion H; exact I.
  - minvn H val0 s1 E1. minvn H t s2 E2. minvn H it s3 E3. inversion H; exact I.
  - minvn H cond s1 E1. minvn H cl s2 E2. minvn H conseq s3 E3. minvn H ql s4 E4. minvn H alt s5 E5. minvn H al s6 E6. minvn H u1 s7 E7. minvn H it s8 E8.
    inversion H; exact I.
Qed.

(* the object read by `.p` or `[i]`: what to_rvalue makes of the intermediate result (the arms of walk_expr spell it out case by case) *)
Lemma noop_concrete E t d : pick_type_cast E t d = CNoop -> concrete d = Some t.
Proof.
  unfold pick_type_cast. destruct d as [| | | |k]; cbn [concrete].
  - destruct (tkind_eqb t T_INT || tkind_eqb t T_UINT), (tkind_eqb t T_DOUBLE), (tkind_eqb t T_VOID); discriminate.
  - destruct (tkind_eqb t T_STRING), (tkind_eqb t T_VOID); discriminate.
  - destruct t as [n|n|u]; try discriminate; destruct (tkind_eqb _ T_VOID); discriminate.
  - destruct t as [n|n|u]; try discriminate; destruct (tkind_eqb _ T_VOID); discriminate.
  - unfold pick_concrete_type_cast. destruct (tkind_eqb t k) eqn:Eq; [apply tkind_eqb_eq in Eq; subst; reflexivity|].
    destruct t as [[c|e|p]|[c|e|p]|u], k as [[c'|e'|p']|[c'|e'|p']|u']; intros H;
      repeat match type of H with context [if ?c then _ else _] => destruct c end; discriminate H.
Qed.

Theorem rvalue_typed E env s0 : envwf (List.length (bs_locals s0)) env ->
  forall e, frag E env e = true -> forall s a s', Rel s0 s -> walk_rvalue E env e s = (V a, s') ->
  Typed E (ctx_of env s0) e (operand_tdesc a).
Proof.
  intros Hw.
  induction e as [x| |n|fb|str|bb| |es| |o IHo p|o IHo ix IHix|f IHf args|l IHl r IHr|op a IHa|op l IHl r IHr|v IHv ty|c IHc a IHa b IHb];
    cbn [frag]; try discriminate; intros Hf s res s' HR H; unfold walk_rvalue in H; cbn [walk_expr] in H.
  - (* identifier: a local variable, or an object of the document *)
    unfold process_identifier in H. destruct (lenv_get env x) as [[l k]|] eqn:El.
    + unfold mbind, ret in H. cbn [to_rvalue] in H. unfold visit_local_ref in H.
      destruct (nth_error (bs_locals s) l) as [t|] eqn:En; [|discriminate]. inversion H; subst. cbn [operand_tdesc].
      apply TyLocal. unfold ctx_of. rewrite El. rewrite <- En. symmetry. apply Rel_local; [exact HR|]. eapply Hw. exact El.
    + unfold ctx_get_ref in H. destruct (assoc x (ce_objects E)) as [c|] eqn:Eo; [|discriminate Hf].
      unfold of_ref, mbind, ret in H. cbn [to_rvalue] in H. unfold ret in H. inversion H; subst. cbn [operand_tdesc].
      apply TyObject; [unfold ctx_of; rewrite El; reflexivity|exact Eo].
  - (* this *)
    destruct (ce_this E) as [[c n]|] eqn:Et; [|discriminate H]. unfold mbind, ret in H. cbn [to_rvalue] in H. unfold ret in H. inversion H; subst.
    cbn [operand_tdesc]. eapply TyThis. exact Et.
  - (* integer *)
    unfold visit_integer, mbind, ret, fail in H. destruct (Z.of_N n <=? I64_MAX)%Z; cbn [to_rvalue] in H; [|discriminate].
    unfold ret in H. inversion H; subst. constructor.
  - unfold mbind, ret in H. cbn [to_rvalue] in H. unfold ret in H. inversion H; subst. constructor.
  - unfold mbind, ret in H. cbn [to_rvalue] in H. unfold ret in H. inversion H; subst. constructor.
  - unfold mbind, ret in H. cbn [to_rvalue] in H. unfold ret in H. inversion H; subst. constructor.
  - unfold mbind, ret in H. cbn [to_rvalue] in H. unfold ret in H. inversion H; subst. constructor.
  - (* member: o.p *)
    minvn H i s2 E0. minvn E0 io s1 E1. pose proof (frag_shape E env o Hf _ _ _ E1) as Sh.
    assert (Hobj : exists obj k st, to_rvalue io s1 = (V obj, st) /\ process_item_property E obj p k st = (V i, s2)).
    { destruct io; try contradiction; try discriminate E0.
      - exists a, KRvalue, s1. split; [reflexivity|exact E0].
      - minvn E0 it st E2. exists it, KLvalue, st. split; [exact E2|exact E0].
      - minvn E0 it st E2. exists it, KRvalue, st. split; [exact E2|exact E0].
      - minvn E0 it st E2. exists it, KRvalue, st. split; [exact E2|exact E0]. }
    destruct Hobj as (obj & k & st & Eobj & Ep).
    assert (Eo : walk_rvalue E env o s = (V obj, st)) by (unfold walk_rvalue, mbind; rewrite E1; exact Eobj).
    pose proof (IHo Hf _ _ _ HR Eo) as To.
    unfold process_item_property in Ep. pose proof (to_concrete_concrete (operand_tdesc obj)) as Hc.
    destruct (to_concrete_type (operand_tdesc obj)) as [ty|]; [|discriminate Ep].
    destruct (class_of_type ty) as [cls|] eqn:Ec; [|discriminate Ep].
    destruct (get_property E cls p) as [[dc pi]|] eqn:Eg.
    + unfold ret in Ep. inversion Ep; subst. cbn [to_rvalue] in H. unfold visit_object_property in H. cbn [pr_info] in H.
      destruct (pi_readable pi) eqn:Er; cbn [negb] in H; [|discriminate H].
      eapply TyMember; eauto. eapply emit_result_desc. exact H.
    + destruct (get_methods E cls p) as [[dc ms]|]; [|discriminate Ep]. unfold ret in Ep. inversion Ep; subst. discriminate H.
  - (* subscript: o[ix] *)
    apply andb_prop in Hf. destruct Hf as [Fo Fi].
    minvn H i s4 E0. minvn E0 io s1 E1. pose proof (frag_shape E env o Fo _ _ _ E1) as Sh.
    minvn E0 ok s2 E2. minvn E0 idx s3 E3. change (walk_rvalue E env ix s2 = (V idx, s3)) in E3.
    assert (Hobj : to_rvalue io s1 = (V (fst ok), s2)).
    { destruct io; try contradiction; try discriminate E2.
      - unfold ret in E2. inversion E2; reflexivity.
      - minvn E2 it st E4. unfold ret in E2. inversion E2; subst. exact E4.
      - minvn E2 it st E4. unfold ret in E2. inversion E2; subst. exact E4.
      - minvn E2 it st E4. unfold ret in E2. inversion E2; subst. exact E4. }
    assert (Eo : walk_rvalue E env o s = (V (fst ok), s2)) by (unfold walk_rvalue, mbind; rewrite E1; exact Hobj).
    pose proof (IHo Fo _ _ _ HR Eo) as To.
    assert (HR2 : Rel s0 s2) by (eapply Rel_trans; [exact HR|eapply Inv_rel; [apply Inv_walk_rvalue|exact Eo]]).
    pose proof (IHix Fi _ _ _ HR2 E3) as Ti.
    unfold ret in E0. inversion E0; subst. cbn [to_rvalue] in H. unfold visit_object_subscript in H. minvn H elem s5 E5.
    pose proof (subscript_check_spec (fst ok) idx s4) as Hs. unfold succeeds in Hs. rewrite E5 in Hs. cbn [fst] in Hs.
    eapply TySubscript; [exact To|exact Ti|symmetry; exact Hs|]. eapply emit_result_desc. exact H.
  - (* unary *)
    minvn H it s2 E0. minvn E0 arg s1 E1. change (walk_rvalue E env a s = (V arg, s1)) in E1.
    pose proof (IHa Hf _ _ _ HR E1) as Ta.
    destruct (uop_of op) as [u|] eqn:Eu; [|discriminate E0].
    minvn E0 r s3 E2. unfold ret in E0. inversion E0; subst. cbn [to_rvalue] in H. unfold ret in H. inversion H; subst.
    destruct (visit_unary_sound _ _ _ _ _ E2) as [t [H1 H2]]. eapply TyUnary; eauto.
  - (* binary *)
    apply andb_prop in Hf. destruct Hf as [Fl Fr].
    destruct (bop_of op) as [b|] eqn:Eb; [|discriminate H].
    assert (Hnl : binop_class b <> KLogical ->
                  mbind (mbind (walk_rvalue E env l) (fun lhs => mbind (walk_rvalue E env r) (fun rhs => mbind (visit_binary E b lhs rhs) (fun it => ret (IItem it))))) to_rvalue s = (V res, s') ->
                  Typed E (ctx_of env s0) (EBinary op l r) (operand_tdesc res)).
    { intros Hk H'. minvn H' it s4 E0. minvn E0 lhs s1 E1. minvn E0 rhs s2 E2. minvn E0 r3 s3 E3.
      unfold ret in E0. inversion E0; subst. cbn [to_rvalue] in H'. unfold ret in H'. inversion H'; subst.
      pose proof (IHl Fl _ _ _ HR E1) as Tl.
      assert (HR1 : Rel s0 s1) by (eapply Rel_trans; [exact HR|eapply Inv_rel; [apply Inv_walk_rvalue|exact E1]]).
      pose proof (IHr Fr _ _ _ HR1 E2) as Tr.
      destruct (visit_binary_sound _ _ _ _ _ _ _ Hk E3) as [[t [H1 H2]]|[-> ->]].
      - eapply TyBinary; eauto.
      - eapply TyNullNull; eauto. }
    destruct (binop_class b) eqn:Ek; try (apply Hnl; [discriminate|exact H]).
    (* && || *)
    minvn H it s9 E0. minvn E0 lhs s1 E1. minvn E0 ll s2 E2. minvn E0 rhs s3 E3. minvn E0 rl s4 E4.
    minvn E0 u1 s5 E5. minvn E0 u2 s6 E6. minvn E0 r3 s7 E7.
    unfold ret in E0. inversion E0; subst. cbn [to_rvalue] in H. unfold ret in H. inversion H; subst.
    change (walk_rvalue E env l s = (V lhs, s1)) in E1. change (walk_rvalue E env r s2 = (V rhs, s3)) in E3.
    pose proof (IHl Fl _ _ _ HR E1) as Tl.
    assert (HR2 : Rel s0 s2).
    { eapply Rel_trans; [exact HR|]. eapply Rel_trans; [eapply Inv_rel; [apply Inv_walk_rvalue|exact E1]|eapply Inv_rel; [apply Inv_mark_branch_point|exact E2]]. }
    pose proof (IHr Fr _ _ _ HR2 E3) as Tr.
    destruct (check_cond_bool _ _ _ _ E5) as [Bl _]. destruct (check_cond_bool _ _ _ _ E6) as [Br _].
    rewrite Bl in Tl. rewrite Br in Tr.
    destruct (visit_binary_logical_sound E _ _ _ _ _ _ _ _ E7) as [_ Hc].
    assert (Hd : operand_tdesc res = DConcrete T_BOOL).
    { destruct (operand_tdesc res) eqn:Ed; cbn in Hc; try discriminate. inversion Hc. reflexivity. }
    rewrite Hd. eapply TyLogical; eauto.
  - (* cast: v as T *)
    minvn H i s4 E0. minvn E0 val0 s1 E1. change (walk_rvalue E env v s = (V val0, s1)) in E1.
    pose proof (IHv Hf _ _ _ HR E1) as Tv.
    minvn E0 t s2 E2. minvn E0 it s3 E3. unfold ret in E0. inversion E0; subst. cbn [to_rvalue] in H. unfold ret in H. inversion H; subst.
    unfold process_type_annotation in E2. destruct (annotated_type E ty) as [t'|] eqn:Ea; [|discriminate E2]. unfold ret in E2. inversion E2; subst.
    unfold visit_as in E3. cbv zeta in E3. rewrite ecs_tdesc' in E3.
    pose proof (pick_type_cast_spec E t (ecsd (operand_tdesc val0))) as Hs.
    destruct (pick_type_cast E t (ecsd (operand_tdesc val0))) eqn:Ep; cbn [negb] in Hs; try discriminate E3.
    all: eapply TyAs; [exact Tv|exact Ea|symmetry; exact Hs|].
    + unfold ret in E3. inversion E3; subst. rewrite ecs_tdesc'. apply noop_concrete with (E := E). exact Ep.
    + eapply emit_result_desc. exact E3.
    + eapply emit_result_desc. exact E3.
    + eapply emit_result_desc. exact E3.
  - (* ternary *)
    apply andb_prop in Hf. destruct Hf as [Hf Fb]. apply andb_prop in Hf. destruct Hf as [Fc Fa].
    minvn H it s9 E0. minvn E0 cond s1 E1. minvn E0 cl s2 E2. minvn E0 conseq s3 E3. minvn E0 ql s4 E4.
    minvn E0 alt s5 E5. minvn E0 al s6 E6. minvn E0 u1 s7 E7. minvn E0 r3 s8 E8.
    unfold ret in E0. inversion E0; subst. cbn [to_rvalue] in H. unfold ret in H. inversion H; subst.
    change (walk_rvalue E env c s = (V cond, s1)) in E1. change (walk_rvalue E env a s2 = (V conseq, s3)) in E3.
    change (walk_rvalue E env b s4 = (V alt, s5)) in E5.
    pose proof (IHc Fc _ _ _ HR E1) as Tc.
    assert (HR2 : Rel s0 s2).
    { eapply Rel_trans; [exact HR|]. eapply Rel_trans; [eapply Inv_rel; [apply Inv_walk_rvalue|exact E1]|eapply Inv_rel; [apply Inv_mark_branch_point|exact E2]]. }
    pose proof (IHa Fa _ _ _ HR2 E3) as Ta.
    assert (HR4 : Rel s0 s4).
    { eapply Rel_trans; [exact HR2|]. eapply Rel_trans; [eapply Inv_rel; [apply Inv_walk_rvalue|exact E3]|eapply Inv_rel; [apply Inv_mark_branch_point|exact E4]]. }
    pose proof (IHb Fb _ _ _ HR4 E5) as Tb.
    destruct (check_cond_bool _ _ _ _ E7) as [Bc _]. rewrite Bc in Tc.
    destruct (visit_ternary_sound _ _ _ _ _ _ _ _ _ _ E8) as [t [H1 H2]].
    eapply TyTernary; eauto.
Qed.

(* the statement for a translation that starts in the state the context is read from *)
Corollary accepted_expression_is_typed E env s0 e a s' :
  envwf (List.length (bs_locals s0)) env -> frag E env e = true ->
  walk_rvalue E env e s0 = (V a, s') -> Typed E (ctx_of env s0) e (operand_tdesc a).
Proof. intros Hw Hf H. exact (rvalue_typed E env s0 Hw e Hf s0 a s' (Rel_refl s0) H). Qed.

(* ... and its contrapositive: an expression of the fragment with no typing derivation is never accepted *)
Corollary ill_typed_expression_is_rejected E env s0 e :
  envwf (List.length (bs_locals s0)) env -> frag E env e = true ->
  (forall d, ~ Typed E (ctx_of env s0) e d) -> forall a s', walk_rvalue E env e s0 <> (V a, s').
Proof. intros Hw Hf Hn a s' H. exact (Hn _ (accepted_expression_is_typed E env s0 e a s' Hw Hf H)). Qed.

(* the hypotheses are met and the conclusion is not trivial: (1 + 2) * x > 0 ? x : -x with x an int local is accepted with type int,
   and 1 + true (no derivation: spec_binary has no row for integer-literal + bool) is rejected *)
Definition ex_env : lenv := [("x"%string, (0, DLet))].
Definition ex_state := {| bs_blocks := [block0]; bs_locals := [T_INT]; bs_nparams := 0; bs_diags := []; bs_exempt := [] |}.
Definition ex_E := {| ce_classes := []; ce_enums := []; ce_objects := []; ce_this := None |}.
Definition ex_expr := ETernary (EBinary BGt (EBinary BMul (EBinary BAdd (EInt 1) (EInt 2)) (EIdent "x")) (EInt 0)) (EIdent "x") (EUnary UMinus (EIdent "x")).
Example typed_example :
  envwf (List.length (bs_locals ex_state)) ex_env /\ frag ex_E ex_env ex_expr = true /\
  (exists a s', walk_rvalue ex_E ex_env ex_expr ex_state = (V a, s') /\ operand_tdesc a = DConcrete T_INT) /\
  frag ex_E ex_env (EBinary BAdd (EInt 1) (EBool true)) = true /\
  fst (walk_rvalue ex_E ex_env (EBinary BAdd (EInt 1) (EBool true)) ex_state) = F.
Proof.
  split. { intros x l k H. unfold ex_env in H. cbn [lenv_get] in H. destruct (String.eqb "x" x); [|discriminate H]. inversion H. apply le_n. }
  split; [reflexivity|]. split; [|split; reflexivity].
  eexists. eexists. split; [vm_compute; reflexivity|reflexivity].
Qed.

(* TypingSound.v -- C05, the direction "ill-typed programs are never accepted", for whole expressions: every expression of the fragment
   (literals, local variables, objects by id, this, property reads o.p, subscripts o[i], casts, unary, binary incl. && ||, ternary, list
   expressions, method calls o.m(...), Math.max / Math.min, qsTr, console.*, assignments to variables / properties / list elements, in any nesting) that the model of the translator accepts has a typing
   derivation in the declarative system spec/Typing.v. *)
From QV Require Import model.Sem proofs.SemProofs proofs.ScopeProofs proofs.FrameProofs.
From QV Require Import model.Base model.Lang model.Types model.Tir model.Ceval model.Builder spec.Typing proofs.TypingProofs proofs.BuilderInv proofs.BuilderSafe.
From Coq Require Import Arith Lia.
Open Scope nat_scope.
Open Scope list_scope.

(* string literals become QString operands before a run-time check: invisible to the tables *)
Definition ecsd (d : tdesc) : tdesc := match d with DConstString => DConcrete T_STRING | _ => d end.
Lemma ecs_tdesc' a : operand_tdesc (ensure_concrete_string a) = ecsd (operand_tdesc a).
Proof. destruct a as [c| | | |]; try reflexivity. destruct c; reflexivity. Qed.

Lemma concrete_ecsd d : concrete (ecsd d) = concrete d.
Proof. destruct d; reflexivity. Qed.
Lemma common_concrete_ecsd E a b : common_concrete E (ecsd a) (ecsd b) = common_concrete E a b.
Proof.
  unfold common_concrete, common. destruct a as [| | | |ta], b as [| | | |tb]; cbn; try reflexivity.
  all: try (destruct tb as [[| |[]]| |]; reflexivity).
  all: try (destruct ta as [[| |[]]| |]; reflexivity).
Qed.

Lemma spec_binary_ecsd E k a b : spec_binary E k (ecsd a) (ecsd b) = spec_binary E k a b.
Proof.
  destruct k; cbn [spec_binary]; rewrite ?common_concrete_ecsd, ?concrete_ecsd; try reflexivity.
  - destruct b; reflexivity.
  - destruct a, b; reflexivity.
Qed.
Lemma spec_unary_ecsd k a : spec_unary k (ecsd a) = spec_unary k a.
Proof. destruct k; cbn [spec_unary]; rewrite ?concrete_ecsd; try reflexivity. destruct a; reflexivity. Qed.

Lemma inl_inv0 {A B} (x y : A) : @inl A B x = inl y -> x = y.
Proof. intros H. inversion H. reflexivity. Qed.
Definition opnq (a : operand) : Prop := match a with OConst (CQString _) => False | _ => True end.
Definition result_of (t : tkind) (d : tdesc) : Prop := concrete d = Some t.

Lemma emit_result_desc ty rv s a s' : emit_result ty rv s = (V a, s') -> concrete (operand_tdesc a) = Some ty.
Proof.
  unfold emit_result, mbind, alloca. destruct (tkind_eqb ty T_VOID) eqn:Ev.
  - apply tkind_eqb_eq in Ev. subst. destruct (push_statement (TExec rv) s) as [[u| |x] s1]; intros H; inversion H; reflexivity.
  - cbn. match goal with |- context [push_statement ?st ?s0] => destruct (push_statement st s0) as [[u| |x] s1] end; intros H; inversion H; reflexivity.
Qed.

(* the folder on ANY two constants (a QString constant, which only a cast produces, included): what it folds, the table admits *)
Lemma fold_sound E b l r v : match b with BoLAnd | BoLOr => False | _ => True end -> fold_binary b l r = inl v ->
  (exists t, spec_binary E (opclass_of b) (const_tdesc l) (const_tdesc r) = Some t /\ concrete (const_tdesc v) = Some t) \/ (l = CNull /\ r = CNull).
Proof.
  intros Hb Hf.
  assert (Hq : (no_qstring l /\ no_qstring r) \/ (exists x, l = CQString x) \/ (exists x, r = CQString x)).
  { destruct l; try (right; left; eexists; reflexivity); destruct r; try (right; right; eexists; reflexivity); left; split; exact I. }
  destruct Hq as [[Hl Hr]|Hq].
  - pose proof (const_dyn_agree E b l r Hl Hr Hb) as Ha. rewrite Hf in Ha. exact Ha.
  - left. unfold fold_binary, eval_binary_arith, eval_binary_bitwise, eval_shift, eval_comparison in Hf.
    destruct Hq as [[x ->]|[x ->]].
    + destruct b; cbn [binop_class] in Hf; try contradiction; destruct r; try discriminate Hf;
        apply inl_inv0 in Hf; subst v; exists T_BOOL; split; reflexivity.
    + destruct b; cbn [binop_class] in Hf; try contradiction; destruct l; try discriminate Hf;
        apply inl_inv0 in Hf; subst v; exists T_BOOL; split; reflexivity.
Qed.

(* a binary operator node (not && ||): what the builder accepts, the table admits, with the same result type *)
Lemma visit_binary_sound E b l r s res s' : binop_class b <> KLogical ->
  visit_binary E b l r s = (V res, s') ->
  (exists t, spec_binary E (opclass_of b) (operand_tdesc l) (operand_tdesc r) = Some t /\ concrete (operand_tdesc res) = Some t)
  \/ (l = OConst CNull /\ r = OConst CNull).
Proof.
  intros Hk H. unfold visit_binary in H.
  assert (Hdyn : emit_binary E b l r s = (V res, s') ->
                 exists t, spec_binary E (opclass_of b) (operand_tdesc l) (operand_tdesc r) = Some t /\ concrete (operand_tdesc res) = Some t).
  { intros He. rewrite emit_binary_unfold in He. cbv zeta in He. unfold mbind in He.
    pose proof (binary_check_spec E b (operand_tdesc (ensure_concrete_string l)) (operand_tdesc (ensure_concrete_string r)) s
                  ltac:(destruct b; try exact I; exfalso; apply Hk; reflexivity)) as Hs.
    unfold succeeds in Hs.
    destruct (binary_check E b (operand_tdesc (ensure_concrete_string l)) (operand_tdesc (ensure_concrete_string r)) s) as [[ty| |x] s1]; try discriminate.
    cbn [fst] in Hs. rewrite !ecs_tdesc', spec_binary_ecsd in Hs. exists ty. split; [symmetry; exact Hs|]. eapply emit_result_desc. exact He. }
  destruct l as [cl| | | |]; try (left; apply Hdyn; exact H).
  destruct r as [cr| | | |]; try (left; apply Hdyn; exact H).
  assert (Hf : of_ceval (fold_binary b cl cr) s = (V res, s')).
  { unfold fold_binary. destruct (binop_class b); try exact H. exfalso. apply Hk. reflexivity. }
  destruct (fold_binary b cl cr) as [v|e] eqn:Ef; cbn [of_ceval] in Hf.
  - inversion Hf; subst.
    destruct (fold_sound E b cl cr v ltac:(destruct b; try exact I; exfalso; apply Hk; reflexivity) Ef) as [[t [H1 H2]]|[-> ->]]; [left; exists t; auto|right; auto].
  - exfalso. destruct e; cbn in Hf; discriminate.
Qed.

Lemma visit_unary_sound u a s res s' : visit_unary u a s = (V res, s') ->
  exists t, spec_unary (uclass_of u) (operand_tdesc a) = Some t /\ concrete (operand_tdesc res) = Some t.
Proof.
  intros H. unfold visit_unary in H.
  assert (Hdyn : emit_unary u a s = (V res, s') -> exists t, spec_unary (uclass_of u) (operand_tdesc a) = Some t /\ concrete (operand_tdesc res) = Some t).
  { intros He. rewrite emit_unary_unfold in He. cbv zeta in He. unfold mbind in He.
    pose proof (unary_check_spec u (operand_tdesc (ensure_concrete_string a)) s) as Hs. unfold succeeds in Hs.
    destruct (unary_check u (operand_tdesc (ensure_concrete_string a)) s) as [[ty| |x] s1]; try discriminate.
    cbn [fst] in Hs. rewrite ecs_tdesc', spec_unary_ecsd in Hs. exists ty. split; [symmetry; exact Hs|]. eapply emit_result_desc. exact He. }
  destruct a as [c| | | |]; try (apply Hdyn; exact H).
  destruct u, c; cbn in H; try discriminate.
  all: try (unfold checked in H; match type of H with context [in_i64 ?z] => destruct (in_i64 z) end; cbn in H; try discriminate).
  all: inversion H; subst; eexists; split; reflexivity.
Qed.

Lemma alloca_desc ty s a s' : alloca ty s = (V a, s') -> concrete (operand_tdesc (match a with Some sk => sk | None => OVoid end)) = Some ty.
Proof.
  unfold alloca. destruct (tkind_eqb ty T_VOID) eqn:Ev; intros H; inversion H; subst; [|reflexivity].
  apply tkind_eqb_eq in Ev. subst. reflexivity.
Qed.

Lemma visit_ternary_sound E cond cr conseq qr alt ar s res s' : visit_ternary E cond cr conseq qr alt ar s = (V res, s') ->
  exists t, common_concrete E (operand_tdesc conseq) (operand_tdesc alt) = Some t /\ concrete (operand_tdesc res) = Some t.
Proof.
  intros H. unfold visit_ternary in H. cbv zeta in H. unfold mbind at 1 in H.
  pose proof (m_deduce_concrete_spec E (operand_tdesc (ensure_concrete_string conseq)) (operand_tdesc (ensure_concrete_string alt)) s) as Hs. unfold succeeds in Hs.
  destruct (m_deduce_concrete E (operand_tdesc (ensure_concrete_string conseq)) (operand_tdesc (ensure_concrete_string alt)) s) as [[ty| |x] s1]; try discriminate.
  cbn [fst] in Hs. rewrite !ecs_tdesc', common_concrete_ecsd in Hs. exists ty. split; [symmetry; exact Hs|].
  unfold mbind at 1 in H. destruct (alloca ty s1) as [[sink| |x] s2] eqn:Ea; try discriminate.
  pose proof (alloca_desc _ _ _ _ Ea) as Hd.
  repeat (unfold mbind at 1 in H; match type of H with (let (o, s0) := ?m ?st in _) = _ => destruct (m st) as [[?| |?] ?]; try discriminate end).
  cbn in H. inversion H; subst. exact Hd.
Qed.

Lemma visit_binary_logical_sound E is_and lhs lr rhs rr s res s' : visit_binary_logical is_and lhs lr rhs rr s = (V res, s') ->
  spec_binary E OLogical (operand_tdesc lhs) (operand_tdesc rhs) = Some T_BOOL /\ concrete (operand_tdesc res) = Some T_BOOL.
Proof.
  intros H. unfold visit_binary_logical in H. cbn [spec_binary].
  destruct (tdesc_eqb (operand_tdesc lhs) (DConcrete T_BOOL) && tdesc_eqb (operand_tdesc rhs) (DConcrete T_BOOL)); cbn [negb] in H; [|discriminate].
  split; [reflexivity|]. cbv zeta in H. unfold mbind at 1 in H. unfold alloca in H. change (tkind_eqb T_BOOL T_VOID) with false in H. cbn iota in H.
  repeat (unfold mbind at 1 in H; match type of H with (let (o, s0) := ?m ?st in _) = _ => destruct (m st) as [[?| |?] ?]; try discriminate end).
  cbn in H. inversion H; subst. reflexivity.
Qed.

(* ---------------------------------------------------------------- whole expressions *)
(* argument lists and array elements, declaratively *)
Fixpoint spec_args (E : cenv) (tys : list tkind) (ds : list tdesc) : bool :=
  match tys, ds with t :: tr, d :: dr => spec_assignable E t d && spec_args E tr dr | _, _ => true end.
Fixpoint spec_elems (E : cenv) (t : tdesc) (rest : list tdesc) : option tdesc :=
  match rest with [] => Some t | a :: r => match common E t a with Some t' => spec_elems E t' r | None => None end end.
Definition spec_array_elem (E : cenv) (ds : list tdesc) : option tkind :=
  match ds with [] => None | a :: r => match spec_elems E a r with Some t => concrete t | None => None end end.
Definition unbound (E : cenv) (G : string -> option (tkind * decl_kind)) (n : string) : Prop := G n = None /\ ctx_get_ref E n = None.

(* a dotted path that names a type: Class, Class.Enum *)
Inductive TypePath (E : cenv) (G : string -> option (tkind * decl_kind)) : expr -> named -> Prop :=
| TpIdent x n : G x = None -> ctx_get_ref E x = Some (RfType n) -> TypePath E G (EIdent x) n
| TpNested o name ty n : TypePath E G o ty -> type_get_ref E ty name = Some (RfType n) -> TypePath E G (EMember o name) n.

Inductive Typed (E : cenv) (G : string -> option (tkind * decl_kind)) : expr -> tdesc -> Prop :=
| TyInt n : Typed E G (EInt n) DConstInteger
| TyFloat b : Typed E G (EFloat b) (DConcrete T_DOUBLE)
| TyStr s : Typed E G (EStr s) DConstString
| TyBool b : Typed E G (EBool b) (DConcrete T_BOOL)
| TyNull : Typed E G ENull DNullPointer
| TyLocal x t k : G x = Some (t, k) -> Typed E G (EIdent x) (DConcrete t)
| TyUnary op u a da t d : uop_of op = Some u -> Typed E G a da -> spec_unary (uclass_of u) da = Some t -> concrete d = Some t -> Typed E G (EUnary op a) d
| TyBinary op b l r dl dr t d : bop_of op = Some b -> binop_class b <> KLogical -> Typed E G l dl -> Typed E G r dr ->
    spec_binary E (opclass_of b) dl dr = Some t -> concrete d = Some t -> Typed E G (EBinary op l r) d
| TyNullNull op b l r d : bop_of op = Some b -> binop_class b <> KLogical -> Typed E G l DNullPointer -> Typed E G r DNullPointer ->
    Typed E G (EBinary op l r) d          (* the one exception of the constant folder: null == null and the like *)
| TyLogical op b l r : bop_of op = Some b -> binop_class b = KLogical -> Typed E G l (DConcrete T_BOOL) -> Typed E G r (DConcrete T_BOOL) ->
    Typed E G (EBinary op l r) (DConcrete T_BOOL)
| TyTernary c a b da db t d : Typed E G c (DConcrete T_BOOL) -> Typed E G a da -> Typed E G b db -> common_concrete E da db = Some t ->
    concrete d = Some t -> Typed E G (ETernary c a b) d
(* the objects of the document, by id, and the object the binding belongs to *)
| TyObject x c : G x = None -> assoc x (ce_objects E) = Some c -> Typed E G (EIdent x) (DConcrete (TPointer (NClass c)))
| TyThis c n : ce_this E = Some (c, n) -> Typed E G EThis (DConcrete (TPointer (NClass c)))
(* a bare name that is a readable property of the object the binding belongs to (not hidden by a variable or an object id) *)
| TyThisProp x tc tn pr d : G x = None -> ctx_get_ref E x = Some (RfObjectProperty tc tn pr) -> pi_readable (pr_info pr) = true ->
    concrete d = Some (pi_type (pr_info pr)) -> Typed E G (EIdent x) d
(* Class.Variant, Class.Enum.Variant *)
| TyEnumVariant o name ty e : TypePath E G o ty -> type_get_ref E ty name = Some (RfEnumVariant e) -> Typed E G (EMember o name) (DConcrete (TJust (NEnum e)))
(* o.p read as a value: p is a readable property of the class of o (found in the class or an ancestor, see C17) *)
| TyMember o p dobj ty cls dc pi d : Typed E G o dobj -> concrete dobj = Some ty -> class_of_type ty = Some cls -> get_property E cls p = Some (dc, pi) ->
    pi_readable pi = true -> concrete d = Some (pi_type pi) -> Typed E G (EMember o p) d
(* e as T: one of the documented casts *)
| TyAs v path dv t d : Typed E G v dv -> annotated_type E path = Some t -> spec_castable E t (ecsd dv) = true -> concrete d = Some t -> Typed E G (EAs v path) d
(* l[i] read as a value *)
| TySubscript o ix dobj di e d : Typed E G o dobj -> Typed E G ix di -> spec_subscript dobj di = Some e -> concrete d = Some e -> Typed E G (ESubscript o ix) d
(* assignments (their value is void): to a `let` variable, to a writable property (of an object, or of a gadget held in a variable), to an element of a list variable *)
| TyAssignLocal x t r dr : G x = Some (t, DLet) -> Typed E G r dr -> spec_assignable E t (ecsd dr) = true -> Typed E G (EAssign (EIdent x) r) (DConcrete T_VOID)
| TyAssignProp o p r dobj ty cls dc pi dr : Typed E G o dobj -> concrete dobj = Some ty -> class_of_type ty = Some cls -> get_property E cls p = Some (dc, pi) ->
    pi_writable pi = true -> (tkind_is_pointer ty = true \/ exists x, o = EIdent x /\ G x <> None) ->
    Typed E G r dr -> spec_assignable E (pi_type pi) (ecsd dr) = true -> Typed E G (EAssign (EMember o p) r) (DConcrete T_VOID)
| TyAssignSub x t k ix di r dr e : G x = Some (t, k) -> Typed E G ix di -> spec_subscript (DConcrete t) di = Some e -> Typed E G r dr -> spec_assignable E e dr = true ->
    Typed E G (EAssign (ESubscript (EIdent x) ix) r) (DConcrete T_VOID)
(* list expressions: all elements have one common type *)
| TyArrayNil : Typed E G (EArray []) DEmptyList
| TyArray es ds c d : es <> [] -> Forall2 (Typed E G) es ds -> spec_array_elem E (map ecsd ds) = Some c -> concrete d = Some (TList c) -> Typed E G (EArray es) d
(* calls: the first method of that name (in the class of o or an ancestor) whose parameter count fits and whose parameters accept the arguments *)
| TyMethodCall o m args dobj ty cls dc ms das mi d : Typed E G o dobj -> concrete dobj = Some ty -> class_of_type ty = Some cls -> get_property E cls m = None ->
    get_methods E cls m = Some (dc, ms) -> Forall2 (Typed E G) args das ->
    find (fun mi => Nat.eqb (List.length (mi_args mi)) (List.length das) && spec_args E (mi_args mi) (map ecsd das)) ms = Some mi ->
    concrete d = Some (mi_ret mi) -> Typed E G (ECall (EMember o m) args) d
| TyMath n a b da db t d : n = "max"%string \/ n = "min"%string -> unbound E G "Math" -> Typed E G a da -> Typed E G b db ->
    common_concrete E (ecsd da) (ecsd db) = Some t -> is_kind [T_BOOL; T_DOUBLE; T_INT; T_UINT; T_STRING] t = true -> concrete d = Some t ->
    Typed E G (ECall (EMember (EIdent "Math") n) [a; b]) d
| TyTr a d : unbound E G "qsTr" -> Typed E G a DConstString -> concrete d = Some T_STRING -> Typed E G (ECall (EIdent "qsTr") [a]) d
| TyConsole lv args das : unbound E G "console" -> Forall2 (Typed E G) args das -> Typed E G (ECall (EMember (EIdent "console") lv) args) (DConcrete T_VOID).

Definition is_unbound (E : cenv) (env : lenv) (n : string) : bool :=
  match lenv_get env n, ctx_get_ref E n with None, None => true | _, _ => false end.
Fixpoint type_of_path (E : cenv) (env : lenv) (o : expr) : option named :=
  match o with
  | EIdent x => match lenv_get env x with Some _ => None | None => match ctx_get_ref E x with Some (RfType n) => Some n | _ => None end end
  | EMember o' name => match type_of_path E env o' with
                       | Some ty => match type_get_ref E ty name with Some (RfType n) => Some n | _ => None end
                       | None => None end
  | _ => None
  end.
Fixpoint frag (E : cenv) (env : lenv) (e : expr) : bool :=
  match e with
  | EInt _ | EFloat _ | EStr _ | EBool _ | ENull => true
  | EIdent x => match lenv_get env x with
                | Some _ => true
                | None => match ctx_get_ref E x with Some (RfObject _) | Some (RfObjectProperty _ _ _) => true | _ => false end
                end
  | EThis => true
  | EUnary _ a => frag E env a
  | EBinary _ l r => frag E env l && frag E env r
  | ETernary c a b => frag E env c && frag E env a && frag E env b
  | EMember o p => frag E env o || match type_of_path E env o with
                                    | Some ty => match type_get_ref E ty p with Some (RfEnumVariant _) => true | _ => false end
                                    | None => false end
  | EAs v _ => frag E env v
  | ESubscript o ix => frag E env o && frag E env ix
  | EArray es => forallb (frag E env) es
  | EAssign (EIdent x) r => match lenv_get env x with Some _ => frag E env r | None => false end
  | EAssign (EMember o _) r => frag E env o && frag E env r
  | EAssign (ESubscript (EIdent x) ix) r => match lenv_get env x with Some _ => frag E env ix && frag E env r | None => false end
  | ECall (EMember o m) args =>
      (match o with
       | EIdent n => if (String.eqb n "Math" || String.eqb n "console") && is_unbound E env n then true else frag E env o
       | _ => frag E env o
       end) && forallb (frag E env) args
  | ECall (EIdent n) args => String.eqb n "qsTr" && is_unbound E env n && forallb (frag E env) args
  | _ => false
  end.

(* the typing context: the declared types of the locals the environment names, read in the state the translation starts from *)
Definition ctx_of (env : lenv) (s0 : bstate) (x : string) : option (tkind * decl_kind) :=
  match lenv_get env x with Some (l, k) => option_map (fun t => (t, k)) (nth_error (bs_locals s0) l) | None => None end.

Lemma Rel_local s0 s l : Rel s0 s -> l < List.length (bs_locals s0) -> nth_error (bs_locals s) l = nth_error (bs_locals s0) l.
Proof. intros [[suf L] _ _ _] Hl. rewrite L. apply nth_error_app1. exact Hl. Qed.

Ltac minv H := unfold mbind at 1 in H;
  match type of H with (let (o, s0) := ?m ?st in _) = _ => let E := fresh "E" in destruct (m st) as [[?| |?] ?] eqn:E; try discriminate H end.

Ltac minvn H x st E := unfold mbind at 1 in H;
  match type of H with (let (o, s0) := ?m ?st0 in _) = _ => destruct (m st0) as [[x| |?] st] eqn:E; try discriminate H end.

Lemma Inv_rel {A} (m : M A) s r s' : Inv m -> m s = (r, s') -> Rel s s'.
Proof. intros H E. specialize (H s). rewrite E in H. exact H. Qed.

Lemma inl_inv {A B} (x y : A) : @inl A B x = inl y -> x = y.
Proof. intros H. inversion H. reflexivity. Qed.
Ltac nq_close := intros H;
  match type of H with
  | inr _ = inl _ => exfalso; inversion H
  | inl _ = inl _ => apply inl_inv in H; rewrite <- H; exact I
  end.
Lemma fold_nq b l r v : fold_binary b l r = inl v -> no_qstring v.
Proof.
  unfold fold_binary, eval_binary_arith, eval_binary_bitwise, eval_shift, eval_comparison, checked.
  destruct b; cbn [binop_class]; destruct l, r;
    repeat match goal with |- context [if ?c then _ else _] => destruct c end; nq_close.
Qed.

Lemma alloca_nq ty s a s' : alloca ty s = (V a, s') -> opnq (match a with Some sk => sk | None => OVoid end).
Proof. unfold alloca. destruct (tkind_eqb ty T_VOID); intros H; inversion H; subst; exact I. Qed.
Lemma emit_result_nq ty rv s a s' : emit_result ty rv s = (V a, s') -> opnq a.
Proof.
  unfold emit_result. intros H. unfold mbind at 1 in H. destruct (alloca ty s) as [[sk| |x] s1] eqn:Ea; try discriminate.
  pose proof (alloca_nq _ _ _ _ Ea) as Hn. destruct sk as [l|]; unfold mbind in H;
    match type of H with context [push_statement ?st ?s0] => destruct (push_statement st s0) as [[u| |x] s2] end; inversion H; subst; exact Hn.
Qed.
Lemma visit_unary_nq u a s res s' : visit_unary u a s = (V res, s') -> opnq res.
Proof.
  intros H. unfold visit_unary in H.
  assert (Hdyn : emit_unary u a s = (V res, s') -> opnq res).
  { intros He. rewrite emit_unary_unfold in He. cbv zeta in He. unfold mbind in He.
    destruct (unary_check u (operand_tdesc (ensure_concrete_string a)) s) as [[ty| |x] s1]; try discriminate.
    eapply emit_result_nq. exact He. }
  destruct a as [c| | | |]; try (apply Hdyn; exact H).
  destruct u, c; cbn in H; try discriminate.
  all: try (unfold checked in H; match type of H with context [in_i64 ?z] => destruct (in_i64 z) end; cbn in H; try discriminate).
  all: inversion H; subst; exact I.
Qed.
Lemma visit_binary_nq E b l r s res s' : binop_class b <> KLogical -> visit_binary E b l r s = (V res, s') -> opnq res.
Proof.
  intros Hk H. unfold visit_binary in H.
  assert (Hdyn : emit_binary E b l r s = (V res, s') -> opnq res).
  { intros He. rewrite emit_binary_unfold in He. cbv zeta in He. unfold mbind in He.
    destruct (binary_check E b (operand_tdesc (ensure_concrete_string l)) (operand_tdesc (ensure_concrete_string r)) s) as [[ty| |x] s1]; try discriminate.
    eapply emit_result_nq. exact He. }
  destruct l as [cl| | | |]; try (apply Hdyn; exact H).
  destruct r as [cr| | | |]; try (apply Hdyn; exact H).
  assert (Hf : of_ceval (fold_binary b cl cr) s = (V res, s')).
  { unfold fold_binary. destruct (binop_class b); try exact H. exfalso. apply Hk. reflexivity. }
  destruct (fold_binary b cl cr) as [v|e] eqn:Ef; cbn [of_ceval] in Hf.
  - inversion Hf; subst. cbn [opnq]. pose proof (fold_nq _ _ _ _ Ef) as Hn. destruct v; try exact I. exact Hn.
  - exfalso. destruct e; cbn in Hf; discriminate.
Qed.
Lemma visit_ternary_nq E cond cr conseq qr alt ar s res s' : visit_ternary E cond cr conseq qr alt ar s = (V res, s') -> opnq res.
Proof.
  intros H. unfold visit_ternary in H. cbv zeta in H. unfold mbind at 1 in H.
  destruct (m_deduce_concrete E (operand_tdesc (ensure_concrete_string conseq)) (operand_tdesc (ensure_concrete_string alt)) s) as [[ty| |x] s1]; try discriminate.
  unfold mbind at 1 in H. destruct (alloca ty s1) as [[sink| |x] s2] eqn:Ea; try discriminate.
  pose proof (alloca_nq _ _ _ _ Ea) as Hd.
  repeat (unfold mbind at 1 in H; match type of H with (let (o, s0) := ?m ?st in _) = _ => destruct (m st) as [[?| |?] ?]; try discriminate end).
  cbn in H. inversion H; subst. exact Hd.
Qed.
Lemma visit_binary_logical_nq is_and lhs lr rhs rr s res s' : visit_binary_logical is_and lhs lr rhs rr s = (V res, s') -> opnq res.
Proof.
  intros H. unfold visit_binary_logical in H.
  destruct (tdesc_eqb (operand_tdesc lhs) (DConcrete T_BOOL) && tdesc_eqb (operand_tdesc rhs) (DConcrete T_BOOL)); cbn [negb] in H; [|discriminate].
  cbv zeta in H. unfold mbind at 1 in H. unfold alloca in H. change (tkind_eqb T_BOOL T_VOID) with false in H. cbn iota in H.
  repeat (unfold mbind at 1 in H; match type of H with (let (o, s0) := ?m ?st in _) = _ => destruct (m st) as [[?| |?] ?]; try discriminate end).
  cbn in H. inversion H; subst. exact I.
Qed.

Lemma check_cond_bool a s u s' : check_condition_type a s = (V u, s') -> operand_tdesc a = DConcrete T_BOOL /\ s' = s.
Proof.
  unfold check_condition_type. destruct (tdesc_eqb (operand_tdesc a) (DConcrete T_BOOL)) eqn:Eq.
  - intros H. inversion H. split; [apply tdesc_eqb_eq; exact Eq|reflexivity].
  - unfold fail. intros H. inversion H.
Qed.

(* what a fragment expression is translated to is never a bare namespace or type name *)
Definition shape_ok (i : inter) : Prop := match i with IBuiltinNamespace _ | IType _ => False | _ => True end.
Lemma walk_type_path E env : forall o ty, type_of_path E env o = Some ty -> forall s, walk_expr E env o s = (V (IType ty), s).
Proof.
  induction o as [x| |n|fb|str|bb| |es| |o IHo p|o IHo ix IHix|f IHf args|l IHl r IHr|op a IHa|op l IHl r IHr|v IHv ty0|c IHc a IHa b IHb];
    intros ty H st; cbn [type_of_path] in H; try discriminate H; cbn [walk_expr].
  - unfold process_identifier. destruct (lenv_get env x); [discriminate H|]. destruct (ctx_get_ref E x) as [[n|e|c|c on pp|c on dc ms]|]; try discriminate H.
    inversion H; subst. reflexivity.
  - destruct (type_of_path E env o) as [ty1|] eqn:Et; [|discriminate H]. unfold mbind. rewrite (IHo ty1 eq_refl st).
    unfold process_identifier. destruct (type_get_ref E ty1 p) as [[n|e|c|c on pp|c on dc ms]|]; try discriminate H. inversion H; subst. reflexivity.
Qed.

Ltac fin H := repeat (first [ discriminate H | (unfold ret in H; inversion H; exact I) | minv H
                            | match type of H with context [match ?x with _ => _ end] => destruct x end ]).
Lemma frag_shape E env : forall e, frag E env e = true -> forall s i s', walk_expr E env e s = (V i, s') -> shape_ok i.
Proof.
  induction e as [x| |n|fb|str|bb| |es| |o IHo p|o IHo ix IHix|f IHf args|l IHl r IHr|op a IHa|op l IHl r IHr|v IHv ty|c IHc a IHa b IHb];
    intros Hf s i s' H; cbn [walk_expr] in H.
  - cbn [frag] in Hf. unfold process_identifier in H. destruct (lenv_get env x) as [[l k]|]; [inversion H; exact I|].
    destruct (ctx_get_ref E x) as [[n|e|c|c on pp|c on dc ms]|]; try discriminate Hf; inversion H; exact I.
  - destruct (ce_this E) as [[c n]|]; inversion H; exact I.
  - minvn H a s1 E1. inversion H; exact I.
  - inversion H; exact I.
  - inversion H; exact I.
  - inversion H; exact I.
  - inversion H; exact I.
  - (* array *) minvn H els s1 E1. minvn H a s2 E2. inversion H; exact I.
  - discriminate Hf.
  - (* member *) cbn [frag] in Hf. apply orb_prop in Hf. destruct Hf as [Hf|Hf].
    2:{ destruct (type_of_path E env o) as [ty|] eqn:Et; [|discriminate Hf]. unfold mbind at 1 in H. rewrite (walk_type_path E env o ty Et s) in H.
        unfold process_identifier in H. destruct (type_get_ref E ty p) as [[n|e|c|c on pp|c on dc ms]|]; try discriminate Hf. inversion H; exact I. }
    minvn H io s1 E1. pose proof (IHo Hf _ _ _ E1) as Sh.
    assert (Hp : forall it k st, process_item_property E it p k st = (V i, s') -> shape_ok i).
    { intros it k st Hq. unfold process_item_property in Hq. destruct (to_concrete_type (operand_tdesc it)); [|discriminate Hq].
      destruct (class_of_type t); [|discriminate Hq]. destruct (get_property E n p) as [[dc pi]|]; [inversion Hq; exact I|].
      destruct (get_methods E n p) as [[dc ms]|]; [inversion Hq; exact I|discriminate Hq]. }
    destruct io; try contradiction; try discriminate H; try (eapply Hp; exact H); minvn H it s2 E2; eapply Hp; exact H.
  - (* subscript *) minvn H io s1 E1. minvn H ok s2 E2. minvn H idx s3 E3. inversion H; exact I.
  - (* call *) minvn H arguments s1 E1. minvn H fi s2 E2. destruct fi; try discriminate H; minvn H a9 s3 E3; inversion H; exact I.
  - (* assignment *) minvn H rhs s1 E1. minvn H li s2 E2.
    destruct li as [| l0 [|] | it pp [|[|]] | it ix0 [|] | | | |]; try discriminate H; minvn H a s3 E3; inversion H; exact I.
  - minvn H arg s1 E1. destruct (uop_of op); [|discriminate H]. minvn H r s2 E2. inversion H; exact I.
  - destruct (bop_of op) as [b|]; [|discriminate H]. destruct (binop_class b).
    1,2,3,5: (minvn H lhs s1 E1; minvn H rhs s2 E2; minvn H it s3 E3; inversion H; exact I).
    minvn H lhs s1 E1. minvn H ll s2 E2. minvn H rhs s3 E3. minvn H rl s4 E4. minvn H u1 s5 E5. minvn H u2 s6 E6. minvn H it s7 E7. inversion H; exact I.
  - minvn H val0 s1 E1. minvn H t s2 E2. minvn H it s3 E3. inversion H; exact I.
  - minvn H cond s1 E1. minvn H cl s2 E2. minvn H conseq s3 E3. minvn H ql s4 E4. minvn H alt s5 E5. minvn H al s6 E6. minvn H u1 s7 E7. minvn H it s8 E8.
    inversion H; exact I.
Qed.

(* the object read by `.p` or `[i]`: what to_rvalue makes of the intermediate result (the arms of walk_expr spell it out case by case) *)
Lemma noop_concrete E t d : pick_type_cast E t d = CNoop -> concrete d = Some t.
Proof.
  unfold pick_type_cast. destruct d as [| | | |k]; cbn [concrete].
  - destruct (tkind_eqb t T_INT || tkind_eqb t T_UINT), (tkind_eqb t T_DOUBLE), (tkind_eqb t T_VOID); discriminate.
  - destruct (tkind_eqb t T_STRING), (tkind_eqb t T_VOID); discriminate.
  - destruct t as [n|n|u]; try discriminate; destruct (tkind_eqb _ T_VOID); discriminate.
  - destruct t as [n|n|u]; try discriminate; destruct (tkind_eqb _ T_VOID); discriminate.
  - unfold pick_concrete_type_cast. destruct (tkind_eqb t k) eqn:Eq; [apply tkind_eqb_eq in Eq; subst; reflexivity|].
    destruct t as [[c|e|p]|[c|e|p]|u], k as [[c'|e'|p']|[c'|e'|p']|u']; intros H;
      repeat match type of H with context [if ?c then _ else _] => destruct c end; discriminate H.
Qed.

(* ---- helpers for calls, arrays, assignments ---- *)
Lemma find_ext {A} (f g : A -> bool) l : (forall x, f x = g x) -> find f l = find g l.
Proof. intros H. induction l as [|x r IH]; cbn; [reflexivity|]. rewrite H, IH. reflexivity. Qed.
Lemma args_assignable_spec E : forall tys args, args_assignable E tys args = spec_args E tys (map operand_tdesc args).
Proof. induction tys as [|t tr IH]; intros [|a ar]; cbn; try reflexivity. rewrite is_assignable_spec, IH. reflexivity. Qed.

Lemma deduce_elems_spec E : forall rest t s t' s', deduce_elems E t rest s = (V t', s') -> spec_elems E t (map operand_tdesc rest) = Some t'.
Proof.
  induction rest as [|a r IH]; intros t s t' s' H; cbn [deduce_elems map spec_elems] in *.
  - inversion H; reflexivity.
  - pose proof (deduce_type_common E t (operand_tdesc a)) as Hc. destruct (deduce_type E t (operand_tdesc a)) as [t1|e].
    + rewrite Hc. eapply IH. exact H.
    + exfalso. destruct e; cbn in H; discriminate H.
Qed.

Lemma map_ecs_tdesc l : map operand_tdesc (map ensure_concrete_string l) = map ecsd (map operand_tdesc l).
Proof. induction l as [|a r IH]; cbn; [reflexivity|]. rewrite ecs_tdesc', IH. reflexivity. Qed.

(* an intermediate result that is a local variable comes from an identifier naming it *)
Lemma ilocal_ident E env : forall o s l k s', walk_expr E env o s = (V (ILocal l k), s') -> exists x, o = EIdent x /\ lenv_get env x = Some (l, k) /\ s' = s.
Proof.
  intros o s l k s' H. destruct o; cbn [walk_expr] in H.
  - unfold process_identifier in H. destruct (lenv_get env x) as [[l0 k0]|] eqn:El.
    + inversion H; subst. exists x. auto.
    + exfalso. destruct (ctx_get_ref E x) as [[n|e|c|c on pp|c on dc ms]|]; cbn [of_ref] in H; try discriminate H.
      destruct (lookup_global_name x) as [i|] eqn:Eg; [|discriminate H]. unfold lookup_global_name in Eg.
      repeat match type of Eg with context [if ?c then _ else _] => destruct c end; inversion Eg; subst; discriminate H.
  - exfalso. destruct (ce_this E) as [[c n]|]; discriminate H.
  - exfalso. minvn H a s1 E1; try discriminate H.
  - discriminate H. - discriminate H. - discriminate H. - discriminate H.
  - exfalso. minvn H els s1 E1. minvn H a s2 E2; try discriminate H.
  - discriminate H.
  - exfalso. minvn H io s1 E1.
    assert (Hp : forall it k0 st, process_item_property E it p k0 st <> (V (ILocal l k), s')).
    { intros it k0 st Hq. unfold process_item_property in Hq. destruct (to_concrete_type (operand_tdesc it)); [|discriminate Hq].
      destruct (class_of_type t); [|discriminate Hq]. destruct (get_property E n p) as [[dc pi]|]; [discriminate Hq|].
      destruct (get_methods E n p) as [[dc ms]|]; discriminate Hq. }
    destruct io; try discriminate H; try (eapply Hp; exact H); try (minvn H it s2 E2; eapply Hp; exact H).
    + unfold process_namespace_name in H. destruct k0; repeat match type of H with context [if ?c then _ else _] => destruct c end; discriminate H.
    + unfold process_identifier in H. destruct (type_get_ref E n p) as [[n0|e|c|c on pp|c on dc ms]|]; cbn [of_ref] in H; discriminate H.
  - exfalso. minvn H io s1 E1. minvn H ok s2 E2. minvn H idx s3 E3; try discriminate H.
  - exfalso. minvn H arguments s1 E1. minvn H fi s2 E2. destruct fi; try discriminate H; minvn H a9 s3 E3; try discriminate H.
  - exfalso. minvn H rhs s1 E1. minvn H li s2 E2.
    destruct li as [| l0 [|] | it pp [|[|]] | it ix0 [|] | | | |]; try discriminate H; minvn H a9 s3 E3; try discriminate H.
  - exfalso. minvn H arg s1 E1. destruct (uop_of op); [|discriminate H]. minvn H r s2 E2; try discriminate H.
  - exfalso. destruct (bop_of op) as [b|]; [|discriminate H]. destruct (binop_class b).
    1,2,3,5: (minvn H lhs s1 E1; minvn H rhs s2 E2; minvn H it s3 E3; try discriminate H).
    minvn H lhs s1 E1. minvn H ll s2 E2. minvn H rhs s3 E3. minvn H rl s4 E4. minvn H u1 s5 E5. minvn H u2 s6 E6. minvn H it s7 E7; try discriminate H.
  - exfalso. minvn H val0 s1 E1. minvn H t s2 E2. minvn H it s3 E3; try discriminate H.
  - exfalso. minvn H cond s1 E1. minvn H cl s2 E2. minvn H conseq s3 E3. minvn H ql s4 E4. minvn H alt s5 E5. minvn H al s6 E6. minvn H u1 s7 E7. minvn H it s8 E8;
    try discriminate H.
Qed.

(* o.p / o.m(): what the member access of walk_expr does with the intermediate result of o (shape_ok: not a namespace or type name) *)
Lemma member_inv E env o p s i s2 io s1 : walk_expr E env o s = (V io, s1) -> shape_ok io -> walk_expr E env (EMember o p) s = (V i, s2) ->
  exists obj k st, to_rvalue io s1 = (V obj, st) /\ process_item_property E obj p k st = (V i, s2) /\ (k = KLvalue -> exists l dk, io = ILocal l dk).
Proof.
  intros E1 Sh H. cbn [walk_expr] in H. unfold mbind at 1 in H. rewrite E1 in H.
  destruct io; try contradiction; try discriminate H.
  - exists a, KRvalue, s1. split; [reflexivity|]. split; [exact H|discriminate].
  - minvn H it st E2. exists it, KLvalue, st. split; [exact E2|]. split; [exact H|]. intros _. eauto.
  - minvn H it st E2. exists it, KRvalue, st. split; [exact E2|]. split; [exact H|discriminate].
  - minvn H it st E2. exists it, KRvalue, st. split; [exact E2|]. split; [exact H|discriminate].
Qed.

Section Main.
  Variables (E : cenv) (env : lenv) (s0 : bstate).
  Hypothesis Hw : envwf (List.length (bs_locals s0)) env.
  Definition Pt (e : expr) : Prop :=
    frag E env e = true -> forall s a s', Rel s0 s -> walk_rvalue E env e s = (V a, s') -> Typed E (ctx_of env s0) e (operand_tdesc a).
  (* the induction also carries the statement for the object of a member access and the parts of a subscript (needed by o.m(...) and by assignments) *)
  Definition P2 (e : expr) : Prop := Pt e /\ match e with EMember o _ => Pt o | ESubscript o i => Pt o /\ Pt i | _ => True end.

  Lemma local_ctx x l k s t : lenv_get env x = Some (l, k) -> Rel s0 s -> nth_error (bs_locals s) l = Some t -> ctx_of env s0 x = Some (t, k).
  Proof. intros El HR En. unfold ctx_of. rewrite El. rewrite <- (Rel_local s0 s l HR (Hw _ _ _ El)), En. reflexivity. Qed.

  Lemma unbound_ctx n : is_unbound E env n = true -> unbound E (ctx_of env s0) n /\ lenv_get env n = None.
  Proof.
    unfold is_unbound, unbound, ctx_of. destruct (lenv_get env n) as [[l k]|]; [discriminate|]. destruct (ctx_get_ref E n); [discriminate|]. auto.
  Qed.

  Lemma args_typed : forall args, Forall Pt args -> forallb (frag E env) args = true -> forall s ops s1, Rel s0 s ->
    (fix go (l : list expr) : M (list operand) :=
       match l with [] => ret [] | x :: r => let! a := (let! i := walk_expr E env x in to_rvalue i) in let! rest := go r in ret (a :: rest) end) args s = (V ops, s1) ->
    Forall2 (Typed E (ctx_of env s0)) args (map operand_tdesc ops) /\ Rel s0 s1.
  Proof.
    induction 1 as [|x r Hx Hr IH]; intros Hf s ops s1 HR H.
    - inversion H; subst. split; [constructor|exact HR].
    - cbn [forallb] in Hf. apply andb_prop in Hf. destruct Hf as [Fx Fr].
      minvn H a s2 E1. change (walk_rvalue E env x s = (V a, s2)) in E1. minvn H rest s3 E2. unfold ret in H. inversion H; subst.
      assert (HR2 : Rel s0 s2) by (eapply Rel_trans; [exact HR|eapply Inv_rel; [apply Inv_walk_rvalue|exact E1]]).
      destruct (IH Fr _ _ _ HR2 E2) as [T2 HR3]. split; [|exact HR3]. cbn [map]. constructor; [|exact T2]. exact (Hx Fx _ _ _ HR E1).
  Qed.

  Theorem typed_all : forall e, P2 e.
  Proof.
    apply expr_ind'.
    - (* identifier: a local variable, or an object of the document *)
      intros x. split; [|exact I]. intros Hf s res s' HR H. cbn [frag] in Hf. unfold walk_rvalue in H; cbn [walk_expr] in H.
      unfold process_identifier in H. destruct (lenv_get env x) as [[l k]|] eqn:El.
      + unfold mbind, ret in H. cbn [to_rvalue] in H. unfold visit_local_ref in H.
        destruct (nth_error (bs_locals s) l) as [t|] eqn:En; [|discriminate]. inversion H; subst. cbn [operand_tdesc].
        apply (TyLocal E _ x t k). eapply local_ctx; eauto.
      + assert (Gx : ctx_of env s0 x = None) by (unfold ctx_of; rewrite El; reflexivity).
        destruct (ctx_get_ref E x) as [[n|e|c|tc tn pr|c on dc ms]|] eqn:Er; try discriminate Hf.
        * (* an object of the document *)
          assert (Eo : assoc x (ce_objects E) = Some c).
          { unfold ctx_get_ref in Er. destruct (assoc x (ce_objects E)) as [c'|]; [inversion Er; reflexivity|].
            destruct (ce_this E) as [[tc tn]|]; [destruct (get_property E tc x) as [[dc pp]|]; [discriminate Er|destruct (get_methods E tc x) as [[dc ms]|]; [discriminate Er|]]|];
              destruct (type_by_name E x); discriminate Er. }
          unfold of_ref, mbind, ret in H. cbn [to_rvalue] in H. unfold ret in H. inversion H; subst. cbn [operand_tdesc].
          apply TyObject; [exact Gx|exact Eo].
        * (* a property of the object the binding belongs to *)
          unfold of_ref, mbind in H. unfold ret at 1 in H. cbn [to_rvalue] in H. unfold visit_object_property in H.
          destruct (pi_readable (pr_info pr)) eqn:Erd; cbn [negb] in H; [|discriminate H].
          eapply TyThisProp; [exact Gx|exact Er|exact Erd|eapply emit_result_desc; exact H].
    - (* this *)
      split; [|exact I]. intros Hf s res s' HR H. unfold walk_rvalue in H; cbn [walk_expr] in H.
      destruct (ce_this E) as [[c n]|] eqn:Et; [|discriminate H]. unfold mbind, ret in H. cbn [to_rvalue] in H. unfold ret in H. inversion H; subst.
      cbn [operand_tdesc]. eapply TyThis. exact Et.
    - (* integer *)
      intros n. split; [|exact I]. intros Hf s res s' HR H. unfold walk_rvalue in H; cbn [walk_expr] in H.
      unfold visit_integer, mbind, ret, fail in H. destruct (Z.of_N n <=? I64_MAX)%Z; cbn [to_rvalue] in H; [|discriminate].
      unfold ret in H. inversion H; subst. constructor.
    - intros b. split; [|exact I]. intros Hf s res s' HR H. unfold walk_rvalue in H; cbn [walk_expr] in H. unfold mbind, ret in H. cbn [to_rvalue] in H. unfold ret in H. inversion H; subst. constructor.
    - intros b. split; [|exact I]. intros Hf s res s' HR H. unfold walk_rvalue in H; cbn [walk_expr] in H. unfold mbind, ret in H. cbn [to_rvalue] in H. unfold ret in H. inversion H; subst. constructor.
    - intros b. split; [|exact I]. intros Hf s res s' HR H. unfold walk_rvalue in H; cbn [walk_expr] in H. unfold mbind, ret in H. cbn [to_rvalue] in H. unfold ret in H. inversion H; subst. constructor.
    - split; [|exact I]. intros Hf s res s' HR H. unfold walk_rvalue in H; cbn [walk_expr] in H. unfold mbind, ret in H. cbn [to_rvalue] in H. unfold ret in H. inversion H; subst. constructor.
    - (* array *)
      intros es IHes. split; [|exact I]. intros Hf s res s' HR H. cbn [frag] in Hf. unfold walk_rvalue in H; cbn [walk_expr] in H.
      assert (IHes' : Forall Pt es) by (eapply Forall_impl; [|exact IHes]; intros x Hx; exact (proj1 Hx)).
      minvn H i s3 E0. minvn E0 els s1 E1. destruct (args_typed es IHes' Hf _ _ _ HR E1) as [Tes HR1].
      minvn E0 a s2 E2. unfold ret in E0. inversion E0; subst. cbn [to_rvalue] in H. unfold ret in H. inversion H; subst.
      unfold visit_array in E2. cbv zeta in E2. destruct els as [|e1 er].
      + cbn [map] in E2. unfold ret in E2. inversion E2; subst. inversion Tes; subst. cbn. apply TyArrayNil.
      + cbn [map] in E2. minvn E2 elem_t s4 E3. minvn E2 c s5 E4.
        pose proof (deduce_elems_spec _ _ _ _ _ _ E3) as Hs. rewrite map_ecs_tdesc, ecs_tdesc' in Hs.
        pose proof (m_to_concrete_spec elem_t s4) as Hc. unfold succeeds in Hc. rewrite E4 in Hc. cbn [fst] in Hc.
        destruct es as [|x0 xr]; [inversion Tes|].
        eapply TyArray; [discriminate|exact Tes| |eapply emit_result_desc; exact E2].
        cbn [map spec_array_elem]. rewrite Hs. symmetry. exact Hc.
    - (* function *) split; [|exact I]. intros Hf. discriminate Hf.
    - (* member: o.p *)
      intros o p [IHo _]. split; [|exact IHo]. intros Hf s res s' HR H. cbn [frag] in Hf. unfold walk_rvalue in H.
      apply orb_prop in Hf. destruct Hf as [Hf|Hf].
      2:{ (* Class.Variant *)
          destruct (type_of_path E env o) as [ty|] eqn:Et; [|discriminate Hf]. minvn H i s2 E0. cbn [walk_expr] in E0. unfold mbind at 1 in E0.
          rewrite (walk_type_path E env o ty Et s) in E0. unfold process_identifier in E0.
          destruct (type_get_ref E ty p) as [[n|e|c|c on pp|c on dc ms]|] eqn:Eg; try discriminate Hf.
          unfold of_ref, ret in E0. inversion E0; subst. cbn [to_rvalue] in H. unfold ret in H. inversion H; subst. cbn [operand_tdesc].
          eapply TyEnumVariant; [|exact Eg]. clear -Et. revert ty Et.
          induction o as [x| |n|fb|str|bb| |es| |o IHo p|o IHo ix IHix|f IHf args|l IHl r IHr|op a IHa|op l IHl r IHr|v IHv ty0|c IHc a IHa b IHb];
            intros ty Et; cbn [type_of_path] in Et; try discriminate Et.
          - destruct (lenv_get env x) eqn:El; [discriminate Et|]. destruct (ctx_get_ref E x) as [[n|e|c|c on pp|c on dc ms]|] eqn:Er; try discriminate Et.
            inversion Et; subst. apply TpIdent; [unfold ctx_of; rewrite El; reflexivity|exact Er].
          - destruct (type_of_path E env o) as [ty1|] eqn:Et1; [|discriminate Et].
            destruct (type_get_ref E ty1 p) as [[n|e|c|c on pp|c on dc ms]|] eqn:Eg; try discriminate Et. inversion Et; subst.
            eapply TpNested; [apply IHo; reflexivity|exact Eg]. }
      minvn H i s2 E0. pose proof E0 as E0'. cbn [walk_expr] in E0'. minvn E0' io s1 E1. clear E0'.
      pose proof (frag_shape E env o Hf _ _ _ E1) as Sh.
      destruct (member_inv E env o p s i s2 io s1 E1 Sh E0) as (obj & k & st & Eobj & Ep & _).
      assert (Eo : walk_rvalue E env o s = (V obj, st)) by (unfold walk_rvalue, mbind; rewrite E1; exact Eobj).
      pose proof (IHo Hf _ _ _ HR Eo) as To.
      unfold process_item_property in Ep. pose proof (to_concrete_concrete (operand_tdesc obj)) as Hc.
      destruct (to_concrete_type (operand_tdesc obj)) as [ty|]; [|discriminate Ep].
      destruct (class_of_type ty) as [cls|] eqn:Ec; [|discriminate Ep].
      destruct (get_property E cls p) as [[dc pi]|] eqn:Eg.
      + unfold ret in Ep. inversion Ep; subst. cbn [to_rvalue] in H. unfold visit_object_property in H. cbn [pr_info] in H.
        destruct (pi_readable pi) eqn:Er; cbn [negb] in H; [|discriminate H].
        eapply TyMember; eauto. eapply emit_result_desc. exact H.
      + destruct (get_methods E cls p) as [[dc ms]|]; [|discriminate Ep]. unfold ret in Ep. inversion Ep; subst. discriminate H.
    - (* subscript: o[ix] *)
      intros o ix [IHo _] [IHix _]. split; [|split; assumption]. intros Hf s res s' HR H. cbn [frag] in Hf. unfold walk_rvalue in H; cbn [walk_expr] in H.
      apply andb_prop in Hf. destruct Hf as [Fo Fi].
      minvn H i s4 E0. minvn E0 io s1 E1. pose proof (frag_shape E env o Fo _ _ _ E1) as Sh.
      minvn E0 ok s2 E2. minvn E0 idx s3 E3. change (walk_rvalue E env ix s2 = (V idx, s3)) in E3.
      assert (Hobj : to_rvalue io s1 = (V (fst ok), s2)).
      { destruct io; try contradiction; try discriminate E2.
        - unfold ret in E2. inversion E2; reflexivity.
        - minvn E2 it st E4. unfold ret in E2. inversion E2; subst. exact E4.
        - minvn E2 it st E4. unfold ret in E2. inversion E2; subst. exact E4.
        - minvn E2 it st E4. unfold ret in E2. inversion E2; subst. exact E4. }
      assert (Eo : walk_rvalue E env o s = (V (fst ok), s2)) by (unfold walk_rvalue, mbind; rewrite E1; exact Hobj).
      pose proof (IHo Fo _ _ _ HR Eo) as To.
      assert (HR2 : Rel s0 s2) by (eapply Rel_trans; [exact HR|eapply Inv_rel; [apply Inv_walk_rvalue|exact Eo]]).
      pose proof (IHix Fi _ _ _ HR2 E3) as Ti.
      unfold ret in E0. inversion E0; subst. cbn [to_rvalue] in H. unfold visit_object_subscript in H. minvn H elem s5 E5.
      pose proof (subscript_check_spec (fst ok) idx s4) as Hs. unfold succeeds in Hs. rewrite E5 in Hs. cbn [fst] in Hs.
      eapply TySubscript; [exact To|exact Ti|symmetry; exact Hs|]. eapply emit_result_desc. exact H.
    - (* call *)
      intros f args IHf IHargs. split; [|exact I]. intros Hf s res s' HR H.
      assert (IHargs' : Forall Pt args) by (eapply Forall_impl; [|exact IHargs]; intros x Hx; exact (proj1 Hx)).
      unfold walk_rvalue in H; cbn [walk_expr] in H.
      minvn H i s9 E0. minvn E0 arguments s1 E1. minvn E0 fi s2 E2.
      destruct f as [n| | | | | | | | |o m| | | | | | |]; cbn [frag] in Hf; try discriminate Hf.
      + (* qsTr("...") *)
        apply andb_prop in Hf. destruct Hf as [Hf Fa]. apply andb_prop in Hf. destruct Hf as [Hn Hu]. apply String.eqb_eq in Hn. subst n.
        destruct (unbound_ctx _ Hu) as [Ub El]. destruct (args_typed args IHargs' Fa _ _ _ HR E1) as [Targs HR1].
        cbn [walk_expr] in E2. unfold process_identifier in E2. rewrite El in E2. destruct Ub as [_ Ug]. rewrite Ug in E2.
        change (lookup_global_name "qsTr") with (Some (IBuiltinFunction BfTr)) in E2. unfold ret in E2. inversion E2; subst.
        minvn E0 a s3 E3. unfold ret in E0. inversion E0; subst. cbn [to_rvalue] in H. unfold ret in H. inversion H; subst.
        cbn [visit_builtin_call] in E3. destruct arguments as [|x [|y r]]; try discriminate E3.
        destruct (operand_tdesc x) eqn:Ex; try discriminate E3.
        inversion Targs as [|e1 d1 er dr T1 Tr Ea Ed]; subst. inversion Tr; subst. cbn [map] in *. rewrite Ex in T1.
        eapply TyTr; [split; [unfold ctx_of; rewrite El; reflexivity|exact Ug]|exact T1|eapply emit_result_desc; exact E3].
      + apply andb_prop in Hf. destruct Hf as [Ho Fa]. destruct (args_typed args IHargs' Fa _ _ _ HR E1) as [Targs HR1].
        destruct IHf as [_ IHo].
        assert (Hns : (exists n, o = EIdent n /\ (n = "Math"%string \/ n = "console"%string) /\ is_unbound E env n = true) \/ frag E env o = true).
        { destruct o as [n| | | | | | | | | | | | | | | |]; try (right; exact Ho).
          destruct ((String.eqb n "Math" || String.eqb n "console") && is_unbound E env n) eqn:Eq; [|right; exact Ho].
          apply andb_prop in Eq. destruct Eq as [Eq Eu]. left. exists n. split; [reflexivity|]. split; [|exact Eu].
          apply orb_prop in Eq. destruct Eq as [Eq|Eq]; apply String.eqb_eq in Eq; auto. }
        destruct Hns as [(n & -> & Hn & Hu)|Fo].
        * (* Math.max / Math.min / console.* *)
          destruct (unbound_ctx _ Hu) as [Ub El]. pose proof Ub as [_ Ug].
          cbn [walk_expr] in E2. unfold process_identifier in E2. rewrite El, Ug in E2. unfold mbind at 1 in E2.
          destruct Hn as [-> | ->].
          -- change (lookup_global_name "Math") with (Some (IBuiltinNamespace NsMath)) in E2. unfold ret at 1 in E2.
             unfold process_namespace_name in E2.
             assert (Hm : (m = "max"%string /\ fi = IBuiltinFunction BfMax \/ m = "min"%string /\ fi = IBuiltinFunction BfMin) /\ s2 = s1).
             { destruct (String.eqb m "max") eqn:E3; [apply String.eqb_eq in E3; inversion E2; auto|].
               destruct (String.eqb m "min") eqn:E4; [apply String.eqb_eq in E4; inversion E2; auto|discriminate E2]. }
             destruct Hm as [Hm ->].
             assert (Hb : exists bf a, (bf = BfMax \/ bf = BfMin) /\ fi = IBuiltinFunction bf /\ visit_builtin_call E bf arguments s1 = (V a, s9) /\ i = IItem a).
             { destruct Hm as [[_ ->]|[_ ->]]; minvn E0 a s3 E3; unfold ret in E0; inversion E0; subst; eauto 10. }
             destruct Hb as (bf & a & Hbf & -> & E3 & ->). cbn [to_rvalue] in H. unfold ret in H. inversion H; subst.
             assert (E3' : (match map ensure_concrete_string arguments with
                            | [a; b] => let! ty := m_deduce_concrete E (operand_tdesc a) (operand_tdesc b) in
                                        if tkind_eqb ty T_BOOL || tkind_eqb ty T_DOUBLE || tkind_eqb ty T_INT || tkind_eqb ty T_UINT || tkind_eqb ty T_STRING
                                        then emit_result ty (RBuiltin bf [a; b]) else fail XUnsupportedType
                            | _ => fail XInvalidArgument end) s1 = (V res, s')) by (destruct Hbf as [-> | ->]; exact E3).
             destruct arguments as [|x [|y [|z r]]]; try discriminate E3'. cbn [map] in E3'.
             minvn E3' ty s3 E4. pose proof (m_deduce_concrete_spec E (operand_tdesc (ensure_concrete_string x)) (operand_tdesc (ensure_concrete_string y)) s1) as Hs.
             unfold succeeds in Hs. rewrite E4 in Hs. cbn [fst] in Hs. rewrite !ecs_tdesc' in Hs.
             destruct (tkind_eqb ty T_BOOL || tkind_eqb ty T_DOUBLE || tkind_eqb ty T_INT || tkind_eqb ty T_UINT || tkind_eqb ty T_STRING) eqn:Ek; [|discriminate E3'].
             inversion Targs as [|e1 d1 er dr T1 Tr Ea Ed]; subst. inversion Tr as [|e2 d2 er2 dr2 T2 Tr2 Ea2 Ed2]; subst. inversion Tr2; subst.
             eapply TyMath; [destruct Hm as [[-> _]|[-> _]]; auto|exact Ub|exact T1|exact T2|symmetry; exact Hs| |eapply emit_result_desc; exact E3'].
             unfold is_kind. cbn [existsb]. rewrite orb_false_r. rewrite <- Ek. rewrite !orb_assoc. reflexivity.
          -- change (lookup_global_name "console") with (Some (IBuiltinNamespace NsConsole)) in E2. unfold ret at 1 in E2.
             unfold process_namespace_name in E2.
             assert (Hc : exists lv, fi = IBuiltinFunction (BfConsole lv) /\ s2 = s1).
             { repeat match type of E2 with context [if ?c then _ else _] => destruct c end; try discriminate E2; inversion E2; eauto. }
             destruct Hc as (lv & -> & ->). minvn E0 a s3 E3. unfold ret in E0. inversion E0; subst. cbn [to_rvalue] in H. unfold ret in H. inversion H; subst.
             cbn [visit_builtin_call] in E3.
             match type of E3 with context [existsb ?g arguments] => destruct (existsb g arguments) end; [discriminate E3|].
             assert (Hres : operand_tdesc res = DConcrete T_VOID).
             { unfold emit_result in E3. unfold mbind at 1 in E3. unfold alloca in E3. change (tkind_eqb T_VOID T_VOID) with true in E3. cbn iota in E3.
               minvn E3 u s5 E5. unfold ret in E3. inversion E3; subst. reflexivity. }
             rewrite Hres. eapply TyConsole; [exact Ub|exact Targs].
        * (* o.m(args) *)
          pose proof E2 as E2'. cbn [walk_expr] in E2'. minvn E2' io s1' E3. clear E2'.
          pose proof (frag_shape E env o Fo _ _ _ E3) as Sh.
          destruct (member_inv E env o m s1 fi s2 io s1' E3 Sh E2) as (obj & k & st & Eobj & Ep & _).
          assert (Eo : walk_rvalue E env o s1 = (V obj, st)) by (unfold walk_rvalue, mbind; rewrite E3; exact Eobj).
          pose proof (IHo Fo _ _ _ HR1 Eo) as To.
          unfold process_item_property in Ep. pose proof (to_concrete_concrete (operand_tdesc obj)) as Hc.
          destruct (to_concrete_type (operand_tdesc obj)) as [ty|]; [|discriminate Ep].
          destruct (class_of_type ty) as [cls|] eqn:Ec; [|discriminate Ep].
          destruct (get_property E cls m) as [[dc pi]|] eqn:Eg; [unfold ret in Ep; inversion Ep; subst; discriminate E0|].
          destruct (get_methods E cls m) as [[dc ms]|] eqn:Em; [|discriminate Ep]. unfold ret in Ep. inversion Ep; subst.
          minvn E0 a s3 E4. unfold ret in E0. inversion E0; subst. cbn [to_rvalue] in H. unfold ret in H. inversion H; subst.
          unfold visit_object_method_call in E4. cbv zeta in E4.
          match type of E4 with context [find ?f ms] => destruct (find f ms) as [mi|] eqn:Ef end; [|discriminate E4].
          eapply TyMethodCall; [exact To|exact Hc|exact Ec|exact Eg|exact Em|exact Targs| |eapply emit_result_desc; exact E4].
          rewrite <- Ef. apply find_ext. intros mi0. rewrite !map_length, args_assignable_spec, map_ecs_tdesc. reflexivity.
    - (* assignment *)
      intros l r IHl [IHr _]. split; [|exact I]. intros Hf s res s' HR H.
      destruct l as [x| | | | | | | | |o p|o ix| | | | | |]; cbn [frag] in Hf; try discriminate Hf.
      + (* x = r *)
        destruct (lenv_get env x) as [[lo k]|] eqn:El; [|discriminate Hf].
        unfold walk_rvalue in H; cbn [walk_expr] in H.
        minvn H i s9 E0. minvn E0 rhs s1 E1. change (walk_rvalue E env r s = (V rhs, s1)) in E1.
        pose proof (IHr Hf _ _ _ HR E1) as Tr.
        assert (HR1 : Rel s0 s1) by (eapply Rel_trans; [exact HR|eapply Inv_rel; [apply Inv_walk_rvalue|exact E1]]).
        unfold process_identifier in E0. rewrite El in E0. unfold mbind at 1 in E0. unfold ret at 1 in E0.
        destruct k; [|discriminate E0].
        minvn E0 a s3 E3. unfold ret in E0. inversion E0; subst. cbn [to_rvalue] in H. unfold ret in H. inversion H; subst.
        unfold visit_local_assignment in E3. minvn E3 lov s4 E4. unfold visit_local_ref in E4.
        destruct (nth_error (bs_locals s1) lo) as [t|] eqn:En; [|discriminate E4]. inversion E4; subst. cbv zeta in E3.
        rewrite ecs_tdesc', is_assignable_spec in E3.
        destruct (spec_assignable E t (ecsd (operand_tdesc rhs))) eqn:Ea; [|discriminate E3].
        minvn E3 u s5 E5. unfold ret in E3. inversion E3; subst. cbn [operand_tdesc].
        eapply TyAssignLocal; [eapply local_ctx; eauto|exact Tr|exact Ea].
      + (* o.p = r *)
        destruct IHl as [_ IHo]. apply andb_prop in Hf. destruct Hf as [Fo Fr].
        unfold walk_rvalue in H. cbn [walk_expr] in H. minvn H i s9 E0. minvn E0 rhs s1 E1. change (walk_rvalue E env r s = (V rhs, s1)) in E1.
        pose proof (IHr Fr _ _ _ HR E1) as Tr.
        assert (HR1 : Rel s0 s1) by (eapply Rel_trans; [exact HR|eapply Inv_rel; [apply Inv_walk_rvalue|exact E1]]).
        minvn E0 li s2 E2. change (walk_expr E env (EMember o p) s1 = (V li, s2)) in E2.
        pose proof E2 as E2'. cbn [walk_expr] in E2'. minvn E2' io s1' E3. clear E2'.
        pose proof (frag_shape E env o Fo _ _ _ E3) as Sh.
        destruct (member_inv E env o p s1 li s2 io s1' E3 Sh E2) as (obj & k & st & Eobj & Ep & Hk).
        assert (Eo : walk_rvalue E env o s1 = (V obj, st)) by (unfold walk_rvalue, mbind; rewrite E3; exact Eobj).
        pose proof (IHo Fo _ _ _ HR1 Eo) as To.
        unfold process_item_property in Ep. pose proof (to_concrete_concrete (operand_tdesc obj)) as Hc.
        destruct (to_concrete_type (operand_tdesc obj)) as [ty|]; [|discriminate Ep].
        destruct (class_of_type ty) as [cls|] eqn:Ec; [|discriminate Ep].
        destruct (get_property E cls p) as [[dc pi]|] eqn:Eg.
        2:{ destruct (get_methods E cls p) as [[dc ms]|]; [|discriminate Ep]. unfold ret in Ep. inversion Ep; subst. discriminate E0. }
        unfold ret in Ep. inversion Ep; subst.
        assert (Hlv : tkind_is_pointer ty = true \/ exists x, o = EIdent x /\ ctx_of env s0 x <> None).
        { destruct (tkind_is_pointer ty) eqn:Etp; [left; reflexivity|right]. destruct k; [|discriminate E0].
          destruct (Hk eq_refl) as (l0 & dk & ->). destruct (ilocal_ident E env o s1 l0 dk s1' E3) as (x & -> & El & _).
          exists x. split; [reflexivity|]. cbn [to_rvalue] in Eobj. unfold visit_local_ref in Eobj.
          destruct (nth_error (bs_locals s1') l0) as [t|] eqn:En; [|discriminate Eobj].
          assert (s1' = s1) by (cbn [walk_expr] in E3; unfold process_identifier in E3; rewrite El in E3; inversion E3; reflexivity). subst s1'.
          rewrite (local_ctx x l0 dk s1 t El HR1 En). discriminate. }
        assert (Hpa : visit_object_property_assignment E obj {| pr_class := dc; pr_info := pi |} rhs s2 = (V (match res with _ => res end), s') /\ res = OVoid \/ False -> True) by auto.
        clear Hpa.
        assert (Hgo : exists a, visit_object_property_assignment E obj {| pr_class := dc; pr_info := pi |} rhs s2 = (V a, s9) /\ i = IItem a).
        { destruct (tkind_is_pointer ty); [|destruct k; [|discriminate E0]]; minvn E0 a s3 E4; unfold ret in E0; inversion E0; subst; eauto. }
        destruct Hgo as (a & E4 & ->). cbn [to_rvalue] in H. unfold ret in H. inversion H; subst.
        unfold visit_object_property_assignment in E4. cbn [pr_info] in E4.
        destruct (pi_writable pi) eqn:Ewr; cbn [negb] in E4; [|discriminate E4]. cbv zeta in E4.
        rewrite ecs_tdesc', is_assignable_spec in E4.
        destruct (spec_assignable E (pi_type pi) (ecsd (operand_tdesc rhs))) eqn:Ea; [|discriminate E4].
        assert (Hres : operand_tdesc res = DConcrete T_VOID).
        { unfold emit_result in E4. unfold mbind at 1 in E4. unfold alloca in E4. change (tkind_eqb T_VOID T_VOID) with true in E4. cbn iota in E4.
          minvn E4 u s5 E5. unfold ret in E4. inversion E4; subst. reflexivity. }
        rewrite Hres. eapply TyAssignProp; eauto.
      + (* x[ix] = r *)
        destruct o as [x| | | | | | | | | | | | | | | |]; try discriminate Hf.
        destruct IHl as [_ [_ IHix]].
        destruct (lenv_get env x) as [[lo k]|] eqn:El; [|discriminate Hf]. apply andb_prop in Hf. destruct Hf as [Fi Fr].
        unfold walk_rvalue in H. cbn [walk_expr] in H. minvn H i s9 E0. minvn E0 rhs s1 E1. change (walk_rvalue E env r s = (V rhs, s1)) in E1.
        pose proof (IHr Fr _ _ _ HR E1) as Tr.
        assert (HR1 : Rel s0 s1) by (eapply Rel_trans; [exact HR|eapply Inv_rel; [apply Inv_walk_rvalue|exact E1]]).
        minvn E0 li s2 E2. unfold process_identifier in E2. rewrite El in E2. unfold mbind at 1 in E2. unfold ret at 1 in E2.
        minvn E2 ok s3 E3. minvn E3 it s4 E4. unfold visit_local_ref in E4.
        destruct (nth_error (bs_locals s1) lo) as [t|] eqn:En; [|discriminate E4]. inversion E4; subst. unfold ret in E3. inversion E3; subst.
        minvn E2 idx s5 E5. match type of E5 with _ ?st = _ => change (walk_rvalue E env ix st = (V idx, s5)) in E5 end.
        pose proof (IHix Fi _ _ _ HR1 E5) as Ti.
        unfold ret in E2. inversion E2; subst. cbn [fst snd] in E0.
        minvn E0 a s6 E6. unfold ret in E0. inversion E0; subst. cbn [to_rvalue] in H. unfold ret in H. inversion H; subst.
        unfold visit_object_subscript_assignment in E6. minvn E6 elem s7 E7.
        match type of E7 with check_object_subscript_type ?a ?b ?st = _ => pose proof (subscript_check_spec a b st) as Hs end.
        unfold succeeds in Hs. rewrite E7 in Hs. cbn [fst operand_tdesc] in Hs.
        rewrite is_assignable_spec in E6. destruct (spec_assignable E elem (operand_tdesc rhs)) eqn:Ea; [|discriminate E6].
        minvn E6 u s8 E8. unfold ret in E6. inversion E6; subst. cbn [operand_tdesc].
        eapply TyAssignSub; [eapply local_ctx; eauto|exact Ti|symmetry; exact Hs|exact Tr|exact Ea].
    - (* unary *)
      intros op a [IHa _]. split; [|exact I]. intros Hf s res s' HR H. cbn [frag] in Hf. unfold walk_rvalue in H; cbn [walk_expr] in H.
      minvn H it s2 E0. minvn E0 arg s1 E1. change (walk_rvalue E env a s = (V arg, s1)) in E1.
      pose proof (IHa Hf _ _ _ HR E1) as Ta.
      destruct (uop_of op) as [u|] eqn:Eu; [|discriminate E0].
      minvn E0 r s3 E2. unfold ret in E0. inversion E0; subst. cbn [to_rvalue] in H. unfold ret in H. inversion H; subst.
      destruct (visit_unary_sound _ _ _ _ _ E2) as [t [H1 H2]]. eapply TyUnary; eauto.
    - (* binary *)
      intros op l r [IHl _] [IHr _]. split; [|exact I]. intros Hf s res s' HR H. cbn [frag] in Hf. unfold walk_rvalue in H; cbn [walk_expr] in H.
      apply andb_prop in Hf. destruct Hf as [Fl Fr].
      destruct (bop_of op) as [b|] eqn:Eb; [|discriminate H].
      assert (Hnl : binop_class b <> KLogical ->
                    mbind (mbind (walk_rvalue E env l) (fun lhs => mbind (walk_rvalue E env r) (fun rhs => mbind (visit_binary E b lhs rhs) (fun it => ret (IItem it))))) to_rvalue s = (V res, s') ->
                    Typed E (ctx_of env s0) (EBinary op l r) (operand_tdesc res)).
      { intros Hk H'. minvn H' it s4 E0. minvn E0 lhs s1 E1. minvn E0 rhs s2 E2. minvn E0 r3 s3 E3.
        unfold ret in E0. inversion E0; subst. cbn [to_rvalue] in H'. unfold ret in H'. inversion H'; subst.
        pose proof (IHl Fl _ _ _ HR E1) as Tl.
        assert (HR1 : Rel s0 s1) by (eapply Rel_trans; [exact HR|eapply Inv_rel; [apply Inv_walk_rvalue|exact E1]]).
        pose proof (IHr Fr _ _ _ HR1 E2) as Tr.
        destruct (visit_binary_sound _ _ _ _ _ _ _ Hk E3) as [[t [H1 H2]]|[-> ->]].
        - eapply TyBinary; eauto.
        - eapply TyNullNull; eauto. }
      destruct (binop_class b) eqn:Ek; try (apply Hnl; [discriminate|exact H]).
      minvn H it s9 E0. minvn E0 lhs s1 E1. minvn E0 ll s2 E2. minvn E0 rhs s3 E3. minvn E0 rl s4 E4.
      minvn E0 u1 s5 E5. minvn E0 u2 s6 E6. minvn E0 r3 s7 E7.
      unfold ret in E0. inversion E0; subst. cbn [to_rvalue] in H. unfold ret in H. inversion H; subst.
      change (walk_rvalue E env l s = (V lhs, s1)) in E1. change (walk_rvalue E env r s2 = (V rhs, s3)) in E3.
      pose proof (IHl Fl _ _ _ HR E1) as Tl.
      assert (HR2 : Rel s0 s2).
      { eapply Rel_trans; [exact HR|]. eapply Rel_trans; [eapply Inv_rel; [apply Inv_walk_rvalue|exact E1]|eapply Inv_rel; [apply Inv_mark_branch_point|exact E2]]. }
      pose proof (IHr Fr _ _ _ HR2 E3) as Tr.
      destruct (check_cond_bool _ _ _ _ E5) as [Bl _]. destruct (check_cond_bool _ _ _ _ E6) as [Br _].
      rewrite Bl in Tl. rewrite Br in Tr.
      destruct (visit_binary_logical_sound E _ _ _ _ _ _ _ _ E7) as [_ Hc].
      assert (Hd : operand_tdesc res = DConcrete T_BOOL).
      { destruct (operand_tdesc res) eqn:Ed; cbn in Hc; try discriminate. inversion Hc. reflexivity. }
      rewrite Hd. eapply TyLogical; eauto.
    - (* cast: v as T *)
      intros v ty [IHv _]. split; [|exact I]. intros Hf s res s' HR H. cbn [frag] in Hf. unfold walk_rvalue in H; cbn [walk_expr] in H.
      minvn H i s4 E0. minvn E0 val0 s1 E1. change (walk_rvalue E env v s = (V val0, s1)) in E1.
      pose proof (IHv Hf _ _ _ HR E1) as Tv.
      minvn E0 t s2 E2. minvn E0 it s3 E3. unfold ret in E0. inversion E0; subst. cbn [to_rvalue] in H. unfold ret in H. inversion H; subst.
      unfold process_type_annotation in E2. destruct (annotated_type E ty) as [t'|] eqn:Ea; [|discriminate E2]. unfold ret in E2. inversion E2; subst.
      unfold visit_as in E3. cbv zeta in E3. rewrite ecs_tdesc' in E3.
      pose proof (pick_type_cast_spec E t (ecsd (operand_tdesc val0))) as Hs.
      destruct (pick_type_cast E t (ecsd (operand_tdesc val0))) eqn:Ep; cbn [negb] in Hs; try discriminate E3.
      all: eapply TyAs; [exact Tv|exact Ea|symmetry; exact Hs|].
      + unfold ret in E3. inversion E3; subst. rewrite ecs_tdesc'. apply noop_concrete with (E := E). exact Ep.
      + eapply emit_result_desc. exact E3.
      + eapply emit_result_desc. exact E3.
      + eapply emit_result_desc. exact E3.
    - (* ternary *)
      intros c a b [IHc _] [IHa _] [IHb _]. split; [|exact I]. intros Hf s res s' HR H. cbn [frag] in Hf. unfold walk_rvalue in H; cbn [walk_expr] in H.
      apply andb_prop in Hf. destruct Hf as [Hf Fb]. apply andb_prop in Hf. destruct Hf as [Fc Fa].
      minvn H it s9 E0. minvn E0 cond s1 E1. minvn E0 cl s2 E2. minvn E0 conseq s3 E3. minvn E0 ql s4 E4.
      minvn E0 alt s5 E5. minvn E0 al s6 E6. minvn E0 u1 s7 E7. minvn E0 r3 s8 E8.
      unfold ret in E0. inversion E0; subst. cbn [to_rvalue] in H. unfold ret in H. inversion H; subst.
      change (walk_rvalue E env c s = (V cond, s1)) in E1. change (walk_rvalue E env a s2 = (V conseq, s3)) in E3.
      change (walk_rvalue E env b s4 = (V alt, s5)) in E5.
      pose proof (IHc Fc _ _ _ HR E1) as Tc.
      assert (HR2 : Rel s0 s2).
      { eapply Rel_trans; [exact HR|]. eapply Rel_trans; [eapply Inv_rel; [apply Inv_walk_rvalue|exact E1]|eapply Inv_rel; [apply Inv_mark_branch_point|exact E2]]. }
      pose proof (IHa Fa _ _ _ HR2 E3) as Ta.
      assert (HR4 : Rel s0 s4).
      { eapply Rel_trans; [exact HR2|]. eapply Rel_trans; [eapply Inv_rel; [apply Inv_walk_rvalue|exact E3]|eapply Inv_rel; [apply Inv_mark_branch_point|exact E4]]. }
      pose proof (IHb Fb _ _ _ HR4 E5) as Tb.
      destruct (check_cond_bool _ _ _ _ E7) as [Bc _]. rewrite Bc in Tc.
      destruct (visit_ternary_sound _ _ _ _ _ _ _ _ _ _ E8) as [t [H1 H2]].
      eapply TyTernary; eauto.
  Qed.
End Main.

Theorem rvalue_typed E env s0 : envwf (List.length (bs_locals s0)) env ->
  forall e, frag E env e = true -> forall s a s', Rel s0 s -> walk_rvalue E env e s = (V a, s') ->
  Typed E (ctx_of env s0) e (operand_tdesc a).
Proof. intros Hw e. exact (proj1 (typed_all E env s0 Hw e)). Qed.

(* the statement for a translation that starts in the state the context is read from *)
Corollary accepted_expression_is_typed E env s0 e a s' :
  envwf (List.length (bs_locals s0)) env -> frag E env e = true ->
  walk_rvalue E env e s0 = (V a, s') -> Typed E (ctx_of env s0) e (operand_tdesc a).
Proof. intros Hw Hf H. exact (rvalue_typed E env s0 Hw e Hf s0 a s' (Rel_refl s0) H). Qed.

(* ... and its contrapositive: an expression of the fragment with no typing derivation is never accepted *)
Corollary ill_typed_expression_is_rejected E env s0 e :
  envwf (List.length (bs_locals s0)) env -> frag E env e = true ->
  (forall d, ~ Typed E (ctx_of env s0) e d) -> forall a s', walk_rvalue E env e s0 <> (V a, s').
Proof. intros Hw Hf Hn a s' H. exact (Hn _ (accepted_expression_is_typed E env s0 e a s' Hw Hf H)). Qed.

(* the hypotheses are met and the conclusion is not trivial: (1 + 2) * x > 0 ? x : -x with x an int local is accepted with type int,
   and 1 + true (no derivation: spec_binary has no row for integer-literal + bool) is rejected *)
Definition ex_env : lenv := [("x"%string, (0, DLet))].
Definition ex_state := {| bs_blocks := [block0]; bs_locals := [T_INT]; bs_nparams := 0; bs_diags := []; bs_exempt := [] |}.
Definition ex_E := {| ce_classes := []; ce_enums := []; ce_objects := []; ce_this := None |}.
Definition ex_expr := ETernary (EBinary BGt (EBinary BMul (EBinary BAdd (EInt 1) (EInt 2)) (EIdent "x")) (EInt 0)) (EIdent "x") (EUnary UMinus (EIdent "x")).
Example typed_example :
  envwf (List.length (bs_locals ex_state)) ex_env /\ frag ex_E ex_env ex_expr = true /\
  (exists a s', walk_rvalue ex_E ex_env ex_expr ex_state = (V a, s') /\ operand_tdesc a = DConcrete T_INT) /\
  frag ex_E ex_env (EBinary BAdd (EInt 1) (EBool true)) = true /\
  fst (walk_rvalue ex_E ex_env (EBinary BAdd (EInt 1) (EBool true)) ex_state) = F.
Proof.
  split. { intros x l k H. unfold ex_env in H. cbn [lenv_get] in H. destruct (String.eqb "x" x); [|discriminate H]. inversion H. apply le_n. }
  split; [reflexivity|]. split; [|split; reflexivity].
  eexists. eexists. split; [vm_compute; reflexivity|reflexivity].
Qed.

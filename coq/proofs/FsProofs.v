(* FsProofs.v -- C15 over model/FsModel.v *)
From Coq Require Import Lia.
From QV Require Import model.Base model.FsModel.
Open Scope string_scope.
Open Scope list_scope.

Lemma comp_eqb_eq a b : comp_eqb a b = true <-> a = b.
Proof.
  destruct a, b; cbn; try (split; [discriminate|congruence]); try (split; reflexivity).
  rewrite String.eqb_eq. split; congruence.
Qed.
Lemma path_eqb_eq a b : path_eqb a b = true <-> a = b.
Proof.
  revert b. induction a as [|x r IH]; intros [|y s]; cbn; try (split; [discriminate|congruence]); [split; reflexivity|].
  rewrite andb_true_iff, comp_eqb_eq, IH. split; [intros [-> ->]; reflexivity|intros E; inversion E; auto].
Qed.
Lemma path_eqb_refl a : path_eqb a a = true. Proof. apply path_eqb_eq. reflexivity. Qed.

(* ---- where the outputs go ---- *)
Definition below (d p : path) : Prop := exists rest, p = d ++ rest /\ forallb safe_comp rest = true /\ rest <> [].

Lemma safe_not_absolute p : forallb safe_comp p = true -> is_absolute p = false.
Proof. destruct p as [|[] r]; cbn; try reflexivity; discriminate. Qed.

Lemma with_file_name_safe p n : forallb safe_comp p = true -> forallb safe_comp (with_file_name p n) = true /\ with_file_name p n <> [].
Proof.
  intros H. unfold with_file_name. destruct (rev p) as [|c r] eqn:E.
  - split; [rewrite forallb_app, H; reflexivity|destruct p; discriminate].
  - assert (Hr : forallb safe_comp (rev r) = true).
    { assert (p = rev r ++ [c]) as -> by (rewrite <- (rev_involutive p), E; reflexivity).
      rewrite forallb_app in H. apply andb_prop in H. tauto. }
    destruct c; (split; [rewrite forallb_app; try rewrite Hr; try rewrite H; reflexivity|intros X; apply app_eq_nil in X; destruct X; discriminate]).
Qed.

(* with an output directory, accepted sources put both outputs strictly below that directory: no "..", no absolute path *)
Theorem outputs_confined lc d srcs src tn : sources_accepted (Some d) srcs = true -> In src srcs ->
  below d (fst (out_paths lc (Some d) src tn)) /\ below d (snd (out_paths lc (Some d) src tn)).
Proof.
  cbn [sources_accepted]. rewrite forallb_forall. intros H Hin. specialize (H src Hin). unfold out_paths, below. cbn [fst snd].
  split; (match goal with |- context [join d (with_file_name src ?n)] => destruct (with_file_name_safe src n H) as [S1 S2]; exists (with_file_name src n) end);
    (split; [unfold join; rewrite (safe_not_absolute _ S1); reflexivity|split; assumption]).
Qed.

(* absolute or parent-escaping sources are refused when an output directory is given *)
Theorem unsafe_source_refused d srcs src : In src srcs -> (exists c, In c src /\ (c = ParentDir \/ c = RootDir)) -> sources_accepted (Some d) srcs = false.
Proof.
  intros Hin [c [Hc Hk]]. cbn. destruct (forallb (forallb safe_comp) srcs) eqn:E; [|reflexivity]. exfalso.
  rewrite forallb_forall in E. specialize (E src Hin). rewrite forallb_forall in E. specialize (E c Hc). destruct Hk; subst; discriminate.
Qed.

(* the names: next to the source, the type name with the file name rule *)
Theorem output_names lc dir stem tn :
  out_paths lc None (dir ++ [Normal stem]) tn = (dir ++ [Normal (ui_name lc tn)], dir ++ [Normal (support_name lc tn)]).
Proof. unfold out_paths, with_file_name. rewrite rev_unit. cbn. rewrite rev_involutive. reflexivity. Qed.

(* ---- compare-then-write, temp + rename ---- *)
Lemma lookup_cons_same l p d : lookup ((p, d) :: l) p = Some d.
Proof. cbn. rewrite path_eqb_refl. reflexivity. Qed.
Lemma lookup_remove_other l p q : p <> q -> lookup (remove l p) q = lookup l q.
Proof.
  intros N. induction l as [|[a d] r IH]; cbn; [reflexivity|]. destruct (path_eqb a p) eqn:E.
  - apply path_eqb_eq in E. subst a. destruct (path_eqb p q) eqn:E2; [apply path_eqb_eq in E2; contradiction|exact IH].
  - cbn. destruct (path_eqb a q); [reflexivity|exact IH].
Qed.

Definition data_eqb := (fix eqb (a b : data) := match a, b with [], [] => true | x :: r, y :: q => N.eqb x y && eqb r q | _, _ => false end).
Lemma data_eqb_eq a b : data_eqb a b = true <-> a = b.
Proof.
  revert b. induction a as [|x r IH]; intros [|y s]; cbn; try (split; [discriminate|congruence]); [split; reflexivity|].
  rewrite andb_true_iff, N.eqb_eq, IH. split; [intros [-> ->]; reflexivity|intros E; inversion E; auto].
Qed.

Definition fresh (s : fs) (t : nat) : Prop := forall u, t <= u -> tlookup (temps s) u = None.
Lemma three_ops s t p d : exec_all s [OpCreateTemp (parent p) t; OpWriteTemp t d; OpRename t p]
  = {| files := (p, d) :: remove (files s) p; temps := filter (fun x => negb (Nat.eqb (fst x) t)) (temps s) |}.
Proof.
  unfold exec_all. cbn [fold_left]. cbn -[remove filter parent]. rewrite !Nat.eqb_refl. cbn -[remove filter parent]. rewrite !Nat.eqb_refl.
  cbn -[remove parent]. rewrite !Nat.eqb_refl. cbn -[remove parent]. reflexivity.
Qed.
Lemma two_ops_files s t p d : files (exec_all s [OpCreateTemp (parent p) t; OpWriteTemp t d]) = files s.
Proof. unfold exec_all. cbn [fold_left]. cbn -[parent]. rewrite !Nat.eqb_refl. reflexivity. Qed.
Lemma one_op_files s t p : files (exec_all s [OpCreateTemp (parent p) t]) = files s.
Proof. reflexivity. Qed.

Lemma filter_fresh l t u : (forall v, t <= v -> tlookup l v = None) -> tlookup (filter (fun x => negb (Nat.eqb (fst x) t)) l) u = None \/ True.
Proof. auto. Qed.

Lemma tlookup_filter_none l t u : t <= u -> (forall v, t <= v -> tlookup l v = None) -> tlookup (filter (fun x => negb (Nat.eqb (fst x) t)) l) u = None.
Proof.
  intros Hu. induction l as [|[v x] r IH]; intros H; cbn; [reflexivity|].
  assert (Hr : forall w, t <= w -> tlookup r w = None).
  { intros w Hw. specialize (H w Hw). cbn in H. destruct (Nat.eqb v w); [discriminate|exact H]. }
  destruct (Nat.eqb v t) eqn:E; cbn; [apply IH, Hr|].
  destruct (Nat.eqb v u) eqn:E2; [|apply IH, Hr].
  apply Nat.eqb_eq in E2. subst v. specialize (H u Hu). cbn in H. rewrite Nat.eqb_refl in H. discriminate.
Qed.

Definition new_ops (t : nat) (p : path) (d : data) := [OpCreateTemp (parent p) t; OpWriteTemp t d; OpRename t p].
Lemma write_ops_cases s t p d : (write_ops s t p d = [] /\ lookup (files s) p = Some d) \/ write_ops s t p d = new_ops t p d.
Proof.
  unfold write_ops. destruct (lookup (files s) p) as [old|] eqn:L; [|right; reflexivity].
  fold data_eqb. destruct (data_eqb old d) eqn:E; [|right; reflexivity]. apply data_eqb_eq in E. subst. left. auto.
Qed.

(* what one output write does to the files: only that path changes, to the new bytes; all temp ids >= S t stay fresh *)
Lemma write_effect s t p d : fresh s t ->
  lookup (files (exec_all s (write_ops s t p d))) p = Some d
  /\ (forall q, q <> p -> lookup (files (exec_all s (write_ops s t p d))) q = lookup (files s) q)
  /\ fresh (exec_all s (write_ops s t p d)) (S t).
Proof.
  intros F. destruct (write_ops_cases s t p d) as [[-> L]| ->].
  - cbn. split; [exact L|]. split; [reflexivity|]. intros u Hu. apply F. lia.
  - unfold new_ops. rewrite three_ops. cbn [files temps]. split; [apply lookup_cons_same|]. split.
    + intros q N. cbn. destruct (path_eqb p q) eqn:E; [apply path_eqb_eq in E; congruence|]. apply lookup_remove_other. congruence.
    + intros u Hu. apply tlookup_filter_none; [lia|exact F].
Qed.

(* atomicity: at every crash point of one write, the output path holds its complete old or its complete new content, and no
   other path has changed *)
Theorem write_atomic s t p d n : fresh s t ->
  let s' := exec_all s (firstn n (write_ops s t p d)) in
  (lookup (files s') p = lookup (files s) p \/ lookup (files s') p = Some d)
  /\ (forall q, q <> p -> lookup (files s') q = lookup (files s) q).
Proof.
  intros F. destruct (write_ops_cases s t p d) as [[-> L]| ->].
  - destruct n; cbn; auto.
  - unfold new_ops. destruct n as [|[|[|m]]]; cbn [firstn].
    + cbn. auto.
    + rewrite one_op_files. auto.
    + rewrite two_ops_files. auto.
    + rewrite firstn_nil. rewrite three_ops. cbn [files]. split; [right; apply lookup_cons_same|].
      intros q N. cbn. destruct (path_eqb p q) eqn:E; [apply path_eqb_eq in E; congruence|]. apply lookup_remove_other. congruence.
Qed.

(* idempotence: after a run, running again on the same outputs requests no operation at all (no write, no rename: inode and
   mtime of every output are untouched) *)
Theorem rerun_is_silent : forall outs s t, fresh s t -> NoDup (map fst outs) ->
  forall t', fresh (exec_all s (run_ops s t outs)) t' -> run_ops (exec_all s (run_ops s t outs)) t' outs = [].
Proof.
  assert (K : forall outs s t, fresh s t -> NoDup (map fst outs) ->
              (forall p d, In (p, d) outs -> lookup (files (exec_all s (run_ops s t outs))) p = Some d)
              /\ (forall q, ~ In q (map fst outs) -> lookup (files (exec_all s (run_ops s t outs))) q = lookup (files s) q)).
  { induction outs as [|[p d] r IH]; intros s t F ND; cbn [run_ops].
    - split; [intros ? ? []|reflexivity].
    - inversion ND as [|? ? N1 ND']; subst. unfold exec_all. rewrite fold_left_app. fold (exec_all s (write_ops s t p d)).
      destruct (write_effect s t p d F) as [E1 [E2 E3]].
      destruct (IH (exec_all s (write_ops s t p d)) (S t) E3 ND') as [I1 I2]. unfold exec_all in *. split.
      + intros q e [X|X]; [inversion X; subst; rewrite (I2 q N1); exact E1|apply I1, X].
      + intros q Hq. cbn in Hq. rewrite I2 by tauto. apply E2. intros ->. apply Hq. now left. }
  intros outs s t F ND t' F'. destruct (K outs s t F ND) as [K1 _]. clear K.
  set (s1 := exec_all s (run_ops s t outs)) in *.
  assert (G : forall l s2 u, (forall p d, In (p, d) l -> lookup (files s2) p = Some d) -> run_ops s2 u l = []).
  { induction l as [|[p d] r IH]; intros s2 u H; cbn [run_ops]; [reflexivity|].
    assert (W : write_ops s2 u p d = []).
    { unfold write_ops. rewrite (H p d (or_introl eq_refl)). fold data_eqb. rewrite (proj2 (data_eqb_eq d d) eq_refl). reflexivity. }
    rewrite W. cbn. apply IH. intros q e Hq. apply H. now right. }
  apply G. exact K1.
Qed.

Lemma exec_all_app s a b : exec_all s (a ++ b) = exec_all (exec_all s a) b.
Proof. unfold exec_all. apply fold_left_app. Qed.

(* a prefix of a run leaves every path that is not an output untouched *)
Lemma run_prefix_other : forall outs s t n q, fresh s t -> ~ In q (map fst outs) ->
  lookup (files (exec_all s (firstn n (run_ops s t outs)))) q = lookup (files s) q.
Proof.
  induction outs as [|[p0 d0] r IH]; intros s t n q F Hq; cbn [run_ops]; [rewrite firstn_nil; reflexivity|].
  rewrite firstn_app, exec_all_app.
  assert (Nq : q <> p0) by (intros ->; apply Hq; now left).
  assert (Hr : ~ In q (map fst r)) by (intros X; apply Hq; now right).
  destruct (Nat.le_gt_cases (length (write_ops s t p0 d0)) n) as [Hn|Hn].
  - rewrite (firstn_all2 (write_ops s t p0 d0)) by exact Hn.
    destruct (write_effect s t p0 d0 F) as [E1 [E2 E3]].
    pose proof (IH (exec_all s (write_ops s t p0 d0)) (S t) (n - length (write_ops s t p0 d0)) q E3 Hr) as I. rewrite I. apply E2, Nq.
  - replace (n - length (write_ops s t p0 d0)) with 0 by lia. cbn [firstn]. change (exec_all ?x []) with x.
    destruct (write_atomic s t p0 d0 n F) as [_ B]. apply B, Nq.
Qed.

(* atomicity of a whole run: at every crash point every output path holds its complete old or its complete new content *)
Theorem run_atomic : forall outs s t n, fresh s t -> NoDup (map fst outs) ->
  forall p d, In (p, d) outs ->
  lookup (files (exec_all s (firstn n (run_ops s t outs)))) p = lookup (files s) p \/ lookup (files (exec_all s (firstn n (run_ops s t outs)))) p = Some d.
Proof.
  induction outs as [|[p0 d0] r IH]; intros s t n F ND; cbn [run_ops]; [intros ? ? []|].
  inversion ND as [|? ? N1 ND']; subst. intros p d Hin.
  rewrite firstn_app, exec_all_app.
  destruct (Nat.le_gt_cases (length (write_ops s t p0 d0)) n) as [Hn|Hn].
  - rewrite (firstn_all2 (write_ops s t p0 d0)) by exact Hn.
    destruct (write_effect s t p0 d0 F) as [E1 [E2 E3]].
    destruct Hin as [X|X].
    + inversion X; subst p d. right.
      pose proof (run_prefix_other r (exec_all s (write_ops s t p0 d0)) (S t) (n - length (write_ops s t p0 d0)) p0 E3 N1) as I.
      rewrite I. exact E1.
    + pose proof (IH (exec_all s (write_ops s t p0 d0)) (S t) (n - length (write_ops s t p0 d0)) E3 ND' p d X) as I.
      destruct I as [A|A]; [left; rewrite A; apply E2; intros ->; apply N1; apply in_map_iff; exists (p0, d); auto|right; exact A].
  - replace (n - length (write_ops s t p0 d0)) with 0 by lia. cbn [firstn]. change (exec_all ?x []) with x.
    destruct (write_atomic s t p0 d0 n F) as [A B].
    destruct Hin as [X|X]; [inversion X; subst; exact A|].
    left. apply B. intros ->. apply N1. apply in_map_iff. exists (p0, d). auto.
Qed.
